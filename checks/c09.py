"""C09 - 3D bond-orientational order equals Steinhardt's definitions (E1 over neighbour topologies, E2 over
frame histories, crystals).

Round-4 slices (docs/STRENGTHEN_TASK2.md; alphabets in mc/ref/c09y.py):
  C09.frames    L2 / L4: trajectories whose frames differ in CLASS (table width of the neighbour and the weight file, orthogonal vs tilted cell, all-equal /
                varied / zero-containing / integer-token weights), all ordered pairs and triples of classes
  C09.files     every output-file branch of ql_Ql, sij_ql_Ql, w_W_cap (name forms with and without .npy / .dat / .txt)
  C09.types     L5 / L7 / L8: ppp, position storage, numpy integers, particles on box faces, unwrapped coordinates, dilated cells, explicit zero options
  C09.sequence  L6: call words over (object, call) letters in forked children with re-imported library modules (in addition to the single-object search)
  C09.crystals  the tabulated crystals also dilated by 2^-33 / 2^27"""
import itertools
import math
import os

import numpy as np

from mc import alphabets as A
from mc.harness import Result, Sub, digest
from mc.ref import boo as B
from mc.ref import c09x as X
from mc.ref import c09y as Y
from mc.ref.base import close, frac_tie_margin, maxdiff, mk_snaps, write_neighbor_file, write_weight_file

ASSUMPTIONS = [
    "bonds follow the C02 minimum-image contract; configurations with a periodic fractional bond component closer than "
    "1e-7 to a half-cell tie are screened out before the library runs",
    "reference Y_lm: Condon-Shortley convention, m = -l..l in this order, from exact rational Legendre coefficients "
    "(mc/ref/boo.py); 3j symbols from the exact-rational Racah formula; float tolerance rtol 1e-9 / atol 1e-11",
    "weights are non-negative with a positive row sum (the 3D normalisation is by the plain row sum; single exact zeros: C09.frames / C09.types); every particle has >= 1 neighbour and "
    "cn <= Nmax; the weight file has the topology of the neighbour file",
    "s_ij is stored as float32: values compared at 5e-7, |s_ij| <= 1 + 1e-6, the thresholded count is an interval "
    "oracle (bonds with |s_ij - c| < 1e-6 may count either way); the count is only observable in the outputqlQl csv "
    "(columns id, sum_sij, num_neighbors)",
    "sij_ql_Ql returns a list of per-frame arrays [id, cn, s_i1..] zero-padded to Nmax columns without outputsij and the "
    "concatenated array trimmed to the largest cn with outputsij; both shapes are accepted, padding must be 0",
    "particles whose reference |q_lm| < 1e-7 are excluded from the s_ij and w-hat comparison (0/0)",
    "spatial_corr returns the frame mean of the conditional g(r) table (columns r, gr, gA with gA = pair-weighted "
    "Re sum_m q_lm(i) conj q_lm(j), normalised like g(r)); the documented G_l(r) is 4pi/(2l+1) gA/gr of that table; "
    "bins holding a pair closer than 1e-9 to a bin edge are compared as intervals (gr) or skipped (gA)",
    "time_corr: equal timestep differences -> all time origins averaged, otherwise origin 0 only (F = 1 and unequal "
    "spacing); normalised to exactly 1.0 at lag 0; t = (step - step_0) dt",
    "Nmax below the largest coordination number (scale slice only): read_neighbors documents Nmax as 'the maximum number of neighboring particles to "
    "consider'; the first Nmax listed neighbours and their weights are used (weights normalised by the sum of the kept ones) - resolved towards the implementation",
    "scale slice: inputs of 63..257 particles are compared with vectorised numpy references (mc/ref/c09x.py: the formulas of mc/ref/boo.py on flat bond "
    "arrays, Legendre polynomials by Horner in extended precision from the exact rational coefficients; they agree with the exact loop references to 1e-14); "
    "placements with a periodic fractional pair component within 1e-9 of a half-cell tie or a pair within 1e-9 of a bin edge are replaced by the next hash table; "
    "library-written Voronoi weights may contain 0.000000 entries (faces below the 6-decimal output): accepted as long as the row sum is positive",
    "call sequences: a call on an object that has served other calls must return what the same call returns on a fresh object (rtol 1e-12)",
    "call words (round 4): every call of a word made in ONE forked child (library modules re-imported) returns bit for bit what the same call returns when it is the first "
    "call of a fresh child; objects built inside a word stay alive until the word ends; the letters with a shared file NAME rewrite that file and build a new object each time",
    "frame classes (round 4): boxlength is asserted constant by the library, so only the tilt factors change between frames; a frame whose largest coordination number is smaller "
    "than another frame's is read into a narrower table (read_neighbors trims to the frame's own maximum) - the definition is applied per frame",
    "weights (round 4): a single exact zero among the weights of a particle is inside the domain (the bond drops out of q_lm but the neighbour still counts in the coarse-graining "
    "mean over 1 + N_i and in s_ij); a row summing to zero is outside; weights may be written as integer tokens ('1 2 1')",
    "Nmax below a coordination number: `Neighborlist[:, 0] > Nmax` in sij_ql_Ql (ValueError 'increase Nmax') is unreachable - read_neighbors already stores min(cn, Nmax) and the "
    "first Nmax entries, which is what its docstring ('the maximum number of neighboring particles to consider') says; the check demands that truncation, never the exception",
    "storage forms (round 4): ppp as list / tuple / bool / int32 array, positions as float32 (compared at 1e-4: the bond differences are formed in float32; thresholded and binned "
    "quantities are not demanded there), Fortran-ordered or strided position arrays, l as np.int64, Nmax as np.int32 are all accepted like the canonical forms; unwrapped "
    "coordinates (whole cell vectors added along periodic axes) and a dilation of cell and positions by 2^-33 / 2^27 leave q_lm, q_l, w_l, s_ij unchanged; spatial_corr of the "
    "dilated cells is left to C13; explicit zeros for options with defaults (c = 0, dt = 0.0) are values, not requests for the default",
    "output files (round 4): ql_Ql / w_W_cap write <name>.npy (np.save appends '.npy' unless the name ends with it) holding the returned array, and for names ending in .dat / .txt "
    "additionally a text file of F rows x N columns '%.6f'; sij_ql_Ql writes the csv (id,sum_sij,num_neighbors as integers) and the text file ('id CN sij' header, '%d %d %.6f ..' rows "
    "trimmed to the largest coordination number of the trajectory) independently of each other; nothing is demanded about files that were not requested",
    "tabulated crystal values (Steinhardt et al. 1983, Mickel et al. 2013, six decimals) compared at 1e-5; "
    "w-hat_4 of the icosahedron (q_4 = 0) is undefined and not compared",
]

LS = list(range(2, 13))
TOL_S = 5e-7


# ------------------------------------------------------------------------------------------ geometry
def cell3(name):
    L = [6.0, 7.0, 8.0]
    t = {"orth": [0.0, 0.0, 0.0], "tri": [1.0, -1.0, 1.5], "tri2": [-2.0, 1.5, -1.0]}[name]
    return A.hmat_tri(L, t)


SPECIAL = [[1.0, 1.0, 1.0], [1.0, 1.0, 7.0], [5.0, 1.0, 1.0], [1.0, 3.5, 1.0]]  # bonds along -z (wrapped), -x (phi = pi), +y


def positions(seed, n, geom, H, tag=""):
    if geom == "special":
        return [list(p) for p in SPECIAL[:n]]
    fr = np.array(A.generic_points(seed, n, 3, tag=f"c09{geom}{tag}_{n}_"))
    if geom == "cluster":  # compact cluster straddling the cell corner: short bonds, several of them wrapped
        fr = ((fr - 0.5) * 0.42) % 1.0
    return (fr @ np.asarray(H)).tolist()


def ordered(nl, order):
    if order == "asc":
        return [list(x) for x in nl]
    if order == "desc":
        return [list(reversed(x)) for x in nl]
    return [list(x[1:]) + list(x[:1]) for x in nl]  # rot


def weights_for(nl, wmode):
    if wmode == "none":
        return None
    if wmode == "equal":
        return [[2.5] * len(x) for x in nl]
    if wmode == "two":
        return [[1.0 if (i + k) % 2 == 0 else 3.0 for k in range(len(x))] for i, x in enumerate(nl)]
    if wmode == "three":
        return [[[0.5, 1.0, 2.0][(2 * i + k) % 3] for k in range(len(x))] for i, x in enumerate(nl)]
    raise ValueError(wmode)


def core_topologies(n, stride):
    return [t for k, t in enumerate(A.topologies(n)) if k % stride == 0]


def distinct_orders(topos, orders):
    seen = set()
    for t in topos:
        for o in orders:
            nl = ordered(t, o)
            key = str(nl)
            if key not in seen:
                seen.add(key)
                yield nl, o


def mkcase(seed, n, nl, l, wmode, cell, geom, ppp=(1, 1, 1), nmax="default", order="asc", want=("q",)):
    H = cell3(cell)
    return {"N": n, "nl": nl, "l": l, "wmode": wmode, "cell": cell, "geom": geom, "H": H.tolist(), "ppp": list(ppp),
            "pos": positions(seed, n, geom, H), "nmax": nmax, "order": order, "want": list(want)}


# ------------------------------------------------------------------------------------------ C09.topology
def gen_topology(tier, seed):
    t3 = list(A.topologies(3))
    # (a) N = 3: every topology in every list order x l x weights x cell x geometry
    for nl, o in distinct_orders(t3, ("asc", "desc")):
        for l in LS:
            for wmode in ("none", "equal", "two"):
                for cell in ("orth", "tri"):
                    for geom in ("generic", "special"):
                        yield mkcase(seed, 3, nl, l, wmode, cell, geom, order=o)
    # (b) all periodicity masks, second triclinic cell, tight Nmax, three-valued weights (deviations from the default)
    for nl in t3:
        for l in (3, 6):
            for m in A.masks(3)[1:]:
                for cell in ("orth", "tri"):
                    yield mkcase(seed, 3, nl, l, "two", cell, "generic", ppp=m)
                yield mkcase(seed, 3, nl, l, "none", "tri", "cluster", ppp=m)
            for wmode in ("none", "three"):
                yield mkcase(seed, 3, nl, l, wmode, "tri2", "generic")
                yield mkcase(seed, 3, nl, l, wmode, "orth", "cluster", nmax="tight")
    # (c) N = 4
    if tier == "quick":
        for nl in A.topologies(4):
            yield mkcase(seed, 4, nl, 6, "none", "orth", "generic")
        core = core_topologies(4, 97)
        for nl, o in distinct_orders(core, ("asc", "desc", "rot")):
            for l in LS:
                for wmode in ("none", "equal", "two"):
                    cell = "tri" if (l + len(wmode)) % 2 else "orth"
                    yield mkcase(seed, 4, nl, l, wmode, cell, "generic" if o != "rot" else "special", order=o)
    else:
        for nl in A.topologies(4):
            for l in LS:
                for wmode in ("none", "equal", "two"):
                    yield mkcase(seed, 4, nl, l, wmode, "tri" if (l + len(wmode)) % 2 else "orth", "generic")
        for nl, o in distinct_orders(A.topologies(4), ("desc", "rot")):
            for l, wmode, cell, geom in ((6, "two", "tri", "special"), (5, "three", "orth", "cluster")):
                yield mkcase(seed, 4, nl, l, wmode, cell, geom, order=o, nmax="tight" if l == 5 else "default")
        for nl in core_topologies(4, 7):
            for m in A.masks(3)[1:]:
                yield mkcase(seed, 4, nl, 4, "two", "tri", "cluster", ppp=m)


def build(case, frames=None, nls=None, steps=None, wts="auto", Hs=None):
    """Write the harness files for the case and construct the real boo_3d object."""
    from PyMatterSim.static.boo import boo_3d

    H = np.array(case["H"], float) if Hs is None else np.array(Hs, float)
    frames = frames if frames is not None else [case["pos"]]
    nls = nls if nls is not None else [case["nl"]] * len(frames)
    n = len(frames[0])
    if wts == "auto":
        wts = None if case["wmode"] == "none" else [weights_for(nl, case["wmode"]) for nl in nls]
    write_neighbor_file("c09_nb.dat", nls)
    if wts is not None:
        write_weight_file("c09_w.dat", wts)
    maxcn = max(len(x) for nl in nls for x in nl)
    nmax = maxcn if case.get("nmax") == "tight" else 30
    snaps = mk_snaps(frames, H, [1] * n, steps=steps)
    b = boo_3d(snaps, case["l"], "c09_nb.dat", weightsfile="c09_w.dat" if wts is not None else None,
               ppp=np.array(case["ppp"]), Nmax=nmax)
    return b, snaps, wts, nmax


def screen_margin(frames, H, ppp):
    m = 1.0
    for pos in frames:
        pos = np.asarray(pos, float)
        for i in range(len(pos)):
            m = min(m, frac_tie_margin(np.delete(pos, i, axis=0) - pos[i], H, ppp))
    return m


def sij_rows(ret, F, n):
    """Normalise both documented return shapes to an array (F*n, 2+k)."""
    if isinstance(ret, list):
        if len(ret) != F:
            return None
        return np.concatenate([np.asarray(x) for x in ret], axis=0)
    return np.asarray(ret)


def check_sij(R, sig, b, qs, nls, coarse, c, files, nmax, sijref=None, csv=True):
    """s_ij, padding, thresholded count (csv) and the text file for all frames.  qs: reference q (or Q) per frame.
    sijref: reference s_ij routine (default the literal double loop; the scale slice passes the vectorised one).
    csv=False: outputqlQl is NOT requested (the count is then not observable); files=False: outputsij is not requested."""
    sijref = sijref or B.ref_sij
    F, n = len(qs), qs[0].shape[0]
    csvf = "c09_sum.csv" if csv else None
    txt = "c09_sij.dat" if files else None
    Y.rm(txt)
    ret = b.sij_ql_Ql(coarse_graining=coarse, c=c, outputqlQl=csvf, outputsij=txt)
    arr = sij_rows(ret, F, n)
    sg = dict(sig, coarse=coarse)
    if arr is None or arr.ndim != 2 or arr.shape[0] != F * n:
        R.fail("s_ij result has the wrong number of rows", sub="C09.sij", sig=dict(sg, clause="shape"))
        return 0
    import pandas as pd

    if csv:
        tab = pd.read_csv(csvf)
        raw = Y.read_tokens(csvf)
        open(csvf, "w").close()  # truncate: a result that is not rewritten by the next call cannot be mistaken for a fresh one
        if list(tab.columns) != ["id", "sum_sij", "num_neighbors"] or len(tab) != F * n:
            R.fail(f"csv layout {list(tab.columns)} x {len(tab)}", sub="C09.sij", sig=dict(sg, clause="csv_layout"))
            return 0
        if not all(Y.INT_.match(t) for r in raw[1:] for t in r[0].split(",")):
            R.fail("csv entries are not written as integers (%d)", sub="C09.sij", sig=dict(sg, clause="csv_format"))
    else:
        tab = None
    elem = 0
    maxcn = max(len(x) for nl in nls for x in nl)
    if arr.shape[1] < 2 + maxcn:
        R.fail(f"s_ij has {arr.shape[1]} columns < 2 + max cn {maxcn}", sub="C09.sij", sig=dict(sg, clause="shape"))
        return 0
    for f in range(F):
        sref, nrm = sijref(qs[f], nls[f])
        for i in range(n):
            row = arr[f * n + i]
            ni = len(nls[f][i])
            if int(row[0]) != i + 1 or int(row[1]) != ni or (csv and (int(tab["id"][f * n + i]) != i + 1 or int(tab["num_neighbors"][f * n + i]) != ni)):
                R.fail("id / coordination-number columns wrong", sub="C09.sij", sig=dict(sg, clause="idcn"), exp=[i + 1, ni], obs=row[:2])
                continue
            if np.any(row[2 + ni:] != 0):
                R.fail("padding beyond the coordination number is not zero", sub="C09.sij", sig=dict(sg, clause="padding"))
            ok = nrm[i] > 1e-7 and all(nrm[j] > 1e-7 for j in nls[f][i])
            if not ok:
                continue
            got = row[2:2 + ni]
            elem += ni
            if not np.all(np.abs(got - sref[i]) <= TOL_S):
                R.fail(f"s_ij of particle {i} frame {f}: {got.tolist()} != {sref[i].tolist()}", sub="C09.sij",
                       sig=dict(sg, clause="value"), exp=sref[i], obs=got)
            if np.any(np.abs(got) > 1 + 1e-6):
                R.fail("|s_ij| > 1", sub="C09.bounds", sig=dict(sg, clause="sij_bound"), obs=got)
            if not csv:
                continue
            lo = int(np.sum(sref[i] > c + 1e-6))
            hi = int(np.sum(sref[i] > c - 1e-6))
            cnt = int(tab["sum_sij"][f * n + i])
            if not lo <= cnt <= hi:
                R.fail(f"count of s_ij > {c} for particle {i}: {cnt}, reference [{lo},{hi}] of {ni} bonds", sub="C09.sij",
                       sig={"clause": "count", "c_negative": bool(c < 0), "coarse": coarse}, exp=[lo, hi], obs=cnt)
    if files:
        rows = Y.read_tokens(txt)
        if rows is None or rows[0] != ["id", "CN", "sij"] or len(rows) != 1 + F * n or any(len(r) != 2 + maxcn for r in rows[1:]):
            R.fail(f"s_ij text file: missing, wrong header or not {F * n} rows x (2 + largest cn {maxcn}) columns", sub="C09.sij", sig=dict(sg, clause="file"))
        elif not all(Y.INT_.match(r[0]) and Y.INT_.match(r[1]) and all(Y.FIX6.match(t) for t in r[2:]) for r in rows[1:]):
            R.fail("s_ij text file is not written as '%d %d %.6f ..'", sub="C09.sij", sig=dict(sg, clause="file_format"))
        else:
            back = np.array([[float(t) for t in r] for r in rows[1:]])
            if not np.allclose(back, arr[:, :2 + maxcn], rtol=0, atol=0.5000001e-6):
                R.fail("s_ij text file differs from the returned array beyond %.6f", sub="C09.sij", sig=dict(sg, clause="file"))
        Y.rm(txt)
    return elem


def run_topology(case):
    R = Result()
    H = np.array(case["H"], float)
    n, l, nl = case["N"], case["l"], case["nl"]
    pos = np.array(case["pos"], float)
    sig = {"N": n, "cell": case["cell"], "geom": case["geom"], "wmode": case["wmode"], "masked": bool(0 in case["ppp"]),
           "lclass": "table" if l <= 10 else "delegated", "nmax": case["nmax"]}
    if screen_margin([pos], H, case["ppp"]) < 1e-7:
        return R.screen()
    b, snaps, wts, nmax = build(case)
    W = wts[0] if wts is not None else None
    q, Q = B.ref_qlm(pos, H, case["ppp"], nl, l, W)
    shp = (1, n, 2 * l + 1)
    if b.smallqlm.shape != shp or b.largeQlm.shape != shp:
        R.fail(f"q_lm shape {b.smallqlm.shape} / {b.largeQlm.shape} != {shp}", sub="C09.qlm", sig=dict(sig, clause="shape"))
        return R
    if not close(b.smallqlm[0], q):
        R.fail(f"q_lm differs from the reference by {maxdiff(b.smallqlm[0], q):.3e}", sub="C09.weights" if W is not None else "C09.qlm",
               sig=dict(sig, clause="qlm"), exp=q, obs=b.smallqlm[0])
    if not close(b.largeQlm[0], Q):
        R.fail(f"coarse-grained Q_lm differs from the reference by {maxdiff(b.largeQlm[0], Q):.3e}", sub="C09.coarse",
               sig=dict(sig, clause="Qlm"), exp=Q, obs=b.largeQlm[0])
    outs = {}
    for coarse, ref in ((False, q), (True, Q)):
        got = b.ql_Ql(coarse_graining=coarse)
        exp = B.ref_ql(ref, l)
        outs[f"ql{int(coarse)}"] = got
        if got.shape != (1, n) or not close(got[0], exp):
            R.fail(f"{'Q_l' if coarse else 'q_l'} differs from sqrt(4pi/(2l+1) sum|q_lm|^2)", sub="C09.ql", sig=dict(sig, clause="ql", coarse=coarse),
                   exp=exp, obs=got)
        elif np.any(got < 0) or np.any(got > 1 + 1e-12):
            R.fail("q_l outside [0, 1]", sub="C09.bounds", sig=dict(sig, clause="ql_bound", coarse=coarse), obs=got)
    el = check_sij(R, sig, b, [q], [nl], False, 0.7, True, nmax)
    el += check_sij(R, sig, b, [Q], [nl], True, 0.0, False, nmax)
    el += check_sij(R, sig, b, [q], [nl], False, -0.5, False, nmax)
    if case["wmode"] == "equal":  # equal weights reproduce the unweighted result (implementation vs implementation)
        b0, *_ = build(case, wts=None)
        if not (np.allclose(b.smallqlm, b0.smallqlm, rtol=1e-12, atol=1e-13) and np.allclose(b.largeQlm, b0.largeQlm, rtol=1e-12, atol=1e-13)):
            R.fail("equal weights do not reproduce the unweighted q_lm / Q_lm", sub="C09.weights", sig=dict(sig, clause="equal_weights"))
    if not np.array_equal(snaps.snapshots[0].positions, pos):
        R.fail("snapshot positions modified", sub="C09.qlm", sig=dict(sig, clause="input_modified"))
    R.outcome([outs["ql0"], outs["ql1"]], nd=8)
    R.nontrivial = bool(np.abs(q).sum() > 1e-6)
    R.elem = 2 * n * (2 * l + 1) + 2 * n + el
    return R


# ------------------------------------------------------------------------------------------ C09.w
def gen_w(tier, seed):
    t3 = list(A.topologies(3))
    for nl in t3:
        for l in (4, 6):
            for wmode in ("none", "two"):
                for cell, geom in (("orth", "generic"), ("tri", "special")):
                    yield mkcase(seed, 3, nl, l, wmode, cell, geom)
    small3 = [t3[k] for k in (0, 7, 13, 20, 26)]
    big = list(A.topologies(4)) if tier == "thorough" else core_topologies(4, 37)
    for nl in big:
        for l in (4, 6):
            yield mkcase(seed, 4, nl, l, "none" if l == 4 else "two", "tri" if l == 4 else "orth", "generic")
    others = [l for l in LS if l not in (4, 6)]
    core4 = core_topologies(4, 37 if tier == "thorough" else 600)
    for l in others:
        for nl in small3:
            yield mkcase(seed, 3, nl, l, "none", "orth", "generic")
            yield mkcase(seed, 3, nl, l, "two", "tri", "cluster")
        for nl in core4:
            yield mkcase(seed, 4, nl, l, "two", "tri", "generic")


def check_w(R, sig, b, qs_by_mode, l, files=False, wref=None):
    """w_l and w-hat_l of every frame/particle for local and coarse-grained vectors."""
    wref = wref or B.ref_w
    elem = 0
    outs = []
    for coarse, qs in qs_by_mode:
        kw = {}
        if files:
            kw = {"outputw": "c09_w_out.dat", "outputwcap": "c09_wcap_out.npy"}
        w, wc = b.w_W_cap(coarse_graining=coarse, **kw)
        outs += [w, wc]
        F, n = len(qs), qs[0].shape[0]
        if w.shape != (F, n) or wc.shape != (F, n):
            R.fail(f"w shape {w.shape}", sub="C09.w", sig=dict(sig, clause="shape", coarse=coarse))
            continue
        for f in range(F):
            rw, rwc = wref(qs[f], l)
            nrm = np.sqrt((np.abs(qs[f]) ** 2).sum(axis=1))
            elem += 2 * n
            if not close(w[f], rw, rtol=1e-9, atol=1e-12):
                R.fail(f"w_l differs from the 3j contraction by {maxdiff(w[f], rw):.3e}", sub="C09.w", sig=dict(sig, clause="w", coarse=coarse), exp=rw, obs=w[f])
            ok = nrm > 1e-7
            if not close(wc[f][ok], rwc[ok], rtol=1e-8, atol=1e-11):
                R.fail(f"w-hat_l differs from w_l (sum|q_lm|^2)^(-3/2) by {maxdiff(wc[f][ok], rwc[ok]):.3e}", sub="C09.w",
                       sig=dict(sig, clause="what", coarse=coarse), exp=rwc, obs=wc[f])
        if files:
            w2 = np.load("c09_w_out.dat.npy")
            wt = np.loadtxt("c09_w_out.dat", ndmin=2)
            wc2 = np.load("c09_wcap_out.npy")
            for fn in ("c09_w_out.dat.npy", "c09_w_out.dat", "c09_wcap_out.npy"):
                os.remove(fn)
            if not (np.array_equal(w2, w) and np.array_equal(wc2, wc) and np.allclose(wt, w, rtol=0, atol=0.5000001e-6)):
                R.fail("w output files differ from the returned arrays", sub="C09.w", sig=dict(sig, clause="file", coarse=coarse))
    return elem, outs


def run_w(case):
    R = Result()
    H = np.array(case["H"], float)
    n, l, nl = case["N"], case["l"], case["nl"]
    pos = np.array(case["pos"], float)
    sig = {"N": n, "cell": case["cell"], "geom": case["geom"], "wmode": case["wmode"], "l46": l in (4, 6), "odd": bool(l % 2)}
    if screen_margin([pos], H, case["ppp"]) < 1e-7:
        return R.screen()
    b, snaps, wts, nmax = build(case)
    q, Q = B.ref_qlm(pos, H, case["ppp"], nl, l, wts[0] if wts is not None else None)
    if not (close(b.smallqlm[0], q) and close(b.largeQlm[0], Q)):
        R.fail("q_lm / Q_lm differ from the reference", sub="C09.qlm", sig=dict(sig, clause="qlm"))
        return R
    el, outs = check_w(R, sig, b, ((False, [q]), (True, [Q])), l, files=(n == 3 and l == 6))
    R.outcome(outs, nd=9)
    R.nontrivial = bool(np.abs(outs[0]).max() > 1e-9) if outs else False
    R.elem = el
    return R


# ------------------------------------------------------------------------------------------ C09.history (E2)
TOPO_H = [
    [[1, 2, 3], [0, 2], [0, 1, 3], [2]],
    [[1], [2], [3], [0]],
    [[3, 1], [0], [1, 0, 3], [2, 0]],
]


def gen_history(tier, seed):
    ls = (4, 7) if tier == "quick" else (2, 4, 6, 7, 12)
    for l in ls:
        for cell in ("orth", "tri", "trivar"):
            for wmode in ("none", "two"):
                for alpha in ("mixed", "even"):
                    depth = 3 if (tier == "quick" or (alpha == "mixed" and l != 6)) else 4
                    H = cell3("tri" if cell == "trivar" else cell)
                    # "trivar": every configuration letter carries its own cell - same edge lengths, tilt factors scaled by 1, -1, 1/2
                    # (a sheared trajectory): each frame must be analysed with ITS cell
                    Hc = [np.diag(np.diag(H)) + (H - np.diag(np.diag(H))) * (f if cell == "trivar" else 1.0) for f in (1.0, -1.0, 0.5)]
                    cfgs = [positions(seed, 4, "cluster", Hc[c], tag=f"h{c}") for c in range(3)]
                    if alpha == "mixed":
                        letters = [[0, 0, 100], [1, 1, 100], [2, 2, 300], [0, 1, 300], [1, 1, 300]]
                    else:
                        letters = [[0, 0, 200], [1, 2, 200], [2, 1, 200], [2, 0, 200]]
                    yield {"l": l, "cell": cell, "H": H.tolist(), "H_cfgs": [h.tolist() for h in Hc], "ppp": [1, 1, 1] if alpha == "mixed" else [1, 0, 1], "wmode": wmode,
                           "cfgs": cfgs, "letters": letters, "alpha": alpha, "depth": depth, "dt": 0.002 if alpha == "mixed" else 0.5,
                           "rdelta": 0.5 if alpha == "mixed" else 0.3, "step0": 500}


def check_time(R, sig, tab, series, steps, dt, coarse, sub="C09.time"):
    t, C, style = B.ref_time_corr(series, steps, dt)
    sg = dict(sig, coarse=coarse, style=style, F=min(len(steps), 3))
    if list(tab.columns) != ["t", "time_corr"] or len(tab) != len(steps):
        R.fail(f"time_corr table layout {list(tab.columns)} x {len(tab)}", sub=sub, sig=dict(sg, clause="layout"))
        return
    if not close(tab["t"].values, t, rtol=1e-12, atol=1e-12):
        R.fail("time axis != (step - step_0) dt", sub=sub, sig=dict(sg, clause="t"), exp=t, obs=tab["t"].values)
    if not close(tab["time_corr"].values, C):
        R.fail(f"time correlation differs from the normalised autocorrelation ({style}) by {maxdiff(tab['time_corr'].values, C):.3e}",
               sub=sub, sig=dict(sg, clause="value"), exp=C, obs=tab["time_corr"].values)
    if tab["time_corr"].values[0] != 1.0:
        R.fail("C(0) != 1.0", sub=sub, sig=dict(sg, clause="lag0"), obs=tab["time_corr"].values[0])


def check_spatial(R, sig, tab, ref, coarse, sub="C09.spatial"):
    sg = dict(sig, coarse=coarse)
    if list(tab.columns) != ["r", "gr", "gA"] or len(tab) != len(ref["r"]):
        R.fail(f"spatial_corr table layout {list(tab.columns)} x {len(tab)} (expected {len(ref['r'])} bins)", sub=sub, sig=dict(sg, clause="layout"))
        return 0
    if not close(tab["r"].values, ref["r"], rtol=1e-12, atol=1e-12):
        R.fail("bin centres differ", sub=sub, sig=dict(sg, clause="r"))
    g = tab["gr"].values.astype(float)
    tol = 1e-9 * np.maximum(1.0, np.abs(ref["gr_hi"])) + 1e-11
    if np.any((g < ref["gr_lo"] - tol) | (g > ref["gr_hi"] + tol) | ~np.isfinite(g)):
        R.fail("g(r) column differs from the frame-mean pair histogram", sub=sub, sig=dict(sg, clause="gr"), exp=ref["gr_hi"], obs=g)
    ok = ~ref["amb"]
    gA = tab["gA"].values.astype(float)
    if not close(gA[ok], ref["gA"][ok]):
        R.fail(f"gA differs from the frame mean of the pair-weighted histogram by {maxdiff(gA[ok], ref['gA'][ok]):.3e}", sub=sub,
               sig=dict(sg, clause="gA"), exp=ref["gA"], obs=gA)
    return int((np.abs(ref["gA"][ok]) > 1e-12).sum())


def run_history(case):
    """Breadth-first search over frame histories: a state is the sequence of frames appended so far (configuration,
    neighbour topology, timestep increment), rebuilt on a fresh boo_3d object and fresh files; every invariant of the
    property that involves frames is evaluated in every state."""
    R = Result()
    H = np.array(case["H"], float)
    l, ppp, dt, w = case["l"], case["ppp"], case["dt"], case["rdelta"]
    cfgs = [np.array(c, float) for c in case["cfgs"]]
    letters = case["letters"]
    sig = {"cell": case["cell"], "wmode": case["wmode"], "alpha": case["alpha"]}
    Hc = [np.array(h, float) for h in case["H_cfgs"]] if case.get("H_cfgs") else [H] * len(cfgs)
    if min(screen_margin([c], h, ppp) for c, h in zip(cfgs, Hc)) < 1e-7:
        return R.screen()
    refq = {}
    for k, (c, t, _) in enumerate(letters):
        nl = TOPO_H[t]
        W = weights_for(nl, case["wmode"])
        refq[k] = B.ref_qlm(cfgs[c], Hc[c], ppp, nl, l, W)
    seen = set()
    frontier = [()]
    states = transitions = elem = 0
    popl = 0
    outd = []
    for depth in range(1, case["depth"] + 1):
        nxt = []
        for h in frontier:
            for a in range(len(letters)):
                hist = h + (a,)
                transitions += 1
                frames = [cfgs[letters[k][0]] for k in hist]
                nls = [TOPO_H[letters[k][1]] for k in hist]
                steps = [case["step0"]]
                for k in hist[1:]:
                    steps.append(steps[-1] + letters[k][2])
                Hs = [Hc[letters[k][0]] for k in hist]
                b, snaps, wts, nmax = build(case, frames=[f.tolist() for f in frames], nls=nls, steps=steps, Hs=Hs)
                F = len(hist)
                sg = dict(sig, F=min(F, 3))
                qs = [refq[k][0] for k in hist]
                Qs = [refq[k][1] for k in hist]
                if b.smallqlm.shape != (F, 4, 2 * l + 1) or not close(b.smallqlm, np.array(qs)):
                    R.fail("q_lm of a multi-frame trajectory differs from the per-frame reference (files read frame by frame)", sub="C09.qlm",
                           sig=dict(sg, clause="frames"), exp=np.array(qs), obs=b.smallqlm)
                    continue
                if not close(b.largeQlm, np.array(Qs)):
                    R.fail("Q_lm of a multi-frame trajectory differs from the per-frame reference", sub="C09.coarse", sig=dict(sg, clause="frames"))
                    continue
                d = digest([np.round(b.smallqlm.real, 10).tolist(), np.round(b.smallqlm.imag, 10).tolist(), [s - steps[0] for s in steps],
                            [f.tolist() for f in frames], [str(x) for x in nls]])
                if d in seen:
                    continue  # same observable state reached by another history (first increment is irrelevant)
                seen.add(d)
                states += 1
                nxt.append(hist)
                for coarse, ser in ((False, qs), (True, Qs)):
                    check_time(R, sg, b.time_corr(coarse_graining=coarse, dt=dt), np.array(ser), steps, dt, coarse)
                    ref = B.ref_spatial(frames, np.array(Hs), ppp, w, ser, "vector")
                    popl = max(popl, check_spatial(R, sg, b.spatial_corr(coarse_graining=coarse, rdelta=w), ref, coarse))
                    elem += F + 2 * len(ref["r"])
                    got = b.ql_Ql(coarse_graining=coarse)
                    if not close(got, B.ref_ql(np.array(ser), l)):
                        R.fail("q_l of a multi-frame trajectory differs", sub="C09.ql", sig=dict(sg, clause="frames", coarse=coarse))
                elem += check_sij(R, sg, b, qs, nls, False, 0.7, F == 2, nmax)
                elem += check_sij(R, sg, b, Qs, nls, True, 0.3, False, nmax)
                if l in (4, 6) and F == case["depth"]:
                    e2, _ = check_w(R, sg, b, ((False, qs),), l)
                    elem += e2
                outd.append(d)
        frontier = nxt
    R.states, R.transitions = states, transitions
    R.elem = elem
    R.outcome(sorted(outd))
    R.nontrivial = popl >= 2
    return R


# ------------------------------------------------------------------------------------------ C09.sources
def parse_nfile(fn, n, conv):
    """Independent reader of the documented neighbour/weight file format: list (frames) of list (id order) of lists."""
    lines = [x for x in open(fn).read().split("\n") if x.strip()]
    frames, k = [], 0
    while k < len(lines):
        k += 1  # header
        fr = [None] * n
        for _ in range(n):
            it = lines[k].split()
            k += 1
            fr[int(it[0]) - 1] = [conv(x) for x in it[2:2 + int(it[1])]]
        frames.append(fr)
    return frames


def gen_sources(tier, seed):
    """Neighbour (and face-area weight) files produced by the library's own neighbour definitions, two frames."""
    for cell in ("orth", "tri"):
        ls = (4, 6) if tier == "quick" else (2, 3, 4, 6, 9, 10, 11)
        # N-nearest / cutoff: all 6-, 7-, 8-subsets of a jittered 2x2x2 lattice
        box = [4.0, 4.0, 4.0]
        H = A.hmat_tri(box, [0.0, 0.0, 0.0] if cell == "orth" else [1.0, -0.5, 0.5])
        sites = [np.array(A.jl_points(seed, 2, 3, box, tag=f"c09s{f}")) @ (H / 4.0) for f in range(2)]
        for size in (8, 7, 6):
            for keep in itertools.combinations(range(8), size):
                frames = [s[list(keep)].tolist() for s in sites]
                for src in (["nnearest", 1], ["nnearest", 3], ["nnearest", 5], ["cutoff", 2.9]):
                    for l in ls:
                        if tier == "quick" and size == 6 and l != 6:
                            continue
                        yield {"cell": cell, "H": H.tolist(), "frames": frames, "src": src, "l": l, "ppp": [1, 1, 1]}
        # Voronoi (needs >= 3 sites per direction once there is a vacancy, otherwise a cell touches its own image):
        # jittered 3x3x3 lattice, complete and with every single vacancy; complete 2x2x2
        box3 = [6.0, 6.0, 6.0]
        H3 = A.hmat_tri(box3, [0.0, 0.0, 0.0] if cell == "orth" else [1.5, -1.0, 0.5])
        sites3 = [np.array(A.jl_points(seed, 3, 3, box3, tag=f"c09v{f}")) @ (H3 / 6.0) for f in range(2)]
        plc = [(H, [s.tolist() for s in sites]), (H3, [s.tolist() for s in sites3])]
        for vac in range(27):
            plc.append((H3, [np.delete(s, vac, axis=0).tolist() for s in sites3]))
        for k, (Hc, frames) in enumerate(plc):
            for mode in ("weighted", "plain"):
                for l in ls:
                    if tier == "quick" and k >= 2 and (l == 4) != (k % 2 == 0):
                        continue
                    yield {"cell": cell, "H": Hc.tolist(), "frames": frames, "src": ["voronoi", mode], "l": l, "ppp": [1, 1, 1]}


def run_sources(case):
    from PyMatterSim.neighbors.calculate_neighbors import Nnearests, cutoffneighbors
    from PyMatterSim.neighbors.freud_neighbors import cal_neighbors
    from PyMatterSim.static.boo import boo_3d

    R = Result()
    H = np.array(case["H"], float)
    frames, l, ppp = case["frames"], case["l"], case["ppp"]
    n = len(frames[0])
    kind, arg = case["src"]
    sig = {"cell": case["cell"], "source": kind, "arg": str(arg)}
    snaps = mk_snaps(frames, H, [1] * n)
    wfile = None
    if kind == "nnearest":
        Nnearests(snaps, N=int(arg), ppp=np.array(ppp), fnfile="c09_src.dat")
        nfile = "c09_src.dat"
    elif kind == "cutoff":
        cutoffneighbors(snaps, r_cut=float(arg), ppp=np.array(ppp), fnfile="c09_src.dat")
        nfile = "c09_src.dat"
    else:
        cal_neighbors(snaps, "c09_vor")
        nfile = "c09_vor.neighbor.dat"
        wfile = "c09_vor.facearea.dat" if arg == "weighted" else None
    nls = parse_nfile(nfile, n, lambda x: int(x) - 1)
    wts = parse_nfile(wfile, n, float) if wfile else None
    if any(i in x for fr in nls for i, x in enumerate(fr)):
        return R.screen()  # Voronoi of a small periodic system: a particle neighbouring its own image has no bond direction
    if any(len(x) == 0 for fr in nls for x in fr) or (wts is not None and any(min(x) <= 0 for fr in wts for x in fr)):
        return R.screen()  # a particle without neighbours / a non-positive weight is outside the property's domain
    nmax = max(len(x) for fr in nls for x in fr)
    b = boo_3d(snaps, l, nfile, weightsfile=wfile, ppp=np.array(ppp), Nmax=nmax)
    F = len(frames)
    qs, Qs = [], []
    for f in range(F):
        q, Q = B.ref_qlm(frames[f], H, ppp, nls[f], l, wts[f] if wts is not None else None)
        qs.append(q)
        Qs.append(Q)
    if b.smallqlm.shape != np.array(qs).shape or not close(b.smallqlm, np.array(qs)):
        R.fail(f"q_lm from a library-written {kind} neighbour file differs from the reference by {maxdiff(b.smallqlm, np.array(qs)):.3e}",
               sub="C09.weights" if wts is not None else "C09.qlm", sig=dict(sig, clause="qlm"))
        return R
    if not close(b.largeQlm, np.array(Qs)):
        R.fail("Q_lm from a library-written neighbour file differs from the reference", sub="C09.coarse", sig=dict(sig, clause="Qlm"))
    ql = b.ql_Ql()
    if not close(ql, B.ref_ql(np.array(qs), l)):
        R.fail("q_l differs", sub="C09.ql", sig=dict(sig, clause="ql"))
    if np.any(ql < 0) or np.any(ql > 1 + 1e-12):
        R.fail("q_l outside [0, 1]", sub="C09.bounds", sig=dict(sig, clause="ql_bound"))
    el = check_sij(R, sig, b, qs, nls, False, 0.7, False, nmax)
    R.outcome(ql, nd=8)
    R.elem = 2 * F * n * (2 * l + 1) + el
    return R


# ------------------------------------------------------------------------------------------ C09.crystals
ROT = [[2.0 / 3, -1.0 / 3, 2.0 / 3], [2.0 / 3, 2.0 / 3, -1.0 / 3], [-1.0 / 3, 2.0 / 3, 2.0 / 3]]  # a proper rotation with rational entries


def supercell(name):
    """Periodic perfect crystal: (positions, cell lengths, neighbour distance threshold^2 list)."""
    if name == "sc":
        pts = [[i, j, k] for i in range(3) for j in range(3) for k in range(3)]
        return np.array(pts, float), [3.0, 3.0, 3.0], 1.0
    if name == "fcc":
        base = [[0, 0, 0], [0.5, 0.5, 0], [0.5, 0, 0.5], [0, 0.5, 0.5]]
        pts = [[i + b[0], j + b[1], k + b[2]] for i in range(2) for j in range(2) for k in range(2) for b in base]
        return np.array(pts, float), [2.0, 2.0, 2.0], math.sqrt(0.5)
    if name in ("bcc8", "bcc14"):
        base = [[0, 0, 0], [0.5, 0.5, 0.5]]
        pts = [[i + b[0], j + b[1], k + b[2]] for i in range(3) for j in range(3) for k in range(3) for b in base]
        return np.array(pts, float), [3.0, 3.0, 3.0], math.sqrt(0.75) if name == "bcc8" else 1.0
    if name == "hcp":
        s3, c = math.sqrt(3.0), math.sqrt(8.0 / 3.0)
        base = [[0, 0, 0], [0.5, s3 / 2, 0], [0.5, s3 / 6, c / 2], [0.0, s3 / 2 + s3 / 6, c / 2]]
        pts = [[i + b[0], j * s3 + b[1], k * c + b[2]] for i in range(3) for j in range(2) for k in range(2) for b in base]
        return np.array(pts, float), [3.0, 2 * s3, 2 * c], 1.0
    raise ValueError(name)


def gen_crystals(tier, seed):
    for name in ("fcc", "hcp", "bcc8", "bcc14", "sc", "ico"):
        for l in (4, 6):
            for rot in (False, True):
                for coarse_shell in (False, True):
                    yield {"kind": "cluster", "name": name, "l": l, "rot": rot, "shell_lists": coarse_shell}
    for name in ("fcc", "hcp", "bcc8", "bcc14", "sc"):
        for l in (4, 6):
            for shift in (False, True):
                yield {"kind": "periodic", "name": name, "l": l, "shift": shift}
    # the same crystals dilated by exact powers of two to a cell edge of ~1e-9 (SI units) and ~1e9: every bond direction is unchanged
    for dil in (-33, 27):
        for l in (4, 6):
            for name in ("fcc", "hcp", "bcc8", "bcc14", "sc", "ico"):
                yield {"kind": "cluster", "name": name, "l": l, "rot": True, "shell_lists": True, "dil": dil}
                if name != "ico":
                    yield {"kind": "periodic", "name": name, "l": l, "shift": True, "dil": dil}
    if tier == "thorough":
        for name in ("fcc", "hcp", "bcc8", "bcc14", "sc", "ico"):
            for l in (2, 3, 5, 7, 8, 9, 10, 11, 12):
                yield {"kind": "cluster", "name": name, "l": l, "rot": True, "shell_lists": False}


def run_crystals(case):
    from PyMatterSim.static.boo import boo_3d

    R = Result()
    name, l = case["name"], case["l"]
    sig = {"kind": case["kind"], "crystal": name, "l": l, "dilated": bool(case.get("dil"))}
    dil = 2.0 ** case.get("dil", 0)
    tab = B.TABLE[name]
    if case["kind"] == "cluster":
        sh = np.array(B.SHELLS[name](), float)
        if case["rot"]:
            sh = sh @ np.array(ROT).T
        scale = 1.3
        pos = np.vstack([[0.0, 0.0, 0.0], sh * scale]) + 10.0
        Hc = np.diag([20.0, 20.0, 20.0])
        ppp = [0, 0, 0]
        n = len(pos)
        if case["shell_lists"]:  # shell atoms list every other shell atom closer than 1.2 bond lengths plus the centre
            nl = [list(range(1, n))]
            for i in range(1, n):
                nl.append([0] + [j for j in range(1, n) if j != i and np.linalg.norm(pos[j] - pos[i]) < 1.2 * scale * np.linalg.norm(sh[0])])
        else:
            nl = [list(range(1, n))] + [[0] for _ in range(1, n)]
        centre = [0]
        pos, Hc = pos * dil, Hc * dil
    else:
        pos, L, rc = supercell(name)
        pos, L, rc = pos * dil, [x * dil for x in L], rc * dil
        Hc = np.diag(L)
        ppp = [1, 1, 1]
        n = len(pos)
        if case["shift"]:
            pos = (pos + np.array([0.37, 1.9, -0.6]) * dil) % np.array(L)
        nl = []
        from mc.ref.base import pair_table

        _, dist = pair_table(pos, Hc, ppp)
        for i in range(n):
            nl.append([j for j in range(n) if j != i and dist[i, j] < rc * (1 + 1e-6)])
        centre = list(range(n))
    write_neighbor_file("c09_nb.dat", [nl])
    snaps = mk_snaps([pos], Hc, [1] * n)
    b = boo_3d(snaps, l, "c09_nb.dat", ppp=np.array(ppp), Nmax=max(len(x) for x in nl))
    q, Q = B.ref_qlm(pos, Hc, ppp, nl, l)
    if not (close(b.smallqlm[0], q) and close(b.largeQlm[0], Q)):
        R.fail(f"q_lm / Q_lm of the {name} crystal differ from the reference", sub="C09.qlm", sig=dict(sig, clause="qlm"))
        return R
    ql = b.ql_Ql()[0]
    got = {"q": float(ql[centre[0]])}
    expected_cn = {"fcc": 12, "hcp": 12, "bcc8": 8, "bcc14": 14, "sc": 6, "ico": 12}[name]
    if any(len(nl[i]) != expected_cn for i in centre):
        raise RuntimeError("harness neighbour list of the crystal is wrong")
    if l in (4, 6):
        if np.any(np.abs(ql[centre] - tab[f"q{l}"]) > 1e-5):
            R.fail(f"q_{l} of {name}: {ql[centre][:3].tolist()} != tabulated {tab[f'q{l}']}", sub="C09.crystals", sig=dict(sig, clause="q_table"),
                   exp=tab[f"q{l}"], obs=ql[centre][:3])
        w, wc = b.w_W_cap()
        rw, rwc = B.ref_w(q, l)
        nrm_ok = np.sqrt((np.abs(q) ** 2).sum(axis=1)) > 1e-7
        if not close(w[0], rw, atol=1e-12) or not close(wc[0][nrm_ok], rwc[nrm_ok], rtol=1e-8):
            R.fail("w / w-hat of the crystal differ from the reference", sub="C09.w", sig=dict(sig, clause="w"))
        if tab[f"w{l}"] is not None and np.any(np.abs(wc[0][centre] - tab[f"w{l}"]) > 1e-5):
            R.fail(f"w-hat_{l} of {name}: {wc[0][centre][:3].tolist()} != tabulated {tab[f'w{l}']}", sub="C09.crystals", sig=dict(sig, clause="w_table"),
                   exp=tab[f"w{l}"], obs=wc[0][centre][:3])
        got["w"] = float(wc[0][centre[0]]) if tab[f"w{l}"] is not None else 0.0
        if case["kind"] == "periodic":  # every site is equivalent: coarse graining changes nothing, all bonds fully coherent
            Ql = b.ql_Ql(coarse_graining=True)[0]
            if np.any(np.abs(Ql - tab[f"q{l}"]) > 1e-5):
                R.fail(f"coarse-grained Q_{l} of the periodic {name} crystal != tabulated value", sub="C09.crystals", sig=dict(sig, clause="Q_table"))
            sret = sij_rows(b.sij_ql_Ql(c=0.7, outputqlQl="c09_sum.csv"), 1, n)
            import pandas as pd

            cnt = pd.read_csv("c09_sum.csv")["sum_sij"].values
            os.remove("c09_sum.csv")
            if np.any(np.abs(sret[:, 2:2 + expected_cn] - 1.0) > 1e-6) or np.any(cnt != expected_cn):
                R.fail("bonds of a perfect crystal are not all coherent (s_ij = 1, count = cn)", sub="C09.crystals", sig=dict(sig, clause="sij"))
    else:
        exp = B.ref_ql(q, l)
        if not close(ql, exp):
            R.fail("q_l of the crystal differs from the reference", sub="C09.ql", sig=dict(sig, clause="ql"))
    if np.any(ql < 0) or np.any(ql > 1 + 1e-12):
        R.fail("q_l outside [0,1]", sub="C09.bounds", sig=dict(sig, clause="ql_bound"))
    R.outcome(got, nd=7)
    R.elem = len(centre) * 2
    return R


# ------------------------------------------------------------------------------------------ C09.scale
# A scale slice enumerates SIZES (particles, frames), not value assignments: one fixed value pattern per size and pattern row.
SCALE_N = {"quick": [64, 65, 130, 257], "thorough": [63, 64, 65, 127, 128, 129, 130, 255, 256, 257]}
SCALE_F = {"quick": [65], "thorough": [64, 65, 129, 257]}
SCALE_PAT = [
    # harness-written ragged lists (cn 1..14, the maximum attained by the first / the last particle only)
    {"p": "h1", "src": "harness", "maxat": "first", "cell": "orthy", "F": 1, "l": 6, "w": "none", "nmax": "tight", "ppp": [1, 1, 1], "steps": "even", "wl": True, "files": True},
    {"p": "h2", "src": "harness", "maxat": "last", "cell": "trivar", "F": 3, "l": 4, "w": "ragged", "nmax": "above", "ppp": [1, 1, 1], "steps": "even", "wl": True},
    {"p": "h3", "src": "harness", "maxat": "alt", "cell": "tri-", "F": 3, "l": 7, "w": "none", "nmax": "plus1", "ppp": [1, 0, 1], "steps": "uneven", "fine": True},
    {"p": "h4", "src": "harness", "maxat": "last", "cell": "orthz", "F": 1, "l": 12, "w": "ragged", "nmax": "below", "ppp": [1, 1, 1], "steps": "even"},
    {"p": "h5", "src": "harness", "maxat": "alt", "cell": "tri+", "F": 3, "l": 2, "w": "ragged", "nmax": "tight", "ppp": [0, 1, 1], "steps": "uneven"},
    {"p": "h6", "src": "harness", "maxat": "first", "cell": "trivar", "F": 3, "l": 6, "w": "none", "nmax": "below", "ppp": [1, 1, 1], "steps": "even", "wl": True, "fine": True},
    # lists (and face-area weights) written by the library's own routines, read back by an independent parser
    {"p": "nn", "src": "nnearest", "arg": 12, "cell": "trivar", "F": 3, "l": 6, "w": "none", "nmax": "tight", "ppp": [1, 1, 1], "steps": "even"},
    {"p": "cut", "src": "cutoff", "cell": "orthy", "F": 3, "l": 4, "w": "none", "nmax": "tight", "ppp": [1, 1, 1], "steps": "uneven"},
    {"p": "vorw", "src": "voronoi", "arg": "weighted", "cell": "tri+", "F": 3, "l": 4, "w": "file", "nmax": "tight", "ppp": [1, 1, 1], "steps": "even"},
    {"p": "vor", "src": "voronoi", "arg": "plain", "cell": "orthz", "F": 1, "l": 12, "w": "none", "nmax": "plus1", "ppp": [1, 1, 1], "steps": "even"},
    # thorough only: the remaining degrees / masks on the same shapes
    {"p": "h7", "src": "harness", "maxat": "last", "cell": "tri-", "F": 3, "l": 12, "w": "ragged", "nmax": "plus1", "ppp": [1, 1, 0], "steps": "even", "tier": "thorough"},
    {"p": "h8", "src": "harness", "maxat": "first", "cell": "orthy", "F": 3, "l": 7, "w": "ragged", "nmax": "below", "ppp": [1, 1, 1], "steps": "uneven", "tier": "thorough"},
    {"p": "nn1", "src": "nnearest", "arg": 1, "cell": "tri-", "F": 1, "l": 2, "w": "none", "nmax": "tight", "ppp": [1, 1, 1], "steps": "even", "tier": "thorough"},
    {"p": "cut2", "src": "cutoff", "cell": "trivar", "F": 3, "l": 7, "w": "none", "nmax": "above", "ppp": [1, 1, 1], "steps": "even", "tier": "thorough"},
]


SCALE_DENSE = {"p": "dense", "src": "cutoff", "rc": "dense", "cell": "tri-", "F": 1, "l": 4, "w": "none", "nmax": "above", "ppp": [1, 1, 1], "steps": "even"}


def gen_scale(tier, seed):
    for N in SCALE_N[tier]:
        for pat in SCALE_PAT:
            if pat.get("tier", tier) != tier:
                continue
            case = dict(pat, N=N, seed=seed, kind="particles")
            if tier == "quick" and pat["p"] == "h6" and N > 130:
                case["wl"] = False  # cost: w_W_cap on 3 x 257 particles is left to h1 (F = 1) and to the thorough tier
            yield case
    # particle ids with four digits in the text files
    yield dict(SCALE_PAT[0], N=1000, seed=seed, kind="particles", wl=False)
    # dense cutoff lists: 63..129+ neighbours per particle, thresholded counts above 127
    yield dict(SCALE_DENSE, N=257, seed=seed, kind="particles")
    if tier == "thorough":
        yield dict(SCALE_DENSE, N=130, seed=seed, kind="particles", l=6, cell="orthy")
    # long trajectories of few particles: the frame loop and the frame-by-frame file cursor
    for F in SCALE_F[tier]:
        for l, w, cell in ((4, "none", "trivar"), (6, "ragged", "orthy")):
            yield {"p": "frames", "kind": "frames", "src": "harness", "maxat": "alt", "cell": cell, "F": F, "l": l, "w": w, "nmax": "tight",
                   "ppp": [1, 1, 1], "steps": "even" if l == 4 else "uneven", "N": 16, "seed": seed}


def small_lists(N, f):
    """ragged lists for the many-frames slice (N = 16): coordination numbers 1..5 rotating with the frame"""
    offs = [1, 2, 5, 7, 11]
    return [[(i + o) % N for o in (offs[:1 + (i + f) % 5] if i % 2 else offs[:1 + (i + f) % 5][::-1])] for i in range(N)]


def scale_inputs(case, d=3, tagp="c09"):
    """Deterministic inputs of one scale case: cells, frames, steps and the bin width; None when no tie-free placement exists."""
    from mc.ref import scale as SC

    N, F, ppp = case["N"], case["F"], case["ppp"]
    Hs = X.cells_for(N, d, case["cell"], F)
    for tag in range(60):
        frames = X.frames_for(case["seed"], N, d, Hs, f"{tagp}sc{N}{case['p']}t{tag}")
        if min(X.tie_margin_allpairs(fr, H, ppp) for fr, H in zip(frames, Hs)) < 1e-9:
            continue
        for width in ((0.023, 0.021, 0.019) if case.get("fine") else (0.27, 0.31, 0.37)):  # fine: 93..170 bins (around 128)
            if not any(SC.weighted_hist(fr, H, ppp, width)[2] for fr, H in zip(frames, Hs)):
                break
        else:
            continue
        steps = [500 + 100 * f for f in range(F)]
        if case["steps"] == "uneven" and F >= 3:
            steps[-1] += 200
        return Hs, frames, steps, width
    return None


def scale_lists(case, snaps, frames, Hs, d=3, prefix="c09"):
    """neighbour / weight files of the case.  Returns (nfile, wfile, nls, wts) with nls / wts as READ BACK by the independent
    parser for library-written files; None when a library-written list leaves the documented domain (empty list, self)."""
    N, F, ppp = case["N"], case["F"], case["ppp"]
    src = case["src"]
    nfile, wfile = f"{prefix}_sc_nb.dat", None
    if src == "harness":
        if case["kind"] == "frames":
            nls = [small_lists(N, f) for f in range(F)]
        else:
            nls = [X.ragged_lists(N, f, {"first": "first", "last": "last", "alt": "first" if f % 2 == 0 else "last"}[case["maxat"]]) for f in range(F)]
        write_neighbor_file(nfile, nls)
        wts = None
        if case["w"] == "ragged":
            wts = [X.ragged_weights(nl, f, signed=(d == 2)) for f, nl in enumerate(nls)]
            wfile = f"{prefix}_sc_w.dat"
            write_weight_file(wfile, wts, header="id   cn   facearealist" if d == 3 else "id   cn   edgelengthlist")
        return nfile, wfile, nls, wts
    from PyMatterSim.neighbors.calculate_neighbors import Nnearests, cutoffneighbors
    from PyMatterSim.neighbors.freud_neighbors import cal_neighbors

    if src == "nnearest":
        Nnearests(snaps, N=int(case["arg"]), ppp=np.array(ppp), fnfile=nfile)
    elif src == "cutoff":
        # cutoff just above the largest nearest-neighbour distance of the trajectory: every particle has >= 1 neighbour, lists are ragged
        from mc.ref import scale as SC

        rc = 0.0
        for fr, H in zip(frames, Hs):
            iu, ju, _, r = SC.pair_dist(fr, H, ppp)
            nearest = np.full(N, np.inf)
            np.minimum.at(nearest, iu, r)
            np.minimum.at(nearest, ju, r)
            rc = max(rc, float(nearest.max()))
            if case.get("rc") == "dense":  # about half of the other particles (<= 135) inside the cutoff of particle 0
                d0 = np.sort(np.concatenate((r[iu == 0], r[ju == 0])))
                rc = float(d0[min(134, (N - 1) // 2)])
        cutoffneighbors(snaps, r_cut=rc * 1.001, ppp=np.array(ppp), fnfile=nfile)
    else:
        cal_neighbors(snaps, f"{prefix}_sc_vor")
        nfile = f"{prefix}_sc_vor.neighbor.dat"
        if case["arg"] == "weighted":
            wfile = f"{prefix}_sc_vor." + ("facearea" if d == 3 else "edgelength") + ".dat"
    nls = X.parse_nfile(nfile, N, lambda x: int(x) - 1)
    wts = X.parse_nfile(wfile, N, float) if wfile else None
    if len(nls) != F or any(len(x) == 0 or i in x for fr in nls for i, x in enumerate(fr)):
        return None
    if wts is not None and any(sum(abs(v) for v in x) <= 0 for fr in wts for x in fr):
        return None
    return nfile, wfile, nls, wts


def scale_nmax(case, nls):
    maxcn = max(len(x) for nl in nls for x in nl)
    return {"tight": maxcn, "plus1": maxcn + 1, "above": max(30, maxcn + 5), "below": max(1, maxcn - 3)}[case["nmax"]], maxcn


def scale_sig(case):
    N = case["N"]
    return {"scale": True, "pattern": case["p"], "source": case["src"], "cell": case["cell"], "wmode": case["w"], "nmax": case["nmax"],
            "masked": bool(0 in case["ppp"]), "size": "<=64" if N <= 64 else ("65-128" if N <= 128 else ">128"), "frames": min(case["F"], 4)}


def scale_files(R, sig, b, F, N):
    """optional output files of ql_Ql, spatial_corr and time_corr equal the returned values (text at the documented precision)"""
    import pandas as pd

    ql = b.ql_Ql(coarse_graining=True, outputfile="c09_sc_ql.dat")
    back, txt = np.load("c09_sc_ql.dat.npy"), np.loadtxt("c09_sc_ql.dat", ndmin=2)
    if not (np.array_equal(back, ql) and txt.shape == ql.shape and np.allclose(txt, ql, rtol=0, atol=0.5000001e-6)):
        R.fail("ql_Ql output files differ from the returned array", sub="C09.ql", sig=dict(sig, clause="file"))
    sp = b.spatial_corr(rdelta=0.27, outputfile="c09_sc_sp.csv")
    tab = pd.read_csv("c09_sc_sp.csv")
    if list(tab.columns) != list(sp.columns) or tab.shape != sp.shape or not np.allclose(tab.values, sp.values.astype(float), rtol=0, atol=0.5000001e-8):
        R.fail("spatial_corr csv differs from the returned table beyond %.8f", sub="C09.spatial", sig=dict(sig, clause="file"))
    tc = b.time_corr(dt=0.002, outputfile="c09_sc_tc.csv")
    tab2 = pd.read_csv("c09_sc_tc.csv")
    if list(tab2.columns) != list(tc.columns) or tab2.shape != tc.shape or not np.allclose(tab2.values, tc.values.astype(float), rtol=0, atol=0.5000001e-8):
        R.fail("time_corr csv differs from the returned table beyond %.8f", sub="C09.time", sig=dict(sig, clause="file"))
    for fn in ("c09_sc_ql.dat.npy", "c09_sc_ql.dat", "c09_sc_sp.csv", "c09_sc_tc.csv"):
        os.remove(fn)
    return ql.size + sp.size + tc.size


def run_scale(case):
    from PyMatterSim.static.boo import boo_3d

    R = Result()
    N, F, l, ppp = case["N"], case["F"], case["l"], case["ppp"]
    sig = scale_sig(case)
    inp = scale_inputs(case)
    if inp is None:
        return R.screen()
    Hs, frames, steps, width = inp
    snaps = mk_snaps([f.tolist() for f in frames], np.array(Hs), [1] * N, steps=steps)
    before = [s.positions.copy() for s in snaps.snapshots]
    lst = scale_lists(case, snaps, frames, Hs)
    if lst is None:
        return R.screen()
    nfile, wfile, nls_file, wts_file = lst
    nmax, maxcn = scale_nmax(case, nls_file)
    # Nmax below the largest coordination number: the first Nmax listed neighbours (and their weights) are used
    nls, wts = X.truncate(nls_file, wts_file, nmax)
    b = boo_3d(snaps, l, nfile, weightsfile=wfile, ppp=np.array(ppp), Nmax=nmax)
    qs, Qs = [], []
    for f in range(F):
        q, Q = X.ref_qlm(frames[f], Hs[f], ppp, nls[f], l, wts[f] if wts is not None else None)
        qs.append(q)
        Qs.append(Q)
    qs, Qs = np.array(qs), np.array(Qs)
    where = f"N={N} F={F} l={l} pattern {case['p']} (Nmax={nmax}, largest cn {maxcn})"
    if b.smallqlm.shape != qs.shape or b.largeQlm.shape != Qs.shape:
        R.fail(f"q_lm shape {b.smallqlm.shape} / {b.largeQlm.shape} != {qs.shape}: {where}", sub="C09.qlm", sig=dict(sig, clause="shape"))
        return R
    if not close(b.smallqlm, qs):
        bad = np.argwhere(~np.isclose(b.smallqlm, qs, rtol=1e-9, atol=1e-11))[0]
        R.fail(f"q_lm of frame {bad[0]} particle {bad[1]} (cn {len(nls[bad[0]][bad[1]])}) differs from the reference by {maxdiff(b.smallqlm, qs):.3e}: {where}",
               sub="C09.weights" if wts is not None else "C09.qlm", sig=dict(sig, clause="qlm"))
        return R
    if not close(b.largeQlm, Qs):
        bad = np.argwhere(~np.isclose(b.largeQlm, Qs, rtol=1e-9, atol=1e-11))[0]
        R.fail(f"coarse-grained Q_lm of frame {bad[0]} particle {bad[1]} (cn {len(nls[bad[0]][bad[1]])}) differs by {maxdiff(b.largeQlm, Qs):.3e}: {where}",
               sub="C09.coarse", sig=dict(sig, clause="Qlm"))
        return R
    el = 2 * qs.size
    outs = []
    for coarse, ser in ((False, qs), (True, Qs)):
        got = b.ql_Ql(coarse_graining=coarse)
        outs.append(got)
        if got.shape != (F, N) or not close(got, X.ref_ql(ser, l)):
            R.fail(f"{'Q_l' if coarse else 'q_l'} differs from sqrt(4pi/(2l+1) sum|q_lm|^2): {where}", sub="C09.ql", sig=dict(sig, clause="ql", coarse=coarse))
        elif np.any(got < 0) or np.any(got > 1 + 1e-12):
            R.fail(f"q_l outside [0, 1]: {where}", sub="C09.bounds", sig=dict(sig, clause="ql_bound", coarse=coarse))
        el += got.size
    el += check_sij(R, sig, b, list(qs), nls, False, 0.7, F == 1, nmax, sijref=X.ref_sij_flat)
    # dense lists: with c = -1.5 every bond counts, so the thresholded count equals the coordination number (> 127)
    el += check_sij(R, sig, b, list(Qs), nls, True, -1.5 if case["p"] == "dense" else -0.3, False, nmax, sijref=X.ref_sij_flat)
    if case.get("files"):
        el += scale_files(R, sig, b, F, N)
    if case.get("wl"):
        e2, _ = check_w(R, sig, b, ((bool(N % 2), list(Qs if N % 2 else qs)),), l, wref=X.ref_w)
        el += e2
    popl = 0
    for coarse, ser in ((False, qs), (True, Qs)):
        if (case["kind"] == "frames" or N >= 1000) and coarse:
            continue
        ref = X.ref_spatial(frames, Hs, ppp, width, ser)
        ref = {"r": ref["r"], "gr_lo": ref["gr"], "gr_hi": ref["gr"], "gA": ref["gA"], "amb": np.zeros(len(ref["r"]), bool)}
        popl = max(popl, check_spatial(R, sig, b.spatial_corr(coarse_graining=coarse, rdelta=width), ref, coarse))
        check_time(R, sig, b.time_corr(coarse_graining=coarse, dt=0.002), ser, steps, 0.002, coarse)
        el += F + 2 * len(ref["r"])
    for s_, p0 in zip(snaps.snapshots, before):
        if not np.array_equal(s_.positions, p0):
            R.fail("snapshot positions modified", sub="C09.qlm", sig=dict(sig, clause="input_modified"))
    for fn in (nfile, wfile, "c09_sc_vor.overall.dat", "c09_sc_vor.facearea.dat", "c09_sc_vor.neighbor.dat"):
        if fn and os.path.exists(fn):
            os.remove(fn)
    R.outcome(outs, nd=8)
    cns = [len(x) for x in nls_file[0]]
    R.nontrivial = bool(popl >= 2 and (len(set(cns)) >= 2 or case["src"] == "nnearest"))
    R.elem = el
    return R


# ------------------------------------------------------------------------------------------ C09.sequence (E2 over call sequences)
SEQ_LETTERS = [
    ["ql", False], ["ql", True], ["sij", False, 0.7], ["sij", False, -0.5], ["sij", True, 0.3], ["sp", False, 0.5], ["sp", False, 0.3],
    ["sp", True, 0.5], ["tc", False, 0.002], ["tc", False, 0.5], ["tc", True, 0.002], ["w", False], ["w", True],
]
SEQ_TOPO = [
    [[1, 2, 3, 4], [0, 2], [0, 1, 3], [2], [0, 5, 1], [4]],
    [[5], [2, 0], [3], [0, 4, 5, 1, 2], [1, 3], [0, 2]],
    [[3, 1], [0], [1, 0, 3, 5], [2, 0], [5], [4, 0, 2]],
]


def gen_sequence(tier, seed):
    yield from gen_sequence_object(tier, seed)
    yield from gen_words(tier, seed)


def gen_sequence_object(tier, seed):
    roots = [(4, "none", "trivar"), (6, "two", "orth")] if tier == "quick" else [(4, "none", "trivar"), (6, "two", "orth"), (7, "two", "tri"), (4, "two", "tri2")]
    for l, wmode, cell in roots:
        for a in range(len(SEQ_LETTERS)):
            yield {"l": l, "wmode": wmode, "cell": cell, "first": a, "depth": 2, "seed": seed}
        if tier == "thorough":
            for a in range(len(SEQ_LETTERS)):
                if SEQ_LETTERS[a][0] != "w":
                    yield {"l": l, "wmode": wmode, "cell": cell, "first": a, "depth": 3, "seed": seed}


def seq_build(case, which=0):
    """a fresh boo_3d object on fresh files (which = 1: the OTHER object that stays alive during the sequence - other degree, other
    files, other configurations)"""
    from PyMatterSim.static.boo import boo_3d

    cell = case["cell"]
    H = cell3("tri" if cell == "trivar" else cell)
    Hc = [np.diag(np.diag(H)) + (H - np.diag(np.diag(H))) * (f if cell == "trivar" else 1.0) for f in (1.0, -1.0, 0.5)]
    frames = [positions(case["seed"], 6, "cluster", Hc[f], tag=f"sq{which}{f}") for f in range(3)]
    nls = [SEQ_TOPO[(f + which) % 3] for f in range(3)]
    wmode = case["wmode"] if which == 0 else "three"
    wts = None if wmode == "none" else [weights_for(nl, wmode) for nl in nls]
    nf, wf = f"c09_sq{which}_nb.dat", f"c09_sq{which}_w.dat"
    write_neighbor_file(nf, nls)
    if wts is not None:
        write_weight_file(wf, wts)
    snaps = mk_snaps(frames, np.array(Hc), [1] * 6, steps=[500, 700, 900])
    l = case["l"] if which == 0 else (6 if case["l"] != 6 else 4)
    return boo_3d(snaps, l, nf, weightsfile=wf if wts is not None else None, ppp=np.array([1, 1, 1]), Nmax=5 + which), frames, Hc


def seq_call(b, letter, tag="a"):
    """one call of the alphabet; the result as a list of arrays (everything the call returns or writes)"""
    import pandas as pd

    kind, coarse = letter[0], letter[1]
    if kind == "ql":
        return [b.ql_Ql(coarse_graining=coarse)]
    if kind == "sij":
        csvf = f"c09_sq_{tag}.csv"
        ret = b.sij_ql_Ql(coarse_graining=coarse, c=letter[2], outputqlQl=csvf)
        tab = pd.read_csv(csvf).values.astype(float)
        os.remove(csvf)
        return [np.asarray(x, float) for x in ret] + [tab]
    if kind == "sp":
        return [b.spatial_corr(coarse_graining=coarse, rdelta=letter[2]).values.astype(float)]
    if kind == "tc":
        return [b.time_corr(coarse_graining=coarse, dt=letter[2]).values.astype(float)]
    if kind == "w":
        return [np.asarray(x) for x in b.w_W_cap(coarse_graining=coarse)]
    raise ValueError(kind)


def same(a, b):
    return len(a) == len(b) and all(x.shape == y.shape and np.allclose(x, y, rtol=1e-12, atol=1e-14, equal_nan=True) for x, y in zip(a, b))


def run_sequence(case):
    """Explicit-state search over call sequences on ONE boo_3d object (state = sequence of calls made so far; every sequence starts from
    a freshly built object): the result of every call must equal the result of the same call on a fresh object, whatever was called
    before; a second object (other degree, files, configurations) stays alive meanwhile and must be unaffected."""
    if case.get("part") == "words":
        return run_words(case, refcheck=word_refcheck)
    R = Result()
    sig = {"l46": case["l"] in (4, 6), "wmode": case["wmode"], "cell": case["cell"]}
    nL = len(SEQ_LETTERS)
    depth = case["depth"]
    allowed = [k for k in range(nL) if depth == 2 or SEQ_LETTERS[k][0] != "w"]
    fresh = {}
    for k in allowed:
        fresh[k] = seq_call(seq_build(case)[0], SEQ_LETTERS[k], "f")
    other, _, _ = seq_build(case, which=1)
    other_ref = [seq_call(other, SEQ_LETTERS[k], "o") for k in (0, 4, 5)]
    q0, Q0 = other.smallqlm.copy(), other.largeQlm.copy()
    a = case["first"]
    seqs = [(a, k) for k in allowed] if depth == 2 else [(a, k, m) for k in allowed for m in allowed]
    states = transitions = 0
    for seq in seqs:
        b, _, _ = seq_build(case)
        qb, Qb = b.smallqlm.copy(), b.largeQlm.copy()
        states += 1
        for pos_, k in enumerate(seq):
            got = seq_call(b, SEQ_LETTERS[k], "s")
            transitions += 1
            if not same(got, fresh[k]):
                prev = [SEQ_LETTERS[j] for j in seq[:pos_]]
                R.fail(f"{SEQ_LETTERS[k]} after {prev} on the same object differs from the same call on a fresh object", sub="C09.sequence",
                       sig=dict(sig, clause="call_" + SEQ_LETTERS[k][0], after=[SEQ_LETTERS[j][0] for j in seq[:pos_]]), exp=fresh[k][0], obs=got[0])
                break
        if not (np.array_equal(b.smallqlm, qb) and np.array_equal(b.largeQlm, Qb)):
            R.fail(f"calls {[SEQ_LETTERS[j] for j in seq]} modified the stored q_lm / Q_lm", sub="C09.sequence", sig=dict(sig, clause="stored_modified"))
    again = [seq_call(other, SEQ_LETTERS[k], "o") for k in (0, 4, 5)]
    if not all(same(x, y) for x, y in zip(again, other_ref)) or not (np.array_equal(other.smallqlm, q0) and np.array_equal(other.largeQlm, Q0)):
        R.fail("a second boo_3d object alive during the sequences changed its results", sub="C09.sequence", sig=dict(sig, clause="other_object"))
    R.states, R.transitions = states, transitions
    R.elem = transitions
    R.outcome([case["first"], case["depth"]] + [x for x in fresh[case["first"]]], nd=8)
    R.nontrivial = True
    return R


# ------------------------------------------------------------------------------------------ C09.frames (L2 / L4: frame CLASSES)
# Anything decided once from frame 0 and reused is visible only if frame 0 is of another CLASS than a later frame: table width
# (read_neighbors trims every frame to ITS largest coordination number, for the neighbour and for the weight file), orthogonal
# vs tilted cell at constant edge lengths, all-equal (unweighted-looking) vs varied vs zero-containing vs integer-token weights.
FR_LS = [4, 7, 6, 3, 12, 2, 5, 11, 8, 10, 9]
FR_CELLS = ("orth", "tri", "tri2")
FR_W = ("equal", "var", "zero", "int")


def frames_case(seed, topo, cells, wcl, k):
    return {"seed": seed, "topo": list(topo), "cells": list(cells), "wcl": None if wcl is None else list(wcl), "l": FR_LS[k % len(FR_LS)],
            "nmax": ("default", "tight", "below")[k % 3], "uneven": bool(len(topo) == 3 and k % 2)}


def gen_frames(tier, seed):
    q = tier == "quick"
    k = 0
    cellpairs = [("orth", "orth"), ("orth", "tri"), ("tri", "orth"), ("tri", "tri2")] if q else list(itertools.product(FR_CELLS, repeat=2))
    wpairs = [None, ("equal", "var"), ("var", "equal"), ("var", "zero"), ("zero", "var"), ("int", "var")] if q else [None] + list(itertools.product(FR_W, repeat=2))
    for ta in Y.TOPO_NAMES:
        for tb in Y.TOPO_NAMES:
            for cp in cellpairs:
                for wp in wpairs:
                    yield frames_case(seed, (ta, tb), cp, wp, k)
                    k += 1
    t3 = ("wideF", "one", "mid") if q else Y.TOPO_NAMES
    for tt in itertools.product(t3, repeat=3):
        for ct in (("orth", "tri", "tri2"), ("tri", "orth", "tri"), ("tri2", "tri", "orth")):
            for wt in (None, ("equal", "var", "zero"), ("zero", "int", "equal")):
                yield frames_case(seed, tt, ct, wt, k)
                k += 1


def frames_inputs(case, d=3):
    """cells, Cartesian frames, per-frame lists and weights (as written to the files) of a frame-class case"""
    F = len(case["topo"])
    Hs = [cell3(c) for c in case["cells"]]
    frames = [np.array(positions(case["seed"], 5, "cluster", Hs[f], tag=f"fr{f}{case['cells'][f]}")) for f in range(F)]
    nls = [Y.TOPO5[t] for t in case["topo"]]
    wts = None if case["wcl"] is None else [Y.weights_class(nls[f], case["wcl"][f], f) for f in range(F)]
    return Hs, frames, nls, wts


def frames_nmax(case, nls, wts):
    """Nmax of the case: 30, the largest coordination number of the trajectory, or one below it (then the widest frames are cut to their
    first Nmax entries while the narrow ones are not); 'below' falls back to 'tight' where the cut would leave a particle without a
    neighbour or with weights summing to zero (outside the domain)"""
    maxcn = max(len(x) for nl in nls for x in nl)
    if case["nmax"] == "default":
        return 30
    if case["nmax"] == "below" and maxcn >= 2:
        _, w2 = X.truncate(nls, wts, maxcn - 1)
        if w2 is None or all(sum(abs(v) for v in row) > 0 for fr in w2 for row in fr):
            return maxcn - 1
    return maxcn


def frames_sig(case):
    cl = ["orth" if c == "orth" else "tilted" for c in case["cells"]]
    mx = [Y.MAXCN5[t] for t in case["topo"]]
    return {"F": len(case["topo"]), "cells": "same" if len(set(case["cells"])) == 1 else f"{cl[0]}-first", "wfirst": case["wcl"][0] if case["wcl"] else "none",
            "width": "same" if len(set(mx)) == 1 else ("widest-first" if mx[0] == max(mx) else ("narrowest-first" if mx[0] == min(mx) else "mixed")), "nmax": case["nmax"]}


def run_frames(case):
    from PyMatterSim.static.boo import boo_3d

    R = Result()
    l, ppp = case["l"], [1, 1, 1]
    Hs, frames, nls_file, wts_file = frames_inputs(case)
    F = len(frames)
    sig = frames_sig(case)
    if min(screen_margin([fr], H, ppp) for fr, H in zip(frames, Hs)) < 1e-7:
        return R.screen()
    write_neighbor_file("c09_fr_nb.dat", nls_file)
    if wts_file is not None:
        Y.write_weights_tokens("c09_fr_w.dat", wts_file, case["wcl"], "id   cn   facearealist")
    nmax = frames_nmax(case, nls_file, wts_file)
    nls, wts = X.truncate(nls_file, wts_file, nmax)
    steps = [500, 600, 900] if case["uneven"] else [500 + 100 * f for f in range(F)]
    snaps = mk_snaps([f.tolist() for f in frames], np.array(Hs), [1] * 5, steps=steps)
    b = boo_3d(snaps, l, "c09_fr_nb.dat", weightsfile="c09_fr_w.dat" if wts is not None else None, ppp=np.array(ppp), Nmax=nmax)
    ref = [B.ref_qlm(frames[f], Hs[f], ppp, nls[f], l, wts[f] if wts is not None else None) for f in range(F)]
    qs, Qs = np.array([r[0] for r in ref]), np.array([r[1] for r in ref])
    where = f"frames {case['topo']} x cells {case['cells']} x weights {case['wcl']} (Nmax={nmax}, l={l})"
    if b.smallqlm.shape != qs.shape or not close(b.smallqlm, qs):
        bad = "shape" if b.smallqlm.shape != qs.shape else int(np.argwhere(~np.isclose(b.smallqlm, qs, rtol=1e-9, atol=1e-11))[0][0])
        R.fail(f"q_lm of frame {bad} differs from the definition applied to that frame's own cell / neighbour table / weights: {where}",
               sub="C09.weights" if wts is not None else "C09.qlm", sig=dict(sig, clause="qlm"), exp=qs, obs=b.smallqlm)
        return R
    if not close(b.largeQlm, Qs):
        R.fail(f"coarse-grained Q_lm differs by {maxdiff(b.largeQlm, Qs):.3e}: {where}", sub="C09.coarse", sig=dict(sig, clause="Qlm"))
        return R
    el = 2 * qs.size
    popl = 0
    outs = []
    for coarse, ser in ((False, qs), (True, Qs)):
        got = b.ql_Ql(coarse_graining=coarse)
        outs.append(got)
        if got.shape != (F, 5) or not close(got, B.ref_ql(ser, l)):
            R.fail(f"{'Q_l' if coarse else 'q_l'} differs: {where}", sub="C09.ql", sig=dict(sig, clause="ql", coarse=coarse))
        elif np.any(got < 0) or np.any(got > 1 + 1e-12):
            R.fail(f"q_l outside [0, 1]: {where}", sub="C09.bounds", sig=dict(sig, clause="ql_bound", coarse=coarse))
        check_time(R, sig, b.time_corr(coarse_graining=coarse, dt=0.002), ser, steps, 0.002, coarse)
        sref = B.ref_spatial(frames, np.array(Hs), ppp, 0.5, ser, "vector")
        popl = max(popl, check_spatial(R, sig, b.spatial_corr(coarse_graining=coarse, rdelta=0.5), sref, coarse))
        el += got.size + F + 2 * len(sref["r"])
    el += check_sij(R, sig, b, list(qs), nls, False, 0.7, True, nmax)
    el += check_sij(R, sig, b, list(Qs), nls, True, -0.5, False, nmax)
    R.outcome(outs, nd=8)
    R.nontrivial = bool(np.abs(qs).sum() > 1e-6 and popl >= 1)
    R.elem = el
    return R


# ------------------------------------------------------------------------------------------ C09.files (every output-file branch)
FILE_NAMES = ["plain", "plain.npy", "text.dat", "text.txt", "odd.dat.npy"]  # np.save appends .npy unless present; .dat / .txt add a text file


def gen_files(tier, seed):
    q = tier == "quick"
    seqs = [("wideF",), ("one", "wideL"), ("mid", "one", "two")] if q else [(t,) for t in Y.TOPO_NAMES] + [("one", "wideL"), ("wideF", "one"), ("mid", "one", "two"), ("two", "wideL", "one")]
    k = 0
    for topo in seqs:
        for wcl in (None, "var"):
            cells = [FR_CELLS[(f + k) % 3] for f in range(len(topo))]
            for kind, ls in (("ql", (4, 7) if q else LS), ("sij", (4, 7) if q else LS), ("w", (4, 3) if q else (2, 3, 4, 5, 6))):
                for l in ls:
                    c = frames_case(seed, topo, cells, None if wcl is None else [wcl] * len(topo), 0)
                    c.update(l=l, kind=kind, nmax="tight" if k % 2 else "default", uneven=False)
                    yield c
            k += 1


def file_pair(R, sg, name, got, ref, what, sub):
    """files written for ONE returned array `got` (F, N) under `name`: the .npy file holds it bit for bit; a .dat / .txt name additionally
    holds it as F rows x N columns of %.6f; both must also agree with the reference value `ref`"""
    npy = Y.npy_name(name)
    if not os.path.exists(npy):
        R.fail(f"{what}: {npy} was not written for the name {name!r}", sub=sub, sig=dict(sg, clause="file_missing"))
    else:
        back = np.load(npy)
        if back.shape != got.shape or not np.array_equal(back, got, equal_nan=True):
            R.fail(f"{what}: {npy} differs from the returned array", sub=sub, sig=dict(sg, clause="file_npy"), exp=got, obs=back)
    if Y.is_text_name(name) and np.isfinite(got).all():
        txt, prob = Y.fixed6_table(name, got.shape)
        if prob:
            R.fail(f"{what}: {prob}", sub=sub, sig=dict(sg, clause="file_text_layout"))
        elif not (np.allclose(txt, got, rtol=0, atol=0.5000001e-6) and np.allclose(txt, ref, rtol=1e-9, atol=0.50001e-6)):
            R.fail(f"{what}: text file {name} differs from the returned values beyond %.6f (max {maxdiff(txt, got):.3e})", sub=sub,
                   sig=dict(sg, clause="file_text"), exp=got, obs=txt)
    Y.rm(npy, name)
    return got.size * (2 if Y.is_text_name(name) else 1)


def run_files(case):
    from PyMatterSim.static.boo import boo_3d

    R = Result()
    l, ppp, kind = case["l"], [1, 1, 1], case["kind"]
    Hs, frames, nls, wts = frames_inputs(case)
    F = len(frames)
    sig = {"kind": kind, "F": F, "weighted": wts is not None}
    if min(screen_margin([fr], H, ppp) for fr, H in zip(frames, Hs)) < 1e-7:
        return R.screen()
    write_neighbor_file("c09_fl_nb.dat", nls)
    if wts is not None:
        Y.write_weights_tokens("c09_fl_w.dat", wts, case["wcl"], "id   cn   facearealist")
    nmax = frames_nmax(case, nls, wts)
    snaps = mk_snaps([f.tolist() for f in frames], np.array(Hs), [1] * 5, steps=[500 + 100 * f for f in range(F)])
    b = boo_3d(snaps, l, "c09_fl_nb.dat", weightsfile="c09_fl_w.dat" if wts is not None else None, ppp=np.array(ppp), Nmax=nmax)
    ref = [B.ref_qlm(frames[f], Hs[f], ppp, nls[f], l, wts[f] if wts is not None else None) for f in range(F)]
    qs, Qs = np.array([r[0] for r in ref]), np.array([r[1] for r in ref])
    if not (b.smallqlm.shape == qs.shape and close(b.smallqlm, qs) and close(b.largeQlm, Qs)):
        R.fail("q_lm / Q_lm differ from the reference", sub="C09.qlm", sig=dict(sig, clause="qlm"))
        return R
    el = 0
    outs = []
    for coarse, ser in ((False, qs), (True, Qs)):
        sg = dict(sig, coarse=coarse)
        if kind == "ql":
            exp = B.ref_ql(ser, l)
            for nm in [None, ""] + FILE_NAMES:
                name = ("c09_fl_ql_" + nm) if nm else nm
                if name:
                    Y.rm(name, Y.npy_name(name))
                got = b.ql_Ql(coarse_graining=coarse, outputfile=name)
                outs.append(got)
                if got.shape != (F, 5) or not close(got, exp):
                    R.fail(f"ql_Ql(outputfile={name!r}) returns something else than q_l", sub="C09.ql", sig=dict(sg, clause="ql_with_file"), exp=exp, obs=got)
                    continue
                if name:
                    el += file_pair(R, sg, name, got, exp, f"ql_Ql(coarse_graining={coarse})", "C09.files")
        elif kind == "sij":
            for csv in (True, False):
                for files in (True, False):
                    el += check_sij(R, dict(sig, csv=csv, sijfile=files), b, list(ser), nls, coarse, 0.7 if csv == files else -0.5, files, nmax, csv=csv)
            outs.append(B.ref_ql(ser, l))
        else:
            rw, rwc = zip(*[B.ref_w(ser[f], l) for f in range(F)])
            rw, rwc = np.array(rw), np.array(rwc)
            for n1 in [None] + FILE_NAMES:
                for n2 in [None] + FILE_NAMES:
                    a = ("c09_fl_w_" + n1) if n1 else None
                    c = ("c09_fl_wc_" + n2) if n2 else None
                    Y.rm(a, c, Y.npy_name(a) if a else None, Y.npy_name(c) if c else None)
                    w, wc = b.w_W_cap(coarse_graining=coarse, outputw=a, outputwcap=c)
                    outs += [w, wc]
                    if w.shape != (F, 5) or not close(w, rw, rtol=1e-9, atol=1e-12) or not close(wc, rwc, rtol=1e-8, atol=1e-11):
                        R.fail(f"w_W_cap(outputw={a!r}, outputwcap={c!r}) returns something else than w_l / w-hat_l", sub="C09.w", sig=dict(sg, clause="w_with_file"))
                        continue
                    if a:
                        el += file_pair(R, dict(sg, which="w"), a, w, rw, f"w_W_cap(outputw) coarse={coarse}", "C09.files")
                    if c:
                        el += file_pair(R, dict(sg, which="wcap"), c, wc, rwc, f"w_W_cap(outputwcap) coarse={coarse}", "C09.files")
    R.outcome(outs, nd=8)
    R.nontrivial = bool(np.abs(qs).sum() > 1e-6)
    R.elem = max(el, 1)
    return R


# ------------------------------------------------------------------------------------------ C09.types (L5 storage / argument forms, L4 geometry)
FACE3 = [[0.0, 0.0, 0.0], [6.0, 1.0, 2.0], [1.5, 7.0, 0.0], [2.0, 2.0, 8.0], [3.5, 0.0, 5.0]]  # a particle at the origin, on the upper x / y / z faces, on the y = 0 face
TYPE_FORMS = ["base", "ppp_list", "ppp_tuple", "ppp_bool", "ppp_int32", "pos_f32", "pos_fortran", "pos_strided", "l_npint", "nmax_npint", "face",
              "unwrapped", "dilate-33", "dilate+27", "zero_opts", "h_fortran", "w_x2^-33", "w_x1e-9", "w_x2^27", "step_2e9"]
WSCALE = {"w_x2^-33": 2.0 ** -33, "w_x1e-9": 1e-9, "w_x2^27": 2.0 ** 27}  # Voronoi face areas in SI units: the normalised weights are scale-free
UNWRAP_N = [[0, 2, -3], [4, 0, 2], [-3, 4, 0], [2, -3, 4], [0, 0, -2]]  # whole cell vectors added to particle i (L7); the second frame uses the negatives
DILATE = {"dilate-33": 2.0 ** -33, "dilate+27": 2.0 ** 27}  # edge ~1e-9 (SI units) / ~1e9: exact powers of two, every bond DIRECTION is unchanged


def gen_types(tier, seed):
    q = tier == "quick"
    for ti, topo in enumerate(Y.TOPO_NAMES):
        for form in TYPE_FORMS:
            for l in (((4, 6, 11) if form.startswith("dilate") else (3, 6, 11)) if q else LS):
                for cell in ("orth", "tri"):
                    masks = ([1, 1, 1], [1, 0, 1]) if form.startswith("ppp") or form in ("base", "unwrapped") else ([1, 1, 1],)
                    for ppp in masks:
                        for wcl in (None, "int" if form == "base" else "var"):
                            if (form == "l_npint" and l > 6) or (form in WSCALE and wcl is None):
                                continue
                            yield {"seed": seed, "topo": [topo, Y.TOPO_NAMES[(ti + 2) % 5]], "cells": [cell, cell], "wcl": None if wcl is None else [wcl, "zero"], "l": l,
                                   "form": form, "ppp": list(ppp), "nmax": "tight" if form == "nmax_npint" else "default", "uneven": False}


def run_types(case):
    from PyMatterSim.static.boo import boo_3d

    R = Result()
    l, ppp, form = case["l"], case["ppp"], case["form"]
    Hs, frames, nls, wts = frames_inputs(case)
    if form == "face":
        frames = [np.array(FACE3, float), np.array(FACE3, float)[::-1].copy()]
    if form in WSCALE:
        wts = [[[x * WSCALE[form] for x in row] for row in fr] for fr in wts]
    F = len(frames)
    sig = {"form": form, "cell": case["cells"][0], "masked": bool(0 in ppp), "weighted": wts is not None}
    if min(screen_margin([fr], H, ppp) for fr, H in zip(frames, Hs)) < 1e-7:
        return R.screen()
    if form == "unwrapped":  # unfolded coordinates (xu yu zu) several cells away along the periodic axes
        frames = [fr + sgn * (np.array(UNWRAP_N) * np.array(ppp)) @ Hs[f] for f, (fr, sgn) in enumerate(zip(frames, (1, -1)))]
    dil = DILATE.get(form, 1.0)
    frames = [fr * dil for fr in frames]
    Hs = [H * dil for H in Hs]
    write_neighbor_file("c09_ty_nb.dat", nls)
    if wts is not None:
        Y.write_weights_tokens("c09_ty_w.dat", wts, case["wcl"], "id   cn   facearealist")
    nmax = frames_nmax(case, nls, wts)
    steps = [2_000_000_500, 2_000_000_600] if form == "step_2e9" else [500, 600]  # L9: timesteps beyond int32 with small increments
    store = {"pos_f32": "f32", "pos_fortran": "fortran", "pos_strided": "strided", "h_fortran": "fortran"}.get(form, "c")
    arrays = [Y.store_positions(f, store) for f in frames]
    keep = [a.copy() for a in arrays]
    snaps = Y.mk_snaps_raw(arrays, Hs, steps, hform="fortran" if form == "h_fortran" else "c")
    pa = {"ppp_list": list(ppp), "ppp_tuple": tuple(ppp), "ppp_bool": np.array(ppp, dtype=bool), "ppp_int32": np.array(ppp, dtype=np.int32)}.get(form, np.array(ppp))
    la = np.int64(l) if form == "l_npint" else l
    na = np.int32(nmax) if form == "nmax_npint" else nmax
    b = boo_3d(snaps, la, "c09_ty_nb.dat", weightsfile="c09_ty_w.dat" if wts is not None else None, ppp=pa, Nmax=na)
    # float32 positions: the reference sees the float32 numbers; the bond differences are formed in float32 by the library (1e-7 relative)
    # float32 positions of magnitude ~10 carry ~1e-6 absolute error; a bond angle error of ~2e-6 is multiplied by l (<= 12) in exp(i l theta) / Y_lm
    rt, at = (1e-4, 1e-4) if form == "pos_f32" else (1e-9, 1e-11)
    ref = [B.ref_qlm(np.asarray(keep[f], float), Hs[f], ppp, nls[f], l, wts[f] if wts is not None else None) for f in range(F)]
    qs, Qs = np.array([r[0] for r in ref]), np.array([r[1] for r in ref])
    where = f"form {form}, frames {case['topo']}, cell {case['cells'][0]}, ppp {ppp}, l={l}"
    if b.smallqlm.shape != qs.shape or not close(b.smallqlm, qs, rt, at) or not close(b.largeQlm, Qs, rt, at):
        R.fail(f"q_lm / Q_lm differ from the reference by {maxdiff(b.smallqlm, qs):.3e} / {maxdiff(b.largeQlm, Qs)}: {where}",
               sub="C09.weights" if wts is not None else "C09.qlm", sig=dict(sig, clause="qlm"))
        return R
    el = 2 * qs.size
    outs = []
    for coarse, ser in ((False, qs), (True, Qs)):
        got = b.ql_Ql(coarse_graining=coarse)
        outs.append(got)
        if got.shape != (F, 5) or not close(got, B.ref_ql(ser, l), rt, at):
            R.fail(f"{'Q_l' if coarse else 'q_l'} differs: {where}", sub="C09.ql", sig=dict(sig, clause="ql", coarse=coarse))
        el += got.size
        if form == "pos_f32":
            continue  # bin / threshold decisions on float32 distances are not demanded
        for dt in ((0.0, 0) if form == "zero_opts" else (0.002,)):  # L8: an explicit zero is a value, not "use the default"
            check_time(R, sig, b.time_corr(coarse_graining=coarse, dt=dt), ser, steps, dt, coarse)
        if dil != 1.0:
            continue  # the pair histogram of a dilated cell belongs to C13 (the reference's edge tolerance is absolute)
        sref = B.ref_spatial([np.asarray(k, float) for k in keep], np.array(Hs), ppp, 0.5, ser, "vector")
        check_spatial(R, sig, b.spatial_corr(coarse_graining=coarse, rdelta=0.5), sref, coarse)
        el += F + 2 * len(sref["r"])
    if form != "pos_f32":
        el += check_sij(R, sig, b, list(qs), nls, False, 0 if form == "zero_opts" else 0.7, False, nmax)
    if (form == "l_npint" or dil != 1.0) and l <= 6:
        e2, _ = check_w(R, sig, b, ((False, list(qs)),), l)
        el += e2
    for a, k0 in zip(arrays, keep):
        if a.dtype != k0.dtype or not np.array_equal(a, k0):
            R.fail(f"the position array was modified: {where}", sub="C09.qlm", sig=dict(sig, clause="input_modified"))
    for s_, H in zip(snaps.snapshots, Hs):
        if not np.array_equal(s_.hmatrix, H) or s_.hmatrix.flags["F_CONTIGUOUS"] != (form == "h_fortran"):
            R.fail(f"the cell matrix of the snapshot was modified: {where}", sub="C09.qlm", sig=dict(sig, clause="hmatrix_modified"), exp=H, obs=s_.hmatrix)
    R.outcome(outs, nd=5 if form == "pos_f32" else 8)
    R.nontrivial = bool(np.abs(qs).sum() > 1e-6)
    R.elem = el
    return R


# ------------------------------------------------------------------------------------------ C09.sequence, part "words" (L6)
# Letters are COMPLETE argument tuples (object + call) chosen so that pairs collide in plausible incomplete memo keys: same l / other
# neighbour file (a0-b0), same neighbour file (name and content) / other configurations (a0-c0), same files / other l (a0-d0), odd l after
# even l for the 3j table (a3-e3), same file NAME / other content (s0-s1), weighted / unweighted on the same files (a0-w0), a 2D object
# before / after a 3D one on the same neighbour file (a0-p0), and several calls on ONE object (a0 a1 a2 a3; p0 p1).  Objects with an
# "obj" key are built once per word and stay alive (two objects alive at once); the s-letters always build a new object.
WORD_LETTERS = [
    {"id": "a0", "obj": "A4", "d": 3, "l": 4, "pos": "P", "topo": "T", "w": None, "call": ["ql", False]},
    {"id": "a1", "obj": "A4", "d": 3, "l": 4, "pos": "P", "topo": "T", "w": None, "call": ["ql", True]},
    {"id": "a2", "obj": "A4", "d": 3, "l": 4, "pos": "P", "topo": "T", "w": None, "call": ["sij", False, 0.7]},
    {"id": "a3", "obj": "A4", "d": 3, "l": 4, "pos": "P", "topo": "T", "w": None, "call": ["w", False]},
    {"id": "b0", "obj": "B4", "d": 3, "l": 4, "pos": "P", "topo": "U", "w": None, "call": ["ql", False]},
    {"id": "c0", "obj": "C4", "d": 3, "l": 4, "pos": "R", "topo": "T", "w": None, "call": ["ql", False]},
    {"id": "d0", "obj": "A6", "d": 3, "l": 6, "pos": "P", "topo": "T", "w": None, "call": ["ql", False]},
    {"id": "e3", "obj": "A3", "d": 3, "l": 3, "pos": "P", "topo": "T", "w": None, "call": ["w", False]},
    {"id": "s0", "obj": None, "d": 3, "l": 4, "pos": "P", "topo": "T", "w": None, "call": ["sij", True, 0.3], "shared": True},
    {"id": "s1", "obj": None, "d": 3, "l": 4, "pos": "P", "topo": "U", "w": None, "call": ["sij", True, 0.3], "shared": True},
    {"id": "w0", "obj": "W4", "d": 3, "l": 4, "pos": "P", "topo": "T", "w": "var", "call": ["ql", False]},
    {"id": "p0", "obj": "P4", "d": 2, "l": 4, "pos": "P", "topo": "T", "w": None, "call": ["ta", "0.4", True]},
    {"id": "p1", "obj": "P4", "d": 2, "l": 4, "pos": "P", "topo": "T", "w": None, "call": ["ta", "0.4", False]},
    {"id": "p2", "obj": None, "d": 2, "l": 4, "pos": "P", "topo": "U", "w": None, "call": ["ta", "0.4", True], "shared": True},
]
WORD_TRIPLES_QUICK = [["a0", "a1", "a0"], ["a3", "e3", "a3"], ["a0", "d0", "a0"], ["s0", "s1", "s0"], ["p0", "a0", "p1"], ["p2", "s0", "p2"], ["a0", "b0", "a2"], ["w0", "a0", "w0"]]
WORD_TOPO = {"T": [0, 1, 2], "U": [1, 2, 0]}  # per-frame indices into SEQ_TOPO


def word_inputs(seed, lt):
    """cells, frames (3 frames of 6 particles), lists and weights of a letter; the 2D letters use the xy sub-cell"""
    d = lt["d"]
    if d == 3:
        H = cell3("tri")
        Hc = [np.diag(np.diag(H)) + (H - np.diag(np.diag(H))) * f for f in (1.0, -1.0, 0.0)]  # tilted, tilted the other way, orthogonal
    else:
        Hc = [A.hmat_tri([6.0, 7.0], [t]) for t in (1.5, -1.5, 0.0)]
    frames = [np.array(A.generic_points(seed, 6, d, tag=f"c09wd{lt['pos']}{d}f{f}_")) for f in range(3)]
    frames = [(((fr - 0.5) * 0.45) % 1.0) @ Hc[f] for f, fr in enumerate(frames)]
    nls = [SEQ_TOPO[k] for k in WORD_TOPO[lt["topo"]]]
    wts = None if lt["w"] is None else [Y.weights_class(nls[f], lt["w"], f, signed=(d == 2)) for f in range(3)]
    return Hc, frames, nls, wts


def word_build(seed, lt, prefix):
    from PyMatterSim.static.boo import boo_2d, boo_3d

    Hc, frames, nls, wts = word_inputs(seed, lt)
    nf = f"{prefix}_shared_nb.dat" if lt.get("shared") else f"{prefix}_{lt['topo']}_nb.dat"
    write_neighbor_file(nf, nls)
    wf = None
    if wts is not None:
        wf = f"{prefix}_{lt['topo']}{lt['w']}_w.dat"
        Y.write_weights_tokens(wf, wts, [lt["w"]] * 3, "id   cn   facearealist" if lt["d"] == 3 else "id   cn   edgelengthlist")
    snaps = mk_snaps([f.tolist() for f in frames], np.array(Hc), [1] * 6, steps=[500, 600, 700])
    if lt["d"] == 3:
        return boo_3d(snaps, lt["l"], nf, weightsfile=wf, ppp=np.array([1, 1, 1]), Nmax=6)
    return boo_2d(snaps, lt["l"], nf, weightsfile=wf or "", ppp=np.array([1, 1]), Nmax=6)


def word_call(b, lt, prefix):
    import pandas as pd

    c = lt["call"]
    if c[0] == "ql":
        return [b.smallqlm, b.ql_Ql(coarse_graining=c[1])]
    if c[0] == "sij":
        csvf = f"{prefix}_cnt.csv"
        ret = b.sij_ql_Ql(coarse_graining=c[1], c=c[2], outputqlQl=csvf)
        tab = pd.read_csv(csvf).values.astype(float)
        os.remove(csvf)
        return [np.asarray(x, float) for x in ret] + [tab]
    if c[0] == "w":
        return list(b.w_W_cap(coarse_graining=c[1]))
    if c[0] == "ta":
        avg, ids = b.time_average(time_period=float(c[1]), dt=0.002, average_complex=c[2])
        return [b.ParticlePhi, np.asarray(avg), np.asarray(ids, float)]
    if c[0] == "sp":
        return [b.spatial_corr(rdelta=c[1]).values.astype(float)]
    if c[0] == "tc":
        return [b.time_corr(dt=c[1]).values.astype(float)]
    raise ValueError(c)


def words_child(case, letters, prefix):
    objs = {}
    out = []
    for k in case["word"]:
        lt = letters[k]
        if lt["obj"] is None:
            b = word_build(case["seed"], lt, prefix)
        else:
            if lt["obj"] not in objs:
                objs[lt["obj"]] = word_build(case["seed"], lt, prefix)
            b = objs[lt["obj"]]
        out.append([Y.arr_json(x) for x in word_call(b, lt, prefix)])
    return out


def _c09_words_child(case):
    return words_child(case, WORD_LETTERS, "c09_wd")


def gen_words(tier, seed, letters=WORD_LETTERS, triples=WORD_TRIPLES_QUICK):
    n = len(letters)
    ids = [lt["id"] for lt in letters]
    for Lw in (1, 2) if tier == "quick" else (1, 2, 3):
        for word in itertools.product(range(n), repeat=Lw):
            yield {"part": "words", "word": list(word), "seed": seed}
    if tier == "quick":
        for t in triples:
            yield {"part": "words", "word": [ids.index(x) for x in t], "seed": seed}


_WORD_FRESH = {}


def run_words(case, letters=WORD_LETTERS, child=None, sub="C09.sequence", cache=_WORD_FRESH, refcheck=None):
    """every call of the word returns bit for bit what the same call returns when made FIRST in a fresh child process (re-imported library)"""
    from mc.ref import c03x as X3

    child = child or _c09_words_child
    R = Result()
    seed = case["seed"]
    names = [letters[k]["id"] for k in case["word"]]
    payload = X3.fresh_child(child, case, Y.LIB_MODS)
    if "err" in payload:
        R.fail(f"call word {names} raised {payload['err']}", sub=sub, sig={"part": "words", "exception": True})
        return R
    for k in set(case["word"]):
        if (seed, k) not in cache:
            one = X3.fresh_child(child, {"seed": seed, "word": [k]}, Y.LIB_MODS)
            if "err" in one:
                R.fail(f"single call {letters[k]['id']} raised {one['err']}", sub=sub, sig={"part": "words", "exception": True})
                return R
            cache[(seed, k)] = one["ok"][0]
    for pos_, (k, got) in enumerate(zip(case["word"], payload["ok"])):
        lt = letters[k]
        if not Y.json_equal(got, cache[(seed, k)]):
            prev = [letters[j] for j in case["word"][:pos_]]
            feats = sorted({f for p in prev for f in ("d", "l", "pos", "topo", "w", "obj") if p[f] != lt[f]}) if prev else []
            R.fail(f"call #{pos_ + 1} ({lt['id']}: d={lt['d']} l={lt['l']} files {lt['pos']}/{lt['topo']}/{lt['w']} call {lt['call']}) of the word {names} differs from the "
                   f"same call made first in a fresh process", sub=sub,
                   sig={"part": "words", "call": lt["call"][0], "d": lt["d"], "position": "later" if pos_ else "first", "differs_in": feats},
                   exp=Y.json_arr(cache[(seed, k)][-1]), obs=Y.json_arr(got[-1]) if got else None)
            break
    if len(case["word"]) == 1 and refcheck is not None:
        refcheck(R, seed, letters[case["word"][0]], [Y.json_arr(x) for x in payload["ok"][0]])
    R.outcome(payload["ok"], nd=9)
    R.states = len(case["word"]) + 1
    R.transitions = len(case["word"])
    R.elem = sum(int(np.prod(x["shape"])) for g in payload["ok"] for x in g)
    R.nontrivial = True
    return R


def word_refcheck(R, seed, lt, got, sub="C09.sequence"):
    """the single call made first in a fresh process equals the definition (ties the word oracle to the reference model)"""
    Hc, frames, nls, wts = word_inputs(seed, lt)
    ppp = [1] * lt["d"]
    if min(screen_margin([fr], H, ppp) for fr, H in zip(frames, Hc)) < 1e-7:
        return
    if lt["d"] == 3 and lt["call"][0] == "ql":
        ref = [B.ref_qlm(frames[f], Hc[f], ppp, nls[f], lt["l"], wts[f] if wts is not None else None) for f in range(3)]
        q = np.array([r[0] for r in ref])
        ser = np.array([r[1] for r in ref]) if lt["call"][1] else q
        if not (close(got[0], q) and close(got[1], B.ref_ql(ser, lt["l"]))):
            R.fail(f"letter {lt['id']} made first in a fresh process differs from the definition", sub=sub, sig={"part": "words", "clause": "reference"})
    if lt["d"] == 2 and lt["call"][0] == "ta":
        psi = np.array([B.ref_psi(frames[f], Hc[f], ppp, nls[f], lt["l"], wts[f] if wts is not None else None) for f in range(3)])
        if not close(got[0], psi):
            R.fail(f"letter {lt['id']} made first in a fresh process differs from the definition", sub=sub, sig={"part": "words", "clause": "reference"})


# ------------------------------------------------------------------------------------------
def subs(tier, seed):
    q = tier == "quick"
    return [
        Sub("C09.topology", gen_topology, run_topology,
            rule="every way to give each of N particles a non-empty neighbour list (N=3: 27 topologies in every list order; N=4: "
                 + ("all 2401 at l=6 + a 25-topology core x l=2..12 x weights x list orders" if q else "all 2401 x l=2..12 x {none,equal,two-valued} weights (cell orth/tri by parity); "
                    "all list orders at l=5,6")
                 + ") x l=2..12 x weights {none, all equal, two-valued} x {orthogonal, triclinic} x {generic, axis-aligned/wrapped bonds}; all "
                 "7 non-trivial masks, second triclinic cell, Nmax = max cn, three-valued weights on N=3; compared per case: q_lm, Q_lm, q_l, Q_l, s_ij/S_ij "
                 "(all bonds, padding, csv count at c in {0.7,0,-0.5}, text file), bounds, equal-weights == unweighted; non-trivial = q_lm != 0",
            bounds={"N": [3, 4], "l": [2, 12], "topologies_N4": 2401}),
        Sub("C09.w", gen_w, run_w,
            rule="w_l / w-hat_l (local and coarse-grained) vs exact-rational Racah 3j contraction: all 27 N=3 topologies x l in {4,6} x weights x "
                 "2 geometries; N=4 " + ("65-topology core" if q else "all 2401 topologies") + " x l in {4,6}; every other l in 2..12 on a core "
                 "(5 N=3 topologies x 2 + " + ("5" if q else "65") + " N=4 topologies); output files at N=3,l=6",
            bounds={"l_full": [4, 6], "l_core": [2, 12]}),
        Sub("C09.history", gen_history, run_history,
            rule="explicit-state BFS over frame histories (depth <= " + ("3" if q else "4; 3 for the uneven alphabet unless l=6") + "): each appended frame picks (configuration, neighbour topology, "
                 "timestep increment) from a 4-5 letter alphabet; per state a fresh boo_3d on fresh files; q_lm/Q_lm per frame, time_corr (linear "
                 "and log spacing, F=1), spatial_corr (frame mean), s_ij per frame, for local and coarse-grained vectors; l in "
                 + ("{4,7}" if q else "{2,4,6,7,12}") + " x {orth,tri} x weights x 2 alphabets (mask 101 in one); non-trivial = >= 2 populated gA bins",
            bounds={"depth": 3 if q else 4, "letters": 5}),
        Sub("C09.sources", gen_sources, run_sources,
            rule="neighbour (and face-area weight) files written by the library's own N-nearest (N=1,3,5), cutoff and Voronoi routines (N-nearest/cutoff: all 6-, 7-, 8-subsets "
                 "of a jittered 2x2x2 lattice; Voronoi: 2x2x2, 3x3x3 and 3x3x3 with every single vacancy; two frames, orth/tri), parsed by an independent reader; q_lm, Q_lm, q_l, s_ij vs reference; l in "
                 + ("{4,6}" if q else "{2,3,4,6,9,10,11}") + "; cases where a particle has no neighbour are screened"),
        Sub("C09.crystals", gen_crystals, run_crystals,
            rule="13-atom fcc/hcp/bcc(8)/bcc(14)/sc/icosahedron clusters (as given and rotated, shell atoms with and without shell lists) and periodic "
                 "supercells (27-54 atoms, shifted across the boundary): q4,q6,w-hat4,w-hat6 of the central/every atom vs the tabulated values (1e-5) and "
                 "the reference; periodic: Q_l = q_l, all s_ij = 1" + ("" if q else "; other l = 2..12 vs reference"),
            bounds={"crystals": 6}),
        Sub("C09.scale", gen_scale, run_scale,
            rule="SIZE slice (enumerates sizes, ONE fixed value pattern per size and pattern row): N in " + str(SCALE_N[tier]) + " particles x "
                 + str(len([p for p in SCALE_PAT if p.get("tier", tier) == tier])) + " pattern rows = ragged harness lists (cn 1..14, the maximum attained by the first / the last particle only, "
                 "a particle with one neighbour, id 0 as a genuine neighbour, unsorted) and lists / face-area weights written by the library's N-nearest, cutoff and Voronoi routines x "
                 "l in {2,4,6,7,12} x weights per frame x Nmax {= max cn, +1, 30, max cn - 3 (truncation to the first Nmax entries)} x cells {orthogonal with shortest edge y / z, triclinic "
                 "of either tilt sign, tilt factors changing per frame} x partial masks x F in {1,3} (positions, topology, weights, tilts change per frame; even / uneven steps); "
                 "plus F in " + str(SCALE_F[tier]) + " frames of 16 particles; every entry of q_lm, Q_lm, q_l, Q_l, s_ij + thresholded counts (c = 0.7, -0.3), w_l / w-hat_l (l in {4,6} rows), "
                 "spatial_corr, time_corr vs vectorised references (mc/ref/c09x.py); non-trivial = ragged lists and >= 2 populated gA bins",
            bounds={"N": SCALE_N[tier], "F": SCALE_F[tier], "max_cn": 14}),
        Sub("C09.frames", gen_frames, run_frames,
            rule="FRAME CLASSES (anything decided once from frame 0 is visible only when frame 0 is of another class than a later frame): trajectories of 5 particles, F=2: ALL 25 ordered pairs of "
                 "topology classes {largest cn 4 on the first particle only, 4 on the last only, everybody 1, everybody 2, ragged with 3} (the table read from the neighbour AND the weight file shrinks to "
                 "each frame's own largest cn: widest first / narrowest first / equal) x " + ("4" if q else "all 9") + " ordered cell-class pairs {orthogonal, tilted, tilted otherwise} at constant edge lengths "
                 "(orthogonal first then tilted and the reverse) x " + ("{unweighted, equal->varied, varied->equal, varied->zero-containing, zero-containing->varied, integer-token->varied}" if q else
                                                                          "unweighted + all 16 ordered pairs of weight classes {all equal, varied, one exact zero per row, integer tokens '1 2 1'}")
                 + "; F=3: all triples over " + ("3" if q else "5") + " topology classes x 3 cell triples x 3 weight triples; l cycles through 2..12 and Nmax through {30, largest cn, largest cn - 1 (only the widest "
                 "frames are cut)} with the case index; q_lm, Q_lm, q_l, Q_l, s_ij (+ csv count, text file), spatial_corr, time_corr (even / uneven steps) vs the loop references per frame",
            bounds={"N": 5, "F": [2, 3], "topology_classes": 5, "cell_classes": 3, "weight_classes": 4}),
        Sub("C09.files", gen_files, run_files,
            rule="OUTPUT FILES: every output-file branch of ql_Ql, sij_ql_Ql and w_W_cap on " + ("3" if q else "9") + " trajectories (F = 1..3, largest cn changing per frame) x {unweighted, weighted} x l in "
                 + ("{4,7} (w: {4,3})" if q else "2..12 (w: 2..6)") + " x {local, coarse}: ql_Ql(outputfile in {None, '', name, name.npy, name.dat, name.txt, name.dat.npy}); w_W_cap(outputw x outputwcap over the same "
                 "6 x 6 name forms); sij_ql_Ql with {csv, no csv} x {text file, none}: the returned values equal the reference whatever files are requested, <name>[.npy] holds the returned array bit for bit, a "
                 ".dat / .txt name additionally holds F rows x N columns written as %.6f equal to the returned (and reference) values within half a unit of the last digit, the s_ij text file has the header "
                 "'id CN sij', F*N rows '%d %d %.6f..' trimmed to the largest cn of the trajectory, the csv integer columns id,sum_sij,num_neighbors",
            bounds={"name_forms": FILE_NAMES}),
        Sub("C09.types", gen_types, run_types,
            rule="STORAGE / ARGUMENT FORMS: 5 two-frame trajectories (topology classes, second frame with an exact zero weight per row) x forms {reference form, ppp as list / tuple / bool array / int32 array, "
                 "positions as float32 (1e-4) / Fortran-ordered / strided view, cell matrix AND positions Fortran-ordered (both must come back unchanged), l as np.int64 (+ w_W_cap), Nmax as np.int32, particles at the "
                 "origin / exactly on box faces, UNWRAPPED coordinates shifted by whole cell vectors n.H (n in {0,+2,-3,+4,-2} per particle and periodic axis), cell and positions DILATED by 2^-33 / 2^27 (+ w_W_cap; spatial_corr "
                 "left to C13), all weights x 2^-33 / 1e-9 / 2^27 (scale-free), explicit zero options (sij c = 0, time_corr dt = 0.0 / 0), timesteps offset by 2e9} x l in " + ("{3,6,11}" if q else "2..12")
                 + " x {orth, tri} x masks {111, 101 for the ppp forms} x {unweighted, weighted (integer tokens in the reference form)}; q_lm, Q_lm, q_l, Q_l, s_ij, spatial_corr (ppp reaches conditional_gr), "
                 "time_corr vs the loop references; the position arrays must come back unchanged (values, dtype)",
            bounds={"forms": TYPE_FORMS}),
        Sub("C09.sequence", gen_sequence, run_sequence,
            rule="(b) CALL WORDS in forked children with re-imported library modules: all words of length <= " + ("2 (+ 8 triples)" if q else "3") + " over 14 letters = complete (object, call) tuples colliding "
                 "in plausible incomplete cache keys: same l / other neighbour file, same neighbour file / other configurations, same files / other l (4, 6), odd l after even l for the 3j table (w_W_cap l=4, 3), same file "
                 "NAME / other content, weighted / unweighted, a boo_2d object (time_average in both modes) before / after a boo_3d object on the same neighbour file, ql_Ql local / coarse / local and sij / w on ONE object; "
                 "objects stay alive within a word; every call must return bit for bit what it returns when made first in a fresh child, and that first call equals the reference.  "
                 "(a) explicit-state search over call sequences on ONE boo_3d object (6 particles, 3 frames with changing topology / tilts): alphabet of 13 calls = ql_Ql x {local, coarse}, "
                 "sij_ql_Ql x {(local, 0.7), (local, -0.5), (coarse, 0.3)}, spatial_corr x {(local, 0.5), (local, 0.3), (coarse, 0.5)}, time_corr x {(local, dt 0.002), (local, 0.5), "
                 "(coarse, 0.002)}, w_W_cap x {local, coarse}; all 169 ordered pairs" + ("" if q else " and all 1331 triples of the 11 calls without w_W_cap")
                 + " per root; every result must equal the same call on a fresh object, the stored q_lm / Q_lm must stay unchanged, and a second live object (other l, files, "
                 "configurations) must be unaffected",
            bounds={"letters": 13, "depth": 2 if q else 3}),
    ]
