"""C15 - vector-field measures (static/vector.py) obey their documented definitions (E1; E2 for the frame series).

participation_ratio, local_vector_alignment, phase_quotient, divergence_curl, vibrability, vector_decomposition_sq,
vector_fft_corr against literal double-loop transcriptions of docs/vectors.md (mc/ref/hessvec.py).

Round 4 (docs/STRENGTHEN_TASK2.md; helpers in mc/ref/c15y.py):
  C15.forms     L5 storage types of the fields / L7 particles displaced by whole cell vectors / L8 dt = 0 / output-file names (coverage gaps)
  C15.dilation  L9 absolute scale (2^-33, 2^27; fields of norm 2^-40)
  C15.sequence  L6 call words in forked children with re-imported library modules, output files of earlier calls left in place
"""
import itertools
import os

import numpy as np

from mc import alphabets as A
from mc.harness import Result, Sub, digest
from mc.ref import hessvec as HV
from mc.ref import c15x as X
from mc.ref import c15y as Y
from mc.ref import c03x as X3
from mc.ref.base import frac_tie_margin, mk_snap, mk_snaps, write_neighbor_file

ASSUMPTIONS = [
    "neighbour lists come from a file in the library's own format (written by the harness); every particle has at least "
    "one neighbour (the neighbour mean is undefined otherwise)",
    "phase quotient: fields whose neighbour dot products all vanish (0/0) are outside the statement and not executed",
    "Fourier transform FFT(q) = N^-1/2 sum_i u_i exp(-+ i q.r_i), q = 2 pi n / boxlength; either sign convention is accepted "
    "(the statement fixes none; the documentation and the code differ)",
    "documented round(8): per-q values compared at 0.5e-8 (+ float noise); the library projects on q/|q| built from the "
    "ROUNDED q components, so L/T parts are compared at 2e-8 (1 + |FFT| (1 + 1/|q|)) and S = S_L + S_T at 1e-7 (1+|FFT|^2)",
    "group means: wave vectors are grouped by |q| rounded to 8 decimals; cases whose |q| sits within 1e-12 of a rounding "
    "boundary would be screened (none occurs)",
    "time correlation of the transforms: even spacing <=> the set of consecutive timestep differences has one element "
    "(C14); columns whose reference C(0) < 1e-4 (a vanishing L or T part: 0/0) are not compared",
    "vibrability: frequencies are non-zero (the caller passes the dN-d non-zero modes)",
    "float tolerance rtol 1e-9 / atol 1e-11 unless stated",
    "C15.scale enumerates SIZES (64..257 particles, 63..257 wave vectors / modes, 3 / 64 / 65 frames) with one fixed generic value pattern "
    "per size; neighbour lists there are harness-written formula lists (1..4 neighbours, one particle with 70 or 200 = the reader's default "
    "Nmax); coordination numbers never exceed 200 (the documented maximum); argument forms there: column-major fields / eigenvector matrices, "
    "non-contiguous field views, int32 wave vectors (utils.wavevector's dtype), ppp given as a list",
    "round 4 (C15.forms, C15.sequence): fields are REAL (the documentation speaks of eigenvector and velocity fields; for a complex field the library's PR uses e*e, "
    "not |e|^2, and divergence_curl raises - resolved towards the implementation); a real field may be stored as float32 / int64 / int32 / int8 (values small enough "
    "not to overflow their own products) - float32 storage only has to give float32 accuracy (2e-6 relative), integer storage the exact result; zero vectors on some "
    "particles, zero eigenvector components and fields vanishing on whole frames' sub-blocks are inside the domain (they were in the alphabets from the start: {-1,0,1}^(N d)); "
    "an all-zero field / q = 0 / a zero frequency are not (0/0)",
    "L7: positions that differ by whole cell vectors along periodic axes describe the same configuration (unfolded xu yu zu dump columns): divergence / curl must not "
    "change (1e-9 of the scale), the Fourier transform for q = 2 pi m / L neither (compared at the documented round(8))",
    "vector_decomposition_sq(outputfile=name): the group table is written to `name` if it ends in '.csv', else to name + '.csv' ('filename.csv' in the docstring); "
    "vector_fft_corr(outputfile='') (the default): no file is demanded, only the returned tables are compared; dt = 0 is a legal time step (all times 0)",
    "C15.sequence: every call must return / write what the same call does when made first in a fresh process, whatever ran before and whatever files earlier calls "
    "left under the same names",
    "L9 (C15.dilation): divergence / curl of (s r, s H, s u) = s^2 x those of (r, H, u); PR and phase quotient of t u = those of u, alignment of t u = t^2 x alignment, for "
    "t = 2^-40 (norms ~1e-12): a field is not 'zero' because it is small in absolute terms; the Fourier-space routines round to 8 decimals (documented) and are therefore "
    "only examined at the ordinary scale",
    "vector_fft_corr: the cell is the same in every frame (the routine adds the per-frame |q|-group tables index by index and labels the "
    "wave vectors with the cell of frame 0, so a varying cell has no documented meaning); positions and fields differ in every frame",
]


# ------------------------------------------------------------------------------------------ field alphabets
def fields_all(n, d):
    """{-1,0,1}^(n d) minus the zero field, simplest (fewest non-zeros) first"""
    fs = [f for f in itertools.product((0, 1, -1), repeat=n * d) if any(f)]
    fs.sort(key=lambda f: sum(1 for x in f if x))
    return fs


CORE3 = [(1, 0, 0), (0, -1, 0), (1, 1, 1), (0, 0, 0), (1, -1, 0)]
CORE2 = [(1, 0), (0, -1), (1, 1), (0, 0), (-1, 1)]


def fields_core(n, d):
    core = CORE3 if d == 3 else CORE2
    out = []
    for combo in itertools.product(core, repeat=n):
        f = tuple(x for v in combo for x in v)
        if any(f):
            out.append(f)
    return out


def field_list(kind, n, d):
    return fields_all(n, d) if kind == "all" else fields_core(n, d)


def special_fields(n, d):
    """uniform, single-site, alternating"""
    out = [tuple([1] * (n * d)), tuple([1] + [0] * (n * d - 1)), tuple(x for i in range(n) for x in ([1 if i % 2 == 0 else -1] + [0] * (d - 1)))]
    out.append(tuple(x for i in range(n) for x in ([0] * (d - 1) + [1 if i == n - 1 else 0])))
    return out


def box_for(d, kind="rect"):
    return {"rect": [6.0, 7.5, 9.0], "cube": [6.0, 6.0, 6.0]}[kind][:d]


def positions(seed, n, d, L, tag):
    g = np.array(A.generic_points(seed, n, d, tag=f"c15{tag}{n}{d}_"))
    return (g * np.array(L)).tolist()


def topo_core(n, k):
    """k topologies spread evenly over the full enumeration"""
    allt = list(A.topologies(n))
    step = max(1, len(allt) // k)
    return allt[::step][:k]


# ================================================================================================= C15.pr
def gen_pr(tier, seed):
    plan = [(3, 2, "all"), (2, 3, "all"), (3, 3, "core"), (1, 2, "all"), (1, 3, "all"), (2, 2, "all")]
    if tier == "thorough":
        plan += [(4, 2, "all"), (3, 3, "all"), (4, 3, "core")]
    for (n, d, kind) in plan:
        for f in field_list(kind, n, d):
            for mag in ("unit", "graded"):
                if mag == "graded" and n == 1:
                    continue
                yield {"n": n, "d": d, "field": list(f), "mag": mag}
    for n in (2, 5, 6):
        for d in (2, 3):
            for f in special_fields(n, d):
                yield {"n": n, "d": d, "field": list(f), "mag": "unit"}


GRADE = [0.5, 1.0, 3.0, 0.75]


def build_field(case):
    v = np.array(case["field"], float).reshape(case["n"], case["d"])
    if case.get("mag") == "graded":
        v = v * np.array(GRADE[: case["n"]])[:, None]
    return v


def run_pr(case):
    from PyMatterSim.static.vector import participation_ratio

    R = Result()
    v = build_field(case)
    n, d = v.shape
    sg = {"d": d, "mag": case["mag"]}
    v0 = v.copy()
    got = participation_ratio(v)
    exp = HV.ref_pr(v)
    if not np.isfinite(got) or abs(got - exp) > 1e-12:
        R.fail(f"PR = {got!r}, (sum|e|^2)^2/(N sum|e|^4) = {exp!r}", sig=dict(sg, clause="formula"), exp=exp, obs=got)
    if not (1.0 / n - 1e-12 <= got <= 1.0 + 1e-12):
        R.fail(f"PR = {got!r} outside [1/N, 1], N = {n}", sig=dict(sg, clause="range"))
    for s in (2.0, 0.5, -1.0):
        g2 = participation_ratio(s * v)
        if g2 != got:
            R.fail(f"PR({s} e) = {g2!r} != PR(e) = {got!r} (exact for powers of two)", sig=dict(sg, clause="scale_exact"))
    for s in (3.0, 1e-3, 1e4):
        g2 = participation_ratio(s * v)
        if abs(g2 - got) > 1e-12:
            R.fail(f"PR({s} e) = {g2!r} != PR(e) = {got!r}", sig=dict(sg, clause="scale"))
    nz = int((np.abs(v).sum(axis=1) > 0).sum())
    if len({float((r * r).sum()) for r in v if (r * r).sum() > 0}) == 1 and abs(got - nz / n) > 1e-12:
        R.fail(f"equal-norm field on {nz} of {n} sites: PR = {got!r}, expected {nz}/{n}", sig=dict(sg, clause="localised"))
    if not np.array_equal(v, v0):
        R.fail("input modified", sig=dict(sg, clause="input_modified"))
    R.outcome(float(got))
    R.nontrivial = n > 1
    R.elem = 8
    return R


# ================================================================================== C15.alignment / C15.pq
def gen_neigh(tier, seed):
    # (n, d, field kind, number of blocks, topologies)
    plan = [(3, 2, "all", 8, "alltopo"), (3, 3, "core", 1, "alltopo"), (2, 2, "all", 1, "alltopo"), (2, 3, "all", 4, "alltopo")]
    if tier == "thorough":
        plan += [(4, 2, "core", 1, "alltopo"), (4, 2, "all", 8, "core"), (3, 3, "all", 16, "alltopo"), (4, 3, "core", 1, "core")]
    for (n, d, kind, B, tk) in plan:
        tops = list(A.topologies(n)) if tk == "alltopo" else topo_core(n, 16)
        for nl in tops:
            for order in (("asc", "desc") if n < 4 else ("asc",)):
                nlo = [list(reversed(x)) if order == "desc" else list(x) for x in nl]
                for b in range(B):
                    yield {"n": n, "d": d, "kind": kind, "B": B, "b": b, "nl": nlo, "order": order}


def _block(case):
    fs = field_list(case["kind"], case["n"], case["d"])
    return [np.array(f, float).reshape(case["n"], case["d"]) for f in fs[case["b"] :: case["B"]]]


def run_alignment(case):
    from PyMatterSim.static.vector import local_vector_alignment

    R = Result()
    nl = case["nl"]
    sg = {"d": case["d"], "n": case["n"], "order": case["order"]}
    write_neighbor_file("nl_align.dat", [nl])
    outs = []
    cnt = 0
    for v in _block(case):
        v0 = v.copy()
        got = np.asarray(local_vector_alignment(v, "nl_align.dat"))
        exp = HV.ref_alignment(v, nl)
        cnt += len(exp)
        if got.shape != exp.shape or not np.allclose(got, exp, rtol=1e-9, atol=1e-11):
            R.fail("alignment != mean neighbour dot product", sig=dict(sg, clause="alignment"), exp=exp, obs={"field": v, "got": got})
            break
        if not np.array_equal(v, v0):
            R.fail("input modified", sig=dict(sg, clause="input_modified"))
        outs.append(got)
    os.remove("nl_align.dat")
    R.outcome(np.array(outs))
    R.nontrivial = any(np.abs(o).max() > 0 for o in outs)
    R.elem = cnt
    return R


def run_pq(case):
    from PyMatterSim.static.vector import phase_quotient

    R = Result()
    nl = case["nl"]
    sg = {"d": case["d"], "n": case["n"], "order": case["order"]}
    write_neighbor_file("nl_pq.dat", [nl])
    outs = []
    for v in _block(case):
        num, den = HV.ref_pq(v, nl)
        if den == 0:
            continue  # 0/0: not in the statement's domain
        got = float(phase_quotient(v, "nl_pq.dat"))
        if not np.isfinite(got) or abs(got - num / den) > 1e-12:
            R.fail(f"PQ = {got!r}, sum dots / sum |dots| = {num / den!r}", sig=dict(sg, clause="pq"), exp=num / den, obs={"field": v, "got": got})
            break
        if not -1.0 - 1e-12 <= got <= 1.0 + 1e-12:
            R.fail(f"PQ = {got!r} outside [-1, 1]", sig=dict(sg, clause="pq_range"))
            break
        outs.append(got)
    os.remove("nl_pq.dat")
    R.outcome(np.array(outs))
    R.nontrivial = len(set(np.round(outs, 9))) > 1 if outs else False
    R.elem = len(outs)
    return R


# ============================================================================================ C15.divcurl
LIN = {
    2: {"identity": [[1, 0], [0, 1]], "antisym": [[0, -1.5], [1.5, 0]], "shear": [[0, 0.8], [0, 0]], "generic": [[0.5, -1.0], [2.0, 0.25]]},
    3: {"identity": [[1, 0, 0], [0, 1, 0], [0, 0, 1]], "antisym": [[0, -0.5, 1.0], [0.5, 0, -1.5], [-1.0, 1.5, 0]],
        "shear": [[0, 0.8, 0], [0, 0, 0], [0, 0, 0]], "generic": [[0.5, -1.0, 0.25], [2.0, 0.25, -0.5], [1.0, 0.75, -1.5]]},
}


def cell15(d, cell):
    L = box_for(d)
    return A.hmat_tri(L, ([0.0] if d == 2 else [0.0, 0.0, 0.0]) if cell == "orth" else ([1.5] if d == 2 else [1.5, -1.0, 2.0]))


def gen_divcurl(tier, seed):
    plan = [(3, 2, "alltopo", None), (3, 3, "alltopo", None), (2, 2, "alltopo", None), (2, 3, "alltopo", None)]
    if tier == "thorough":
        plan += [(4, 2, "alltopo", 1), (4, 3, "alltopo", 1)]
    for (n, d, tk, maxdev) in plan:
        ms = A.masks(d)
        ms = [ms[-1]] + ms[:-1]  # default: open boundaries (closed forms), then the periodic masks
        for cell in ("orth", "tri"):
            H = cell15(d, cell)
            g = np.array(A.generic_points(seed, n, d, tag=f"c15dc{n}{d}_"))
            pos = (g @ H).tolist()
            for mask in ms:
                for order in ("asc", "desc"):
                    dev = (cell != "orth") + (mask != ms[0]) + (order != "asc")
                    if maxdev is not None and dev > maxdev:
                        continue
                    for nl in A.topologies(n):
                        nlo = [list(reversed(x)) if order == "desc" else list(x) for x in nl]
                        yield {"n": n, "d": d, "cell": cell, "H": H.tolist(), "pos": pos, "ppp": mask, "nl": nlo, "order": order}


def dc_fields(n, d, pos):
    out = []
    for name, Am in LIN[d].items():
        out.append(("lin_" + name, np.asarray(pos) @ np.array(Am, float).T, Am))
    for k, f in enumerate(special_fields(n, d)):
        out.append((f"special{k}", np.array(f, float).reshape(n, d), None))
    fa = fields_core(n, d)
    for k in (7, len(fa) // 2, len(fa) - 3):
        out.append((f"core{k}", np.array(fa[k % len(fa)], float).reshape(n, d), None))
    return out


def run_divcurl(case):
    from PyMatterSim.static.vector import divergence_curl

    R = Result()
    n, d = case["n"], case["d"]
    H = np.array(case["H"])
    pos = np.array(case["pos"])
    ppp = np.array(case["ppp"])
    nl = case["nl"]
    sg = {"d": d, "cell": case["cell"], "periodic": bool(ppp.any())}
    diffs = np.array([pos[j] - pos[i] for i in range(n) for j in nl[i]])
    if frac_tie_margin(diffs, H, ppp) < 1e-7:
        return R.screen()
    write_neighbor_file("nl_dc.dat", [nl])
    pos_wrapped = pos
    if case.get("unwrap"):
        pos = Y.unwrap(pos, H, ppp)  # L7: whole cell vectors added along the periodic axes
        sg["unwrapped"] = True
    snap = mk_snap(pos, H, [1] * n)
    if case.get("posform") == "F":
        from PyMatterSim.reader.reader_utils import SingleSnapshot

        snap = SingleSnapshot(snap.timestep, snap.nparticle, snap.particle_type, np.asfortranarray(snap.positions), snap.boxlength, snap.boxbounds, snap.realbounds, snap.hmatrix)
        sg["posform"] = "F"
    ppp_in = {"list": ppp.tolist(), "i32": ppp.astype(np.int32), "i8": ppp.astype(np.int8)}.get(case.get("pppform"), ppp)
    udt = case.get("udtype")
    if udt:
        sg["udtype"] = udt
    rt = 2e-6 if udt == "float32" else 1e-9
    outs = []
    for (name, u, Am) in dc_fields(n, d, pos_wrapped):
        if udt:
            u, uref = Y.cast_field(u, udt)
        else:
            uref = u
        u0 = u.copy()
        res = divergence_curl(snap, u, ppp_in, "nl_dc.dat")
        ediv, ecurl = HV.ref_divcurl(pos, H, ppp, uref, nl)
        scale = 1.0 + float(np.abs(uref).max()) * float(np.abs(H).max())
        if rt > 1e-9:
            scale *= 2e5  # float32 field: float32 accuracy of the differences u_j - u_i
        fs = dict(sg, field=name.rstrip("0123456789"))
        if d == 2:
            if isinstance(res, tuple):
                R.fail("2D: a tuple was returned instead of the divergence array", sig=dict(fs, clause="return_2d"))
                break
            gdiv, gcurl = np.asarray(res), None
        else:
            if not (isinstance(res, tuple) and len(res) == 2):
                R.fail("3D: (divergence, curl) expected", sig=dict(fs, clause="return_3d"))
                break
            gdiv, gcurl = np.asarray(res[0]), np.asarray(res[1])
        if gdiv.shape != (n,) or not np.allclose(gdiv, ediv, rtol=rt, atol=1e-11 * scale):
            R.fail("divergence != neighbour mean of R_ij . u_ij", sig=dict(fs, clause="divergence"), exp=ediv, obs=gdiv)
        if d == 3 and (gcurl.shape != (n, 3) or not np.allclose(gcurl, ecurl, rtol=rt, atol=1e-11 * scale)):
            R.fail("curl != neighbour mean of R_ij x u_ij", sig=dict(fs, clause="curl"), exp=ecurl, obs=gcurl)
        if case.get("unwrap"):
            wdiv, wcurl = HV.ref_divcurl(pos_wrapped, H, ppp, uref, nl)
            if not np.allclose(gdiv, wdiv, rtol=max(rt, 1e-8), atol=1e-9 * scale) or (d == 3 and not np.allclose(gcurl, wcurl, rtol=max(rt, 1e-8), atol=1e-9 * scale)):
                R.fail("divergence / curl change when particles are displaced by whole cell vectors along periodic axes", sig=dict(fs, clause="unwrapped"), exp=wdiv, obs=gdiv)
        if Am is not None and not ppp.any() and not udt:
            cdiv, ccurl = HV.linear_closed_form(pos, Am, nl)
            if not np.allclose(gdiv, cdiv, rtol=1e-9, atol=1e-10 * scale):
                R.fail("linear field u = A r: divergence != closed form mean_j r^T A r", sig=dict(fs, clause="divergence_closed"), exp=cdiv, obs=gdiv)
            if d == 3 and not np.allclose(gcurl, ccurl, rtol=1e-9, atol=1e-10 * scale):
                R.fail("linear field u = A r: curl != closed form mean_j r x (A r)", sig=dict(fs, clause="curl_closed"), exp=ccurl, obs=gcurl)
        if not (np.array_equal(u, u0) and np.array_equal(snap.positions, pos)):
            R.fail("input modified", sig=dict(fs, clause="input_modified"))
        outs.append(gdiv if d == 2 else np.column_stack((gdiv, gcurl)))
    os.remove("nl_dc.dat")
    R.outcome(np.array(outs), nd=7)
    R.nontrivial = True
    R.elem = len(outs) * n * (1 if d == 2 else 4)
    return R


# ========================================================================================= C15.vibrability
def bases(nd):
    out = {"identity": np.eye(nd)}
    out["reverse"] = np.eye(nd)[:, ::-1]
    # Householder reflection of a generic vector: a dense orthogonal matrix
    w = np.array([1.0 + 0.5 * k for k in range(nd)])
    out["householder"] = np.eye(nd) - 2.0 * np.outer(w, w) / float(w @ w)
    g = np.array([[((3 * i + 5 * j) % 7) - 3.0 + (0.5 if i == j else 0.0) for j in range(nd)] for i in range(nd)])
    out["nonorthogonal"] = g
    return out


FREQS = [1.0, 2.0, 0.5]


def gen_vib(tier, seed):
    plan = [(2, 2, None), (3, 2, (6, 4, 1)), (2, 3, (6, 3, 2))]
    if tier == "thorough":
        plan = [(2, 2, None), (3, 2, (6, 5, 4, 1)), (2, 3, None), (3, 3, (9, 6))]
    for (n, d, ks) in plan:
        nd = n * d
        for bname in bases(nd):
            for k in range(1, nd + 1):
                if ks is not None and k not in ks:
                    continue
                for cols in itertools.combinations(range(nd), k):
                    if k > 4 and nd > 4:
                        fsets = [tuple(FREQS[(c + s) % 3] for c in range(k)) for s in range(3)]
                    else:
                        fsets = list(itertools.product(FREQS, repeat=k))
                    for fr in fsets:
                        yield {"n": n, "d": d, "basis": bname, "cols": list(cols), "freq": list(fr), "save": (len(cols) + int(fr[0] * 2)) % 5 == 0}


def run_vib(case):
    from PyMatterSim.static.vector import vibrability

    R = Result()
    n, d = case["n"], case["d"]
    V = bases(n * d)[case["basis"]][:, case["cols"]].copy()
    fr = np.array(case["freq"], float)
    sg = {"d": d, "basis": case["basis"], "allmodes": len(case["cols"]) == n * d}
    if case.get("vdtype"):
        V = V.astype(case["vdtype"])  # identity / reversed bases are integral; float32 keeps them exact
        sg["vdtype"] = case["vdtype"]
    if case.get("fdtype"):
        fr = fr.astype(case["fdtype"])
        sg["fdtype"] = case["fdtype"]
    V0, f0 = V.copy(), fr.copy()
    out = "vib_out.npy" if case["save"] else ""
    got = np.asarray(vibrability(fr, V, n, outputfile=out))
    exp = HV.ref_vibrability(fr, V, n)
    f32 = "float32" in (case.get("vdtype"), case.get("fdtype"))  # float32 input: float32 accuracy of the squares is all that can be asked
    if got.shape != (n,) or not np.allclose(got, exp, rtol=2e-6 if f32 else 1e-9, atol=1e-6 if f32 else 1e-12):
        R.fail("vibrability != sum_l |e_{l,i}|^2 / omega_l^2", sig=dict(sg, clause="vibrability"), exp=exp, obs=got)
    if case["save"]:
        if not os.path.exists(out) or not np.array_equal(np.load(out), got):
            R.fail("saved file differs from the returned array", sig=dict(sg, clause="file"))
        if os.path.exists(out):
            os.remove(out)
    if not (np.array_equal(V, V0) and np.array_equal(fr, f0)):
        R.fail("input modified", sig=dict(sg, clause="input_modified"))
    R.outcome(got)
    R.nontrivial = True
    R.elem = n
    return R


# ============================================================================================= C15.decomp
QLISTS = {
    2: {"shells": [[1, 0], [0, 1], [1, 1], [1, -1], [2, 0], [0, 2], [2, 1], [-1, 2]],
        "mixed": [[-1, 0], [0, -3], [3, 4], [5, 0], [-4, 3], [2, -2]]},
    3: {"shells": [[1, 0, 0], [0, 1, 0], [0, 0, 1], [1, 1, 0], [1, 0, -1], [0, 1, 1], [1, 1, 1], [-1, 1, 1], [2, 0, 0]],
        "mixed": [[-1, 0, 0], [2, 1, 2], [3, 0, 0], [0, -2, 1], [1, -2, 0], [2, 2, -1]]},
}


def gen_decomp(tier, seed):
    plan = [(3, 2, "all"), (3, 3, "core"), (2, 2, "all"), (1, 2, "all"), (2, 3, "core")]
    if tier == "thorough":
        plan += [(4, 2, "all"), (3, 3, "all"), (4, 3, "core")]
    for (n, d, kind) in plan:
        big = tier == "thorough" and kind == "all" and n * d >= 8
        for bk in (("cube",) if big else ("cube", "rect")):
            L = box_for(d, bk)
            pos = positions(seed, n, d, L, "dec" + bk)
            for qn in (("shells",) if big else ("shells", "mixed")):
                for k, f in enumerate(field_list(kind, n, d)):
                    yield {"n": n, "d": d, "box": bk, "L": L, "pos": pos, "qname": qn, "field": list(f), "csv": k % 16 == 0}
                for name, Am in LIN[d].items():  # linear fields u = A r (non-integer values)
                    u = (np.array(pos) @ np.array(Am, float).T).reshape(-1).tolist()
                    yield {"n": n, "d": d, "box": bk, "L": L, "pos": pos, "qname": qn, "field": u, "csv": True}


def compare_decomp(R, sg, tab, ave, ref, d, what="decomposition"):
    """tab/ave: library frames; ref: mc.ref.hessvec.ref_decomposition; returns False when the layout is wrong"""
    cols = [f"q{i}" for i in range(d)] + ["q", "Sq"] + [f"FFT{i}" for i in range(d)] + [f"T_FFT{i}" for i in range(d)] + ["Sq_T"] \
        + [f"L_FFT{i}" for i in range(d)] + ["Sq_L"]
    if sorted(tab.columns) != sorted(cols) or len(tab) != len(ref["qn"]):
        R.fail(f"columns {list(tab.columns)} x {len(tab)} rows; expected {cols} x {len(ref['qn'])}", sig=dict(sg, clause="columns"))
        return None
    q = tab[[f"q{i}" for i in range(d)]].values.astype(float)
    F = tab[[f"FFT{i}" for i in range(d)]].values.astype(complex)
    FT = tab[[f"T_FFT{i}" for i in range(d)]].values.astype(complex)
    FL = tab[[f"L_FFT{i}" for i in range(d)]].values.astype(complex)
    S, ST, SL = (tab[c].values.astype(float) for c in ("Sq", "Sq_T", "Sq_L"))
    qn = tab["q"].values.astype(float)
    Fm = float(np.abs(ref["F"]).max())
    qmin = float(ref["qn"].min())
    t0 = 0.5e-8 + 1e-11
    tLT = 2e-8 * (1.0 + Fm * (1.0 + 1.0 / qmin))
    tS = 1e-7 * (1.0 + Fm * Fm)

    def bad(a, b, tol):
        return a.shape != b.shape or not np.isfinite(a).all() or np.abs(a - b).max() > tol

    # ---- equality with the reference transforms.  The statement does not fix the sign convention of the transform
    # (docs/vectors.md writes exp(+iq.r), the code uses exp(-iq.r)); for a real field they are complex conjugates.
    if bad(F, ref["F"], 1.5 * t0) and not bad(F, np.conj(ref["F"]), 1.5 * t0):
        ref = dict(ref, F=np.conj(ref["F"]), FL=np.conj(ref["FL"]), FT=np.conj(ref["FT"]))
    if bad(q, ref["q"], t0) or bad(qn, ref["qn"], t0):
        R.fail("wave vectors != 2 pi n / L", sig=dict(sg, clause="qvectors"))
    if bad(F, ref["F"], 1.5 * t0):
        R.fail("FFT != N^-1/2 sum_i u_i exp(-i q.r_i)", sig=dict(sg, clause="fft"), exp=ref["F"], obs=F)
    if bad(S, ref["S"], t0 * (1 + 2 * Fm)):
        R.fail("Sq != |FFT|^2", sig=dict(sg, clause="sq"), exp=ref["S"], obs=S)
    if bad(FL, ref["FL"], tLT):
        R.fail("L_FFT != qhat (qhat . FFT)", sig=dict(sg, clause="L_value"), exp=ref["FL"], obs=FL)
    if bad(FT, ref["FT"], tLT):
        R.fail("T_FFT != FFT - qhat (qhat . FFT)", sig=dict(sg, clause="T_value"), exp=ref["FT"], obs=FT)
    if bad(SL, ref["SL"], tS) or bad(ST, ref["ST"], tS):
        R.fail("Sq_L / Sq_T != |L_FFT|^2 / |T_FFT|^2", sig=dict(sg, clause="SL_ST_value"), exp=[ref["SL"], ref["ST"]], obs=[SL, ST])
    # ---- the identities of the statement, on the library's own output
    qq = ref["q"]
    if d == 2:
        cross = np.abs(FL[:, 0] * qq[:, 1] - FL[:, 1] * qq[:, 0])
    else:
        cross = np.abs(np.cross(FL, qq.astype(complex))).max(axis=1)
    if (cross > tLT * ref["qn"] * 2).any():
        R.fail("longitudinal part is not parallel to q", sig=dict(sg, clause="L_parallel"), obs=cross)
    dot = np.abs((FT * qq).sum(axis=1))
    if (dot > tLT * ref["qn"] * 2 * d).any():
        R.fail("transverse part is not orthogonal to q", sig=dict(sg, clause="T_orthogonal"), obs=dot)
    if np.abs(FL + FT - F).max() > 2.2e-8:
        R.fail("L_FFT + T_FFT != FFT", sig=dict(sg, clause="L_plus_T"), obs=np.abs(FL + FT - F).max())
    if np.abs(S - SL - ST).max() > tS:
        R.fail("Sq != Sq_L + Sq_T", sig=dict(sg, clause="pythagoras"), obs=np.abs(S - SL - ST).max())
    if (ST < -1e-9).any() or (SL < -1e-9).any():
        R.fail("negative spectrum", sig=dict(sg, clause="nonneg"))
    # ---- group means over equal |q| (keys = |q| rounded to 8 decimals)
    keys = np.round(ref["qn"], 8)
    gk, gm = HV.group_means(keys, [S, ST, SL])
    if list(ave.columns) != ["q", "Sq", "Sq_T", "Sq_L"] or len(ave) != len(gk):
        R.fail(f"group table {list(ave.columns)} x {len(ave)}; expected [q,Sq,Sq_T,Sq_L] x {len(gk)}", sig=dict(sg, clause="groups"))
    else:
        av = ave.values.astype(float)
        if np.abs(av[:, 0] - gk).max() > t0 or np.abs(av[:, 1:] - gm).max() > 1e-8:
            R.fail("group means over equal |q| differ", sig=dict(sg, clause="group_means"), exp=gm, obs=av)
    return {"F": F, "FT": FT, "FL": FL}


def key_margin(qn):
    x = np.abs(qn) * 1e8
    return float(np.abs((x - np.floor(x)) - 0.5).min())


def run_decomp(case):
    import pandas as pd
    from PyMatterSim.static.vector import vector_decomposition_sq

    R = Result()
    n, d = case["n"], case["d"]
    L = case["L"]
    pos = np.array(case["pos"])
    v = np.array(case["field"], float).reshape(n, d)
    qint = np.array(QLISTS[d][case["qname"]])
    sg = {"d": d, "box": case["box"], "qlist": case["qname"]}
    if case.get("udtype"):
        v, vref = Y.cast_field(v, case["udtype"])
        sg["udtype"] = case["udtype"]
    else:
        vref = v
    ref = HV.ref_decomposition(pos, L, qint, vref)
    if key_margin(ref["qn"]) < 1e-4:
        return R.screen()
    if case.get("unwrap"):
        pos = Y.unwrap(pos, np.diag(L), [1] * d)  # L7: exp(-i q.(r + n L)) = exp(-i q.r) for q = 2 pi m / L: the transform must not change
        sg["unwrapped"] = True
    snap = mk_snap(pos, np.diag(L), [1] * n)
    v0, q0 = v.copy(), qint.copy()
    out = case.get("ofile") if case.get("ofile") is not None else ("dec_out" if case["csv"] else "")
    if case.get("ofile") is not None:
        sg["outputfile"] = "with_csv_ending" if out.endswith(".csv") else ("dotted" if "." in out else "plain")
    path = Y.csv_path(out) if out else None
    for stale in ([path, out] if out else []):
        if os.path.exists(stale):
            os.remove(stale)
    tab, ave = vector_decomposition_sq(snap, qint, v, outputfile=out)
    got = compare_decomp(R, sg, tab, ave, ref, d)
    if out:
        if not os.path.exists(path):
            R.fail(f"outputfile={out!r}: {path} not written", sig=dict(sg, clause="csv"))
        else:
            back = pd.read_csv(path)
            if list(back.columns) != list(ave.columns) or back.shape != ave.shape or np.abs(back.values - ave.values).max() > 0.5e-8 + 1e-11 * (1.0 + np.abs(ave.values).max()):
                R.fail("CSV differs from the returned group table beyond %.8f", sig=dict(sg, clause="csv"))
            os.remove(path)
        for wrong in (out + ".csv.csv", out if not out.endswith(".csv") else None):
            if wrong and os.path.exists(wrong):
                R.fail(f"outputfile={out!r}: unexpected file {wrong}", sig=dict(sg, clause="csv_name"))
                os.remove(wrong)
    if not (np.array_equal(v, v0) and np.array_equal(qint, q0) and np.array_equal(snap.positions, pos)):
        R.fail("input modified", sig=dict(sg, clause="input_modified"))
    if got is not None:
        R.outcome({"F": got["F"], "L": got["FL"]}, nd=6)
    R.nontrivial = bool(np.abs(ref["FL"]).max() > 1e-6 and np.abs(ref["FT"]).max() > 1e-6)
    R.elem = len(qint) * (3 * d + 3) * 2
    return R


# =========================================================================================== C15.fft_corr
LETTERS = {
    2: [(1, 0, 0, 1, -1, 1), (0, 1, 1, 1, 1, 0), (1, -1, 0, 0, 0.5, 2), (-1, 0, 1, 0, 0, -1)],
    3: [(1, 0, 0, 0, 1, 0, -1, 1, 1), (0, 1, 1, 1, 1, 0, 0, 0, 1), (1, -1, 0.5, 0, 0, 2, 1, 1, 1), (-1, 0, 1, 1, 0, 0, 0, -1, 0)],
}
STEPS = {"even": [0, 10, 20, 30, 40], "uneven": [0, 10, 30, 70, 150]}


def gen_corr(tier, seed):
    nlet = 3 if tier == "quick" else 4
    depth = 3 if tier == "quick" else 4
    for d in (2, 3):
        L = box_for(d, "cube")
        base = positions(seed, 3, d, L, "corr")
        for qn in ("shells", "mixed"):
            for spacing in ("even", "uneven"):
                for moving in (False, True):
                    for dt in (0.002, 0.5):
                        if dt == 0.5 and (moving or qn == "mixed"):
                            continue
                        for first in range(nlet):
                            yield {"d": d, "L": L, "base": base, "qname": qn, "spacing": spacing, "moving": moving, "dt": dt,
                                   "first": first, "nlet": nlet, "depth": depth, "seed": seed}


def frame_positions(case, t):
    base = np.array(case["base"])
    if not case["moving"] or t == 0:
        return base
    n, d = base.shape
    disp = np.array([[A.jitter(case["seed"], f"c15mv{t}_{i}", a, 0.45) for a in range(d)] for i in range(n)])
    return base + disp


def check_history(R, case, hist):
    """run the library on the frame history `hist` (tuple of letter indices) and compare with the reference"""
    import pandas as pd
    from PyMatterSim.static.vector import vector_fft_corr

    d = case["d"]
    L = case["L"]
    n = 3
    T = len(hist)
    qint = np.array(QLISTS[d][case["qname"]])
    steps = STEPS[case["spacing"]][:T]
    frames = [frame_positions(case, t) for t in range(T)]
    vecs = np.array([np.array(LETTERS[d][k], float).reshape(n, d) for k in hist])
    sg = {"d": d, "spacing": case["spacing"] if T > 2 else "short", "frames": "one" if T == 1 else "many"}
    vref = vecs
    if case.get("udtype"):
        vecs, vref = Y.cast_field(vecs * (4 if case["udtype"].startswith("int") else 1), case["udtype"])  # x4: the half-integer letters become integers
        sg["udtype"] = case["udtype"]
    lib_frames = frames
    if case.get("unwrap"):
        # L7: particles that left the cell in LATER frames stay unfolded (xu yu zu): frame t > 0 carries whole box lengths, frame 0 does not
        lib_frames = [frames[0]] + [Y.unwrap(frames[t], np.diag(L), [1] * d, phase=t) for t in range(1, T)]
        sg["unwrapped"] = True
    of = case.get("ofile", "corr")
    if of != "corr":
        sg["outputfile"] = "empty" if of == "" else "dotted"
    if case["dt"] == 0:
        sg["dt_zero"] = True
    snaps = mk_snaps([np.asarray(f).tolist() for f in lib_frames], np.diag(L), [1] * n, steps=steps)
    v0 = vecs.copy()
    res = vector_fft_corr(snaps, qint, vecs, dt=case["dt"], outputfile=of)
    refs = [HV.ref_decomposition(frames[t], L, qint, vref[t]) for t in range(T)]
    texp = [(s - steps[0]) * case["dt"] for s in steps]
    dig = []
    if sorted(res.keys()) != ["FFT", "L_FFT", "T_FFT"]:
        R.fail(f"keys {sorted(res.keys())}", sig=dict(sg, clause="keys"))
        return None
    for header, key in (("FFT", "F"), ("T_FFT", "FT"), ("L_FFT", "FL")):
        tab = res[header]
        if tab.shape != (len(qint), d + 1 + T):
            R.fail(f"{header}: table shape {tab.shape}, expected {(len(qint), d + 1 + T)}", sig=dict(sg, clause="shape", header=header))
            return None
        vals = tab.values.astype(float)
        tcols = np.array([float(c) for c in tab.columns[d + 1 :]])
        if np.abs(tcols - np.array(texp)).max() > 1e-9:
            R.fail(f"{header}: time axis {tcols.tolist()} != (step - step0) dt = {texp}", sig=dict(sg, clause="time_axis", header=header))
        if np.abs(vals[:, :d] - refs[0]["q"]).max() > 0.6e-8 or np.abs(vals[:, d] - refs[0]["qn"]).max() > 0.6e-8:
            R.fail(f"{header}: wave-vector columns differ", sig=dict(sg, clause="qcolumns", header=header))
        for m in range(len(qint)):
            x = np.array([refs[t][key][m] for t in range(T)])
            C = HV.ref_timecorr(x, steps)
            if C[0] < 1e-4:
                continue
            # error budget: every transform component carries <= 0.71e-8 (round(8) of re and im) (+ the unit-q effect for L, T)
            Fm = max(float(np.abs(refs[t]["F"][m]).max()) for t in range(T))
            dx = 1e-8 + (0.0 if header == "FFT" else 2e-8 * (1.0 + Fm * (1.0 + 1.0 / float(refs[0]["qn"].min()))))
            xs = float(np.abs(x).sum(axis=1).max())
            dC = 2.0 * xs * dx + d * dx * dx
            tol = (dC * (1.0 + np.abs(C) / C[0])) / (C[0] - dC) + 0.6e-8
            got = vals[m, d + 1 :]
            if not np.isfinite(got).all() or (np.abs(got - C / C[0]) > tol).any():
                R.fail(f"{header}: time correlation at wave vector {qint[m].tolist()} = {got.tolist()}, reference {(C / C[0]).tolist()}",
                       sig=dict(sg, clause="time_corr", header=header), exp=C / C[0], obs=got)
                break
            if got[0] != 1.0:
                R.fail(f"{header}: C(0) = {got[0]!r} != 1", sig=dict(sg, clause="lag0", header=header))
                break
        if of and (not os.path.exists(f"{of}.{header}.npy") or not np.array_equal(np.load(f"{of}.{header}.npy"), tab.values, equal_nan=True)):
            R.fail(f"{of}.{header}.npy missing or different from the returned table", sig=dict(sg, clause="npy", header=header))
        dig.append(np.nan_to_num(vals[:, d + 1 :], nan=-9.0))
    # spectra file: frame mean of the group means
    keys = np.round(refs[0]["qn"], 8)
    acc = 0
    for t in range(T):
        gk, gm = HV.group_means(np.round(refs[t]["qn"], 8), [refs[t]["S"], refs[t]["ST"], refs[t]["SL"]])
        acc = acc + gm
    acc = acc / T
    if not of:
        pass  # outputfile '' (the default): the documentation names no file for it; only the returned tables are compared
    elif not os.path.exists(of + ".spectra.csv"):
        R.fail(f"{of}.spectra.csv not written", sig=dict(sg, clause="spectra_file"))
    else:
        sp = pd.read_csv(of + ".spectra.csv")
        Fm = max(float(np.abs(r["F"]).max()) for r in refs)
        if list(sp.columns) != ["q", "Sq", "Sq_T", "Sq_L"] or len(sp) != len(gk) or np.abs(sp.values[:, 0] - gk).max() > 1e-8 \
                or np.abs(sp.values[:, 1:] - acc).max() > 1e-7 * (1 + Fm * Fm):
            R.fail("spectra file != frame mean of the |q|-group means of Sq, Sq_T, Sq_L", sig=dict(sg, clause="spectra"), exp=acc, obs=sp.values)
    for f in (of + ".spectra.csv", of + ".FFT.npy", of + ".T_FFT.npy", of + ".L_FFT.npy"):
        if os.path.exists(f):
            os.remove(f)
    if not np.array_equal(vecs, v0):
        R.fail("input modified", sig=dict(sg, clause="input_modified"))
    return digest(np.round(np.array(dig), 7))


def run_corr(case):
    """E2: breadth-first search over frame-append histories (event = append one frame carrying one field letter);
    every state is rebuilt on fresh objects and the invariant (table == reference) is evaluated in it."""
    R = Result()
    frontier = [(case["first"],)]
    seen = set()
    trans = 0
    while frontier:
        nxt = []
        for hist in frontier:
            dg = check_history(R, case, hist)
            trans += 1
            if dg is not None:
                seen.add(dg)
            if len(hist) < case["depth"] and not R.viol:
                for k in range(case["nlet"]):
                    nxt.append(hist + (k,))
        frontier = nxt
    R.states = len(seen)
    R.transitions = trans
    R.outcome(sorted(seen))
    R.nontrivial = len(seen) > 2
    R.elem = trans * 3 * len(QLISTS[case["d"]][case["qname"]])
    return R


# ============================================================================================== C15.scale
SCALE_N = [64, 65, 130, 257]
SCALE_NQ = [63, 64, 65, 129, 257]
LISTKINDS = ["first", "last", "formula", "wide", "one"]


def gen_scale(tier, seed):
    q = tier == "quick"
    for N in SCALE_N:
        for d in (2, 3):
            yield {"kind": "pr", "N": N, "d": d, "seed": seed}
            for lk in LISTKINDS:
                yield {"kind": "align", "N": N, "d": d, "lk": lk, "seed": seed}
            ms = A.masks(d)
            if q:
                ms = [ms[0], ms[-1], ms[1]]
            for cell in ("orth", "tri"):
                for mi, mask in enumerate(ms):
                    yield {"kind": "divcurl", "N": N, "d": d, "cell": cell, "ppp": mask, "lk": LISTKINDS[(mi + (cell == "tri") + N) % 5], "seed": seed}
    for N in (64, 257):
        for d in (2, 3):
            for M in SCALE_NQ:
                if q and (N, d, M) not in ((64, 2, 129), (64, 3, 65), (257, 2, 257), (257, 3, 63), (257, 3, 64)):
                    continue
                yield {"kind": "vib", "N": N, "d": d, "M": M, "seed": seed}
    for nq in SCALE_NQ:
        for d in (2, 3):
            for bk in ("rect", "cube"):
                for N in (5, 65, 130):
                    if q and (N == 130 or (bk == "cube" and N == 5)):
                        continue
                    yield {"kind": "decomp", "N": N, "d": d, "nq": nq, "box": bk, "seed": seed}
    corr = [(3, 129), (3, 257), (65, 63), (64, 65)] if q else [(3, 129), (3, 257), (65, 63), (64, 65), (65, 129), (63, 64), (129, 65)]
    for (T, nq) in corr:
        for d in (2, 3):
            for sp in ("even", "uneven", "lastgap"):
                if q and T > 3 and (d, sp) in ((3, "uneven"), (2, "lastgap")):
                    continue
                yield {"kind": "corr", "T": T, "nq": nq, "d": d, "N": 7, "spacing": sp, "box": "rect", "dt": 0.002, "seed": seed}


def _scale_lists(case):
    N = case["N"]
    return X.ragged_lists(N, 1, case["lk"], wide=200 if N > 200 else 70)


def run_scale(case):
    return {"pr": scale_pr, "align": scale_align, "divcurl": scale_divcurl, "vib": scale_vib, "decomp": scale_decomp, "corr": scale_corr}[case["kind"]](case)


def scale_pr(case):
    from PyMatterSim.static.vector import participation_ratio

    R = Result()
    N, d, seed = case["N"], case["d"], case["seed"]
    sg = {"kind": "pr", "d": d, "scale": True}
    g = X.garray(seed, f"c15spr{N}_", (N, d), 1.0)
    loc = np.zeros((N, d))
    loc[N - 1, d - 1] = 0.75  # localised on the LAST particle
    half = g.copy()
    half[: N // 2] = 0.0  # supported on the upper half of the ids
    outs = []
    for name, v in (("generic", g), ("last_site", loc), ("upper_half", half)):
        v0 = v.copy()
        got = participation_ratio(v)
        exp = HV.ref_pr(v)
        outs.append(float(got))
        if not np.isfinite(got) or abs(got - exp) > 1e-12:
            R.fail(f"N={N} {name}: PR = {got!r}, (sum|e|^2)^2/(N sum|e|^4) = {exp!r}", sig=dict(sg, clause="formula"), exp=exp, obs=got)
        if not (1.0 / N - 1e-12 <= got <= 1.0 + 1e-12):
            R.fail(f"N={N} {name}: PR = {got!r} outside [1/N, 1]", sig=dict(sg, clause="range"))
        for s_ in (2.0, 1e-3, 3.0):
            g2 = participation_ratio(s_ * v)
            if abs(g2 - got) > 1e-12:
                R.fail(f"N={N} {name}: PR({s_} e) = {g2!r} != PR(e) = {got!r}", sig=dict(sg, clause="scale"))
        if not np.array_equal(v, v0):
            R.fail("input modified", sig=dict(sg, clause="input_modified"))
    R.outcome(outs)
    R.elem = 15
    return R


def scale_align(case):
    from PyMatterSim.static.vector import local_vector_alignment, phase_quotient

    R = Result()
    N, d, seed = case["N"], case["d"], case["seed"]
    nl = _scale_lists(case)
    sg = {"kind": "align", "d": d, "lists": case["lk"], "scale": True}
    write_neighbor_file("nl_sc.dat", [nl])
    g = X.garray(seed, f"c15sal{N}_", (N, d), 1.0)
    alt = np.array([[(1.0 if (i // 2) % 2 == 0 else -1.0) * (1 + (i % 3))] + [0.5] * (d - 1) for i in range(N)])
    outs = []
    if case["lk"] in ("last", "wide"):
        g = np.asfortranarray(g)  # argument form: column-major field
    for name, v in (("generic", g), ("alternating", alt)):
        v0 = v.copy(order="K")
        got = np.asarray(local_vector_alignment(v, "nl_sc.dat"))
        exp = HV.ref_alignment(v, nl)
        if got.shape != exp.shape or not np.allclose(got, exp, rtol=1e-9, atol=1e-11):
            k = int(np.argmax(~np.isclose(got, exp, rtol=1e-9, atol=1e-11))) if got.shape == exp.shape else -1
            R.fail(f"N={N} lists={case['lk']} {name}: alignment of particle {k} (cn {len(nl[k]) if k >= 0 else '?'}) != mean neighbour dot product",
                   sig=dict(sg, clause="alignment"), exp=exp[max(0, k - 2):k + 3], obs=got[max(0, k - 2):k + 3] if k >= 0 else got.shape)
        num, den = HV.ref_pq(v, nl)
        pq = float(phase_quotient(v, "nl_sc.dat"))
        if not np.isfinite(pq) or abs(pq - num / den) > 1e-12:
            R.fail(f"N={N} lists={case['lk']} {name}: PQ = {pq!r}, sum dots / sum |dots| = {num / den!r}", sig=dict(sg, clause="pq"), exp=num / den, obs=pq)
        if not -1.0 - 1e-12 <= pq <= 1.0 + 1e-12:
            R.fail(f"PQ = {pq!r} outside [-1, 1]", sig=dict(sg, clause="pq_range"))
        if not np.array_equal(v, v0):
            R.fail("input modified", sig=dict(sg, clause="input_modified"))
        outs.append(np.append(got, pq))
    os.remove("nl_sc.dat")
    R.outcome(np.array(outs))
    R.nontrivial = len({len(x) for x in nl}) > 1
    R.elem = 2 * (N + 1)
    return R


def scale_divcurl(case):
    from PyMatterSim.static.vector import divergence_curl

    R = Result()
    N, d, seed = case["N"], case["d"], case["seed"]
    H = cell15(d, case["cell"])
    ppp = np.array(case["ppp"])
    pos = np.array(A.generic_points(seed, N, d, tag=f"c15sdc{N}{d}_")) @ H
    nl = _scale_lists(case)
    sg = {"kind": "divcurl", "d": d, "cell": case["cell"], "periodic": bool(ppp.any()), "lists": case["lk"], "scale": True}
    diffs = np.array([pos[j] - pos[i] for i in range(N) for j in nl[i]])
    if frac_tie_margin(diffs, H, ppp) < 1e-7:
        return R.screen()
    write_neighbor_file("nl_sdc.dat", [nl])
    snap = mk_snap(pos, H, [1] * N)
    outs = []
    fields = [("generic", X.garray(seed, f"c15sdu{N}_", (N, d), 1.0)), ("linear", pos @ np.array(LIN[d]["generic"], float).T)]
    for name, u in fields:
        u0 = u.copy()
        res = divergence_curl(snap, u, ppp.tolist() if case["cell"] == "tri" else ppp, "nl_sdc.dat")  # argument form: ppp as a list
        ediv, ecurl = HV.ref_divcurl(pos, H, ppp, u, nl)
        scale = 1.0 + float(np.abs(u).max()) * float(np.abs(H).max())
        if d == 2:
            gdiv, gcurl = np.asarray(res), None
        else:
            gdiv, gcurl = np.asarray(res[0]), np.asarray(res[1])
        if gdiv.shape != (N,) or not np.allclose(gdiv, ediv, rtol=1e-9, atol=1e-11 * scale):
            k = int(np.argmax(~np.isclose(gdiv, ediv, rtol=1e-9, atol=1e-11 * scale))) if gdiv.shape == (N,) else -1
            R.fail(f"N={N} lists={case['lk']} {name}: divergence of particle {k} != neighbour mean of R_ij . u_ij", sig=dict(sg, clause="divergence"),
                   exp=ediv[max(0, k - 2):k + 3], obs=gdiv[max(0, k - 2):k + 3] if k >= 0 else gdiv.shape)
        if d == 3 and (gcurl.shape != (N, 3) or not np.allclose(gcurl, ecurl, rtol=1e-9, atol=1e-11 * scale)):
            k = int(np.argmax(~np.isclose(gcurl, ecurl, rtol=1e-9, atol=1e-11 * scale).all(axis=1))) if gcurl.shape == (N, 3) else -1
            R.fail(f"N={N} lists={case['lk']} {name}: curl of particle {k} != neighbour mean of R_ij x u_ij", sig=dict(sg, clause="curl"),
                   exp=ecurl[max(0, k - 1):k + 2], obs=gcurl[max(0, k - 1):k + 2] if k >= 0 else gcurl.shape)
        if not (np.array_equal(u, u0) and np.array_equal(snap.positions, pos)):
            R.fail("input modified", sig=dict(sg, clause="input_modified"))
        outs.append(gdiv if d == 2 else np.column_stack((gdiv, gcurl)))
    os.remove("nl_sdc.dat")
    R.outcome(np.array(outs), nd=7)
    R.elem = 2 * N * (1 if d == 2 else 4)
    return R


def scale_vib(case):
    from PyMatterSim.static.vector import vibrability

    R = Result()
    N, d, M = case["N"], case["d"], case["M"]
    V = X.mode_matrix(N * d, M)
    fr = np.array([0.5 + 0.03125 * ((7 * l) % 41) for l in range(M)])
    sg = {"kind": "vib", "d": d, "scale": True}
    if (N + M + d) % 2:
        V = np.asfortranarray(V)  # argument form: column-major eigenvector matrix (as returned by LAPACK-backed eigh)
    V0, f0 = V.copy(order="K"), fr.copy()
    got = np.asarray(vibrability(fr, V, N))
    exp = HV.ref_vibrability(fr, V, N)
    if got.shape != (N,) or not np.allclose(got, exp, rtol=1e-9, atol=1e-12):
        R.fail(f"N={N} modes={M}: vibrability != sum_l |e_(l,i)|^2 / omega_l^2", sig=dict(sg, clause="vibrability"), exp=exp[:6], obs=got[:6])
    if not (np.array_equal(V, V0) and np.array_equal(fr, f0)):
        R.fail("input modified", sig=dict(sg, clause="input_modified"))
    R.outcome(got)
    R.elem = N
    return R


def scale_decomp(case):
    import pandas as pd
    from PyMatterSim.static.vector import vector_decomposition_sq

    R = Result()
    N, d, nq, seed = case["N"], case["d"], case["nq"], case["seed"]
    L = box_for(d, case["box"])
    pos = np.array(positions(seed, N, d, L, "sdec" + case["box"]))
    v = X.garray(seed, f"c15sdv{N}_", (N, d), 1.0)
    qint = np.array(X.qlist(d, nq), dtype=np.int32 if nq % 2 else np.int64)  # argument form: utils.wavevector returns int32
    if N % 2:
        big = np.zeros((N, d + 2))
        big[:, 1:d + 1] = v
        v = big[:, 1:d + 1]  # argument form: non-contiguous view
    sg = {"kind": "decomp", "d": d, "box": case["box"], "scale": True}
    ref = HV.ref_decomposition(pos, L, qint, v)
    if key_margin(ref["qn"]) < 1e-4:
        return R.screen()
    snap = mk_snap(pos, np.diag(L), [1] * N)
    v0, q0 = v.copy(), qint.copy()
    tab, ave = vector_decomposition_sq(snap, qint, v, outputfile="sdec_out")
    got = compare_decomp(R, sg, tab, ave, ref, d)
    if not os.path.exists("sdec_out.csv"):
        R.fail("outputfile + '.csv' not written", sig=dict(sg, clause="csv"))
    else:
        back = pd.read_csv("sdec_out.csv")
        if list(back.columns) != list(ave.columns) or back.shape != ave.shape or np.abs(back.values - ave.values).max() > 0.5e-8 + 1e-11 * (1.0 + np.abs(ave.values).max()):
            R.fail("CSV differs from the returned group table beyond %.8f", sig=dict(sg, clause="csv"))
        os.remove("sdec_out.csv")
    if not (np.array_equal(v, v0) and np.array_equal(qint, q0) and np.array_equal(snap.positions, pos)):
        R.fail("input modified", sig=dict(sg, clause="input_modified"))
    if got is not None:
        R.outcome({"F": got["F"], "L": got["FL"]}, nd=6)
    R.nontrivial = bool(np.abs(ref["FL"]).max() > 1e-6 and np.abs(ref["FT"]).max() > 1e-6)
    R.elem = nq * (3 * d + 3) * 2
    return R


def scale_corr(case):
    import pandas as pd
    from PyMatterSim.static.vector import vector_fft_corr

    R = Result()
    T, nq, d, N, seed = case["T"], case["nq"], case["d"], case["N"], case["seed"]
    L = box_for(d, case["box"])
    base = np.array(positions(seed, N, d, L, "scorr"))
    frames = [base + X.garray(seed, f"c15scm{t}_", (N, d), 0.4) * (t > 0) for t in range(T)]
    vecs = np.array([X.garray(seed, f"c15scv{t}_", (N, d), 1.0) for t in range(T)])
    qint = np.array(X.qlist(d, nq))
    if case["spacing"] == "even":
        steps = [100 + 20 * t for t in range(T)]
    elif case["spacing"] == "uneven":
        steps = [100 + (t * (t + 1)) // 2 for t in range(T)]
    else:
        steps = [100 + 20 * t + (7 if t == T - 1 else 0) for t in range(T)]
    even = HV.even_spacing(steps)
    sg = {"kind": "corr", "d": d, "spacing": case["spacing"], "scale": True}
    where = f"T={T} nq={nq} spacing={case['spacing']}"
    refs = [X.decomposition(frames[t], L, qint, vecs[t]) for t in range(T)]
    if key_margin(refs[0]["qn"]) < 1e-4:
        return R.screen()
    snaps = mk_snaps([f.tolist() for f in frames], np.diag(L), [1] * N, steps=steps)
    v0 = vecs.copy()
    res = vector_fft_corr(snaps, qint, vecs, dt=case["dt"], outputfile="scorr")
    texp = np.array([(s - steps[0]) * case["dt"] for s in steps])
    qmin = float(refs[0]["qn"].min())
    if sorted(res.keys()) != ["FFT", "L_FFT", "T_FFT"]:
        R.fail(f"keys {sorted(res.keys())}", sig=dict(sg, clause="keys"))
        return R
    dig = []
    ncmp = 0
    for header, key in (("FFT", "F"), ("T_FFT", "FT"), ("L_FFT", "FL")):
        tab = res[header]
        if tab.shape != (nq, d + 1 + T):
            R.fail(f"{header}: table shape {tab.shape}, expected {(nq, d + 1 + T)} ({where})", sig=dict(sg, clause="shape", header=header))
            continue
        vals = tab.values.astype(float)
        tcols = np.array([float(c) for c in tab.columns[d + 1:]])
        if np.abs(tcols - texp).max() > 1e-9:
            R.fail(f"{header}: time axis != (step - step0) dt ({where})", sig=dict(sg, clause="time_axis", header=header))
        if np.abs(vals[:, :d] - refs[0]["q"]).max() > 0.6e-8 or np.abs(vals[:, d] - refs[0]["qn"]).max() > 0.6e-8:
            R.fail(f"{header}: wave-vector columns differ ({where})", sig=dict(sg, clause="qcolumns", header=header))
        x = np.array([refs[t][key] for t in range(T)])  # (T, nq, d)
        C = X.timecorr(x, even)  # (T, nq)
        C0 = C[0]
        # error budget as in C15.fft_corr: every transform component carries <= 1e-8 (round(8)) (+ the unit-q effect for L, T)
        Fm = np.array([np.abs(refs[t]["F"]).max(axis=1) for t in range(T)]).max(axis=0)  # per q
        dx = 1e-8 + (0.0 if header == "FFT" else 2e-8 * (1.0 + Fm * (1.0 + 1.0 / qmin)))
        xs = np.abs(x).sum(axis=2).max(axis=0)
        dC = 2.0 * xs * dx + d * dx * dx
        use = C0 >= 1e-4
        tol = (dC[None, :] * (1.0 + np.abs(C) / np.where(use, C0, 1.0)[None, :])) / np.where(use, C0 - dC, 1.0)[None, :] + 0.6e-8
        got = vals[:, d + 1:].T  # (T, nq)
        exp = C / np.where(use, C0, 1.0)[None, :]
        bad = (~np.isfinite(got) | (np.abs(got - exp) > tol)) & use[None, :]
        ncmp += int(use.sum()) * T
        if bad.any():
            m = int(np.argmax(bad.any(axis=0)))
            k = int(np.argmax(bad[:, m]))
            R.fail(f"{header}: time correlation at wave vector #{m} {qint[m].tolist()} lag index {k} = {got[k, m]!r}, reference {exp[k, m]!r} ({where})",
                   sig=dict(sg, clause="time_corr", header=header), exp=exp[:6, m], obs=got[:6, m])
        elif (got[0][use] != 1.0).any():
            R.fail(f"{header}: C(0) != 1 ({where})", sig=dict(sg, clause="lag0", header=header))
        if not os.path.exists(f"scorr.{header}.npy") or not np.array_equal(np.load(f"scorr.{header}.npy"), tab.values, equal_nan=True):
            R.fail(f"scorr.{header}.npy differs from the returned table", sig=dict(sg, clause="npy", header=header))
        dig.append(np.nan_to_num(vals[:, d + 1:], nan=-9.0))
    keys = np.round(refs[0]["qn"], 8)
    acc = 0
    for t in range(T):
        gk, gm = X.group_means(keys, [refs[t]["S"], refs[t]["ST"], refs[t]["SL"]])
        acc = acc + gm
    acc = acc / T
    if not os.path.exists("scorr.spectra.csv"):
        R.fail("spectra file not written", sig=dict(sg, clause="spectra_file"))
    else:
        sp = pd.read_csv("scorr.spectra.csv")
        Fmm = max(float(np.abs(r["F"]).max()) for r in refs)
        if list(sp.columns) != ["q", "Sq", "Sq_T", "Sq_L"] or len(sp) != len(gk) or np.abs(sp.values[:, 0] - gk).max() > 1e-8 \
                or np.abs(sp.values[:, 1:] - acc).max() > 1e-7 * (1 + Fmm * Fmm):
            R.fail(f"spectra file != frame mean of the |q|-group means of Sq, Sq_T, Sq_L ({where})", sig=dict(sg, clause="spectra"), exp=acc[:6], obs=sp.values[:6])
    for f in ("scorr.spectra.csv", "scorr.FFT.npy", "scorr.T_FFT.npy", "scorr.L_FFT.npy"):
        if os.path.exists(f):
            os.remove(f)
    if not np.array_equal(vecs, v0):
        R.fail("input modified", sig=dict(sg, clause="input_modified"))
    R.outcome(np.round(np.array(dig), 6) if dig else None)
    R.elem = ncmp
    return R


# ============================================================================================== C15.forms
# Round 4: storage types of the fields (L5), particles displaced by whole cell vectors (L7), explicit zero dt (L8), output-file names (coverage gaps)
def gen_forms(tier, seed):
    q = tier == "quick"
    for (n, d, B) in ((3, 2, 4), (2, 3, 4)):
        for dt in Y.FIELD_DTYPES:
            for b in range(B):
                yield {"kind": "pr", "n": n, "d": d, "dtype": dt, "b": b, "B": B}
    for nl in topo_core(3, 8):
        for dt in Y.FIELD_DTYPES:
            for b in range(2):
                yield {"kind": "neigh", "n": 3, "d": 2, "fkind": "all", "B": 2, "b": b, "nl": [list(x) for x in nl], "dtype": dt}
    for nl in topo_core(3, 4):
        for dt in Y.FIELD_DTYPES:
            yield {"kind": "neigh", "n": 3, "d": 3, "fkind": "core", "B": 1, "b": 0, "nl": [list(x) for x in nl], "dtype": dt}
    variants = [{"udtype": dt} for dt in Y.FIELD_DTYPES] + [{"posform": "F"}, {"pppform": "list"}, {"pppform": "i32"}, {"pppform": "i8"}, {"unwrap": True},
                                                            {"unwrap": True, "udtype": "int64", "posform": "F"}]
    for n in (3,) if q else (3, 4):
        for d in (2, 3):
            g = np.array(A.generic_points(seed, n, d, tag=f"c15dc{n}{d}_"))
            for cell in ("orth", "tri"):
                H = cell15(d, cell)
                pos = (g @ H).tolist()
                for mask in A.masks(d):
                    for var in variants:
                        if var.get("unwrap") and not any(mask):
                            continue
                        for nl in topo_core(n, 6 if q else 12):
                            yield dict({"kind": "divcurl", "n": n, "d": d, "cell": cell, "H": H.tolist(), "pos": pos, "ppp": mask, "nl": [list(x) for x in nl], "order": "asc"}, **var)
    for (n, d) in ((2, 2), (2, 3)):
        nd = n * d
        for bname in ("identity", "reverse", "householder"):
            for k in (1, nd - 1, nd):
                for cols in list(itertools.combinations(range(nd), k))[:6]:
                    for vdt, fdt in (("float32", None), ("int64", None), (None, "int64"), ("int32", "int32"), ("float32", "float32")):
                        if vdt and vdt.startswith("int") and bname == "householder":
                            continue
                        fr = [FREQS[(c + 1) % 2] for c in range(k)] if fdt and fdt.startswith("int") else [FREQS[c % 3] for c in range(k)]
                        c = {"kind": "vib", "n": n, "d": d, "basis": bname, "cols": list(cols), "freq": fr, "save": False}
                        if vdt:
                            c["vdtype"] = vdt
                        if fdt:
                            c["fdtype"] = fdt
                        yield c
    for (n, d, kind) in ((3, 2, "all"), (2, 3, "core")):
        for bk in ("cube", "rect"):
            L = box_for(d, bk)
            pos = positions(seed, n, d, L, "dec" + bk)
            fl = field_list(kind, n, d)
            for qn in ("shells", "mixed"):
                for k, f in enumerate(fl[:: (59 if q else 7)]):
                    base = {"kind": "decomp", "n": n, "d": d, "box": bk, "L": L, "pos": pos, "qname": qn, "field": list(f), "csv": False}
                    for dt in Y.FIELD_DTYPES:
                        yield dict(base, udtype=dt)
                    yield dict(base, unwrap=True)
                    yield dict(base, unwrap=True, udtype="int32", ofile="dec.run2")
                    for of in ("dec_x.csv", "dec_x", "dec.v2", "dec.csv.bak"):
                        yield dict(base, ofile=of)
    for d in (2, 3):
        L = box_for(d, "cube")
        base = positions(seed, 3, d, L, "corr")
        for spacing in ("even", "uneven"):
            for var in ({"dt": 0.0}, {"dt": 0}, {"udtype": "int64"}, {"udtype": "float32"}, {"unwrap": True}, {"ofile": ""}, {"ofile": "run.v2"},
                        {"unwrap": True, "udtype": "int32", "ofile": "", "dt": 0.0}):
                for first in range(3):
                    c = {"kind": "corr", "d": d, "L": L, "base": base, "qname": "shells", "spacing": spacing, "moving": True, "dt": 0.002, "first": first, "nlet": 3,
                         "depth": 3 if not q else 2, "seed": seed}
                    c.update(var)
                    yield c


def forms_real(case):
    """PR / alignment / phase quotient of integer-valued fields stored as float32 / int64 / int32 / int8"""
    from PyMatterSim.static.vector import local_vector_alignment, participation_ratio, phase_quotient

    R = Result()
    n, d, dt = case["n"], case["d"], case["dtype"]
    sg = {"kind": case["kind"], "d": d, "dtype": dt}
    rt = 2e-6 if dt == "float32" else 1e-12
    outs = []
    if case["kind"] == "pr":
        fs = field_list("all", n, d)[case["b"]:: case["B"]]
        for f in fs:
            v, vref = Y.cast_field(np.array(f).reshape(n, d), dt)
            v0 = v.copy()
            got = participation_ratio(v)
            exp = HV.ref_pr(vref)
            if not np.isfinite(got) or abs(got - exp) > rt:
                R.fail(f"PR of a field stored as {dt} = {got!r}, (sum|e|^2)^2/(N sum|e|^4) = {exp!r}", sig=dict(sg, clause="formula"), exp=exp, obs={"field": f, "got": float(got)})
                break
            if not (1.0 / n - rt <= got <= 1.0 + rt):
                R.fail(f"PR = {got!r} outside [1/N, 1]", sig=dict(sg, clause="range"))
            if not np.array_equal(v, v0):
                R.fail("input modified", sig=dict(sg, clause="input_modified"))
            outs.append(float(got))
        R.elem = len(outs)
    else:
        nl = case["nl"]
        write_neighbor_file("nl_fr.dat", [nl])
        fs = field_list(case["fkind"], n, d)[case["b"]:: case["B"]]
        for f in fs:
            v, vref = Y.cast_field(np.array(f).reshape(n, d), dt)
            v0 = v.copy()
            got = np.asarray(local_vector_alignment(v, "nl_fr.dat"))
            exp = HV.ref_alignment(vref, nl)
            if got.shape != exp.shape or not np.allclose(got, exp, rtol=1e-9, atol=1e-11):
                R.fail(f"alignment of a field stored as {dt} != mean neighbour dot product", sig=dict(sg, clause="alignment"), exp=exp, obs={"field": f, "got": got})
                break
            num, den = HV.ref_pq(vref, nl)
            if den != 0:
                pq = float(phase_quotient(v, "nl_fr.dat"))
                if not np.isfinite(pq) or abs(pq - num / den) > max(rt, 1e-12):
                    R.fail(f"PQ of a field stored as {dt} = {pq!r}, sum dots / sum |dots| = {num / den!r}", sig=dict(sg, clause="pq"), exp=num / den, obs={"field": f, "got": pq})
                    break
                outs.append(pq)
            if not np.array_equal(v, v0):
                R.fail("input modified", sig=dict(sg, clause="input_modified"))
            outs.append(float(got.sum()))
        os.remove("nl_fr.dat")
        R.elem = len(outs)
    R.outcome(np.array(outs))
    R.nontrivial = len(set(np.round(outs, 9))) > 1
    return R


def run_forms(case):
    k = case["kind"]
    if k in ("pr", "neigh"):
        return forms_real(case)
    return {"divcurl": run_divcurl, "vib": run_vib, "decomp": run_decomp, "corr": run_corr}[k](case)


# ============================================================================================ C15.dilation
# L9 absolute scale.  Positions, cell and field multiplied by s = 2^-33 / 2^27: divergence and curl (neighbour means of R.U and R x U) scale by s^2; fields multiplied by
# t = 2^-40 (norms of 1e-12): PR and the phase quotient are scale-free, the alignment scales by t^2, the vibrability by t^2 (eigenvectors) and 1/s^2 (frequencies).
# The Fourier-space routines round their output to 8 decimals (documented), which is not scale-covariant: not part of this slice.
DILATIONS = [2.0 ** -33, 2.0 ** 27]
TINY = 2.0 ** -40


def gen_dilation(tier, seed):
    for si in range(len(DILATIONS)):
        for n in (3, 4):
            for d in (2, 3):
                g = np.array(A.generic_points(seed, n, d, tag=f"c15dc{n}{d}_"))
                for cell in ("orth", "tri"):
                    H = cell15(d, cell)
                    for mask in A.masks(d):
                        for nl in topo_core(n, 6):
                            yield {"kind": "divcurl", "n": n, "d": d, "cell": cell, "H": H.tolist(), "pos": (g @ H).tolist(), "ppp": mask, "nl": [list(x) for x in nl], "dil": si}
    for (n, d, B) in ((3, 2, 8), (2, 3, 8)):
        for b in range(B):
            for nl in topo_core(n, 4):
                yield {"kind": "real", "n": n, "d": d, "b": b, "B": B, "nl": [list(x) for x in nl]}
    for (n, d) in ((2, 2), (2, 3)):
        for bname in ("identity", "householder", "nonorthogonal"):
            for k in (1, n * d):
                for si in range(len(DILATIONS)):
                    yield {"kind": "vib", "n": n, "d": d, "basis": bname, "k": k, "dil": si}


def run_dilation(case):
    from PyMatterSim.static import vector as VV

    R = Result()
    kind = case["kind"]
    if kind == "divcurl":
        n, d = case["n"], case["d"]
        sc = DILATIONS[case["dil"]]
        H, pos, ppp, nl = np.array(case["H"]), np.array(case["pos"]), np.array(case["ppp"]), case["nl"]
        sg = {"kind": kind, "d": d, "cell": case["cell"], "periodic": bool(ppp.any()), "scale": "tiny" if sc < 1 else "huge"}
        diffs = np.array([pos[j] - pos[i] for i in range(n) for j in nl[i]])
        if frac_tie_margin(diffs, H, ppp) < 1e-7:
            return R.screen()
        write_neighbor_file("nl_dl.dat", [nl])
        outs = []
        for (name, u, Am) in dc_fields(n, d, pos):
            base = VV.divergence_curl(mk_snap(pos, H, [1] * n), u, ppp, "nl_dl.dat")
            got = VV.divergence_curl(mk_snap(pos * sc, H * sc, [1] * n), u * sc, ppp, "nl_dl.dat")
            b0, g0 = (np.asarray(base), np.asarray(got)) if d == 2 else (np.column_stack((base[0], base[1])), np.column_stack((got[0], got[1])))
            ref = np.column_stack(HV.ref_divcurl(pos, H, ppp, u, nl)) if d == 3 else HV.ref_divcurl(pos, H, ppp, u, nl)[0]
            scale = 1.0 + float(np.abs(u).max()) * float(np.abs(H).max())
            if g0.shape != b0.shape or not np.allclose(g0 / sc / sc, b0, rtol=1e-9, atol=1e-11 * scale) or not np.allclose(g0 / sc / sc, ref, rtol=1e-9, atol=1e-11 * scale):
                R.fail(f"divergence / curl of the configuration and field multiplied by {sc}, divided by scale^2, differ from the undilated values (field {name})",
                       sig=dict(sg, clause="scale_square", field=name.rstrip("0123456789")), exp=b0, obs=g0 / sc / sc)
            outs.append(b0)
        os.remove("nl_dl.dat")
        R.outcome(np.array(outs), nd=7)
        R.elem = len(outs) * n * (1 if d == 2 else 4)
        return R
    if kind == "real":
        n, d, nl = case["n"], case["d"], case["nl"]
        sg = {"kind": kind, "d": d, "scale": "norm_1e-12"}
        write_neighbor_file("nl_dl.dat", [nl])
        outs = []
        for f in field_list("all", n, d)[case["b"]:: case["B"]]:
            v = np.array(f, float).reshape(n, d) * np.array(GRADE[:n])[:, None]
            pr0, pr1 = VV.participation_ratio(v), VV.participation_ratio(v * TINY)
            if not (np.isfinite(pr1) and abs(pr1 - pr0) <= 1e-12 and abs(pr1 - HV.ref_pr(v)) <= 1e-12):
                R.fail(f"PR of a field of norm ~1e-12 = {pr1!r}, of the same field at norm ~1 = {pr0!r}", sig=dict(sg, clause="pr"), exp=pr0, obs={"field": f, "got": float(pr1)})
                break
            a0, a1 = np.asarray(VV.local_vector_alignment(v, "nl_dl.dat")), np.asarray(VV.local_vector_alignment(v * TINY, "nl_dl.dat"))
            if a1.shape != a0.shape or not np.array_equal(a1, a0 * TINY * TINY):
                R.fail("alignment of a field multiplied by 2^-40 != 2^-80 x alignment (exact in binary floating point)", sig=dict(sg, clause="alignment"), exp=a0 * TINY * TINY, obs=a1)
                break
            num, den = HV.ref_pq(v, nl)
            if den != 0:
                q1 = float(VV.phase_quotient(v * TINY, "nl_dl.dat"))
                if not (np.isfinite(q1) and abs(q1 - num / den) <= 1e-12):
                    R.fail(f"phase quotient of a field of norm ~1e-12 = {q1!r}, sum dots / sum |dots| = {num / den!r}", sig=dict(sg, clause="pq"), exp=num / den, obs=q1)
                    break
            outs.append(float(pr0))
        os.remove("nl_dl.dat")
        R.outcome(np.array(outs))
        R.elem = 3 * len(outs)
        R.nontrivial = len(set(np.round(outs, 9))) > 1
        return R
    n, d, k = case["n"], case["d"], case["k"]
    sc = DILATIONS[case["dil"]]
    V = bases(n * d)[case["basis"]][:, :k].copy()
    fr = np.array([FREQS[c % 3] for c in range(k)])
    base = np.asarray(VV.vibrability(fr, V, n))
    got = np.asarray(VV.vibrability(fr * sc, V * TINY, n))
    want = base * TINY * TINY / sc / sc
    if got.shape != base.shape or not np.allclose(got, want, rtol=1e-12, atol=0.0):
        R.fail(f"vibrability with eigenvectors x 2^-40 and frequencies x {sc} != undilated x 2^-80 / scale^2", sig={"kind": kind, "d": d, "clause": "vibrability", "scale": "tiny" if sc < 1 else "huge"},
               exp=want, obs=got)
    R.outcome(base)
    R.elem = n
    return R


# =========================================================================================== C15.sequence
# L6: words over complete calls chosen so that pairs collide in plausible incomplete memo keys; every word in a forked child with re-imported library
# modules; oracle: every call returns bit for bit what the same call returns when made FIRST in a fresh child.
def _seq_letters():
    L = []
    L.append({"id": "pr_a", "fn": "pr", "n": 4, "d": 2, "f": 0})
    L.append({"id": "pr_b", "fn": "pr", "n": 4, "d": 2, "f": 1})                      # same shape / other content
    L.append({"id": "pr_c", "fn": "pr", "n": 2, "d": 4, "f": 0})                      # same number of entries / other shape
    L.append({"id": "al_a", "fn": "align", "nl": "A", "f": 0})
    L.append({"id": "al_b", "fn": "align", "nl": "B", "f": 0})                       # same file NAME / other lists
    L.append({"id": "al_c", "fn": "align", "nl": "A", "f": 1})                       # same lists / other field
    L.append({"id": "pq_a", "fn": "pq", "nl": "A", "f": 1})
    L.append({"id": "pq_b", "fn": "pq", "nl": "B", "f": 1})
    L.append({"id": "dc_a", "fn": "dc", "d": 3, "cell": "orth", "ppp": [1, 1, 1], "nl": "A"})
    L.append({"id": "dc_b", "fn": "dc", "d": 3, "cell": "tri", "ppp": [1, 1, 1], "nl": "A"})   # same diagonal / tilted
    L.append({"id": "dc_c", "fn": "dc", "d": 3, "cell": "orth", "ppp": [1, 0, 1], "nl": "A"})  # other mask
    L.append({"id": "dc_d", "fn": "dc", "d": 2, "cell": "orth", "ppp": [1, 1], "nl": "B"})     # 2D after 3D
    L.append({"id": "vb_a", "fn": "vib", "fr": 0})
    L.append({"id": "vb_b", "fn": "vib", "fr": 1})                                   # same modes / other frequencies
    L.append({"id": "de_a", "fn": "dec", "d": 3, "box": "cube", "q": "shells", "f": 0})
    L.append({"id": "de_b", "fn": "dec", "d": 3, "box": "rect", "q": "shells", "f": 0})   # same wave-vector list / other box
    L.append({"id": "de_c", "fn": "dec", "d": 3, "box": "cube", "q": "mixed", "f": 0})    # same box / other list of the same length class
    L.append({"id": "de_d", "fn": "dec", "d": 3, "box": "cube", "q": "shells", "f": 1})   # other field, same output file name
    L.append({"id": "de_e", "fn": "dec", "d": 2, "box": "cube", "q": "shells", "f": 0})
    L.append({"id": "co_a", "fn": "corr", "d": 2, "steps": "even", "f": 0})
    L.append({"id": "co_b", "fn": "corr", "d": 2, "steps": "uneven", "f": 0})           # same N, first and last timestep equal / other interior
    L.append({"id": "co_c", "fn": "corr", "d": 2, "steps": "even", "f": 1})             # other fields, same output prefix
    return L


SEQ_LETTERS = _seq_letters()
SEQ_IDS = [l["id"] for l in SEQ_LETTERS]
SEQ_QUICK = ["pr_a", "pr_c", "al_a", "al_b", "pq_a", "pq_b", "dc_a", "dc_b", "dc_d", "vb_a", "vb_b", "de_a", "de_b", "de_c", "de_d", "co_a", "co_b", "co_c"]
SEQ_NL = {"A": [[1, 2], [0], [1, 0]], "B": [[2], [2, 0], [0, 1]]}
SEQ_STEPS = {"even": [0, 20, 40], "uneven": [0, 10, 40]}


def _seq_field(seed, n, d, f):
    return X.garray(seed, f"c15q{n}{d}f{f}_", (n, d), 1.0)


def _seq_call(seed, lt):
    from PyMatterSim.static import vector as VV

    fn = lt["fn"]
    if fn == "pr":
        return [float(VV.participation_ratio(_seq_field(seed, lt["n"], lt["d"], lt["f"])))]
    if fn in ("align", "pq"):
        write_neighbor_file("nl_c15q.dat", [SEQ_NL[lt["nl"]]])
        v = _seq_field(seed, 3, 3, lt["f"])
        if fn == "align":
            return [np.asarray(VV.local_vector_alignment(v, "nl_c15q.dat")).tolist()]
        return [float(VV.phase_quotient(v, "nl_c15q.dat"))]
    if fn == "dc":
        d = lt["d"]
        H = cell15(d, lt["cell"])
        pos = np.array(A.generic_points(seed, 3, d, tag=f"c15qdc{d}_")) @ H
        write_neighbor_file("nl_c15q.dat", [SEQ_NL[lt["nl"]]])
        res = VV.divergence_curl(mk_snap(pos, H, [1] * 3), _seq_field(seed, 3, d, 0), np.array(lt["ppp"]), "nl_c15q.dat")
        return [np.asarray(res).tolist()] if d == 2 else [np.asarray(res[0]).tolist(), np.asarray(res[1]).tolist()]
    if fn == "vib":
        V = bases(6)["householder"][:, :4]
        fr = np.array([[1.0, 2.0, 0.5, 1.5], [2.0, 1.0, 1.5, 0.5]][lt["fr"]])
        return [np.asarray(VV.vibrability(fr, V, 3, outputfile="vib_c15q.npy")).tolist()]
    if fn == "dec":
        d = lt["d"]
        Lb = box_for(d, lt["box"])
        pos = np.array(positions(seed, 3, d, Lb, "seq" + lt["box"]))
        tab, ave = VV.vector_decomposition_sq(mk_snap(pos, np.diag(Lb), [1] * 3), np.array(QLISTS[d][lt["q"]]), _seq_field(seed, 3, d, lt["f"]), outputfile="dec_c15q")
        return [_ctab(tab), X3.frame_to_json(ave), open("dec_c15q.csv").read()]
    d = lt["d"]
    Lb = box_for(d, "cube")
    steps = SEQ_STEPS[lt["steps"]]
    base = np.array(positions(seed, 3, d, Lb, "seqc"))
    frames = [base + 0.3 * t * _seq_field(seed, 3, d, 7) for t in range(3)]
    vecs = np.array([_seq_field(seed, 3, d, 10 * lt["f"] + t) for t in range(3)])
    res = VV.vector_fft_corr(mk_snaps([p.tolist() for p in frames], np.diag(Lb), [1] * 3, steps=steps), np.array(QLISTS[d]["shells"]), vecs, dt=0.5, outputfile="corr_c15q")
    return [X3.frame_to_json(res[h]) for h in ("FFT", "T_FFT", "L_FFT")] + [open("corr_c15q.spectra.csv").read()]


def _ctab(df):
    """DataFrame with complex columns -> JSON-able (real and imaginary parts, exact)"""
    v = df.values.astype(complex)
    return {"columns": [str(c) for c in df.columns], "re": v.real.tolist(), "im": v.imag.tolist()}


SEQ_FILES = ("nl_c15q.dat", "vib_c15q.npy", "dec_c15q.csv", "corr_c15q.spectra.csv", "corr_c15q.FFT.npy", "corr_c15q.T_FFT.npy", "corr_c15q.L_FFT.npy")


def _seq_eval(case):
    for f in SEQ_FILES:  # files left by a call stay in place for the later calls of the word (a stale file is part of the state), not across words
        if os.path.exists(f):
            os.remove(f)
    try:
        return [_seq_call(case["seed"], SEQ_LETTERS[k]) for k in case["word"]]
    finally:
        for f in SEQ_FILES:
            if os.path.exists(f):
                os.remove(f)


SEQ_CORE = ["pr_a", "pr_c", "al_a", "al_b", "dc_a", "dc_b", "vb_a", "vb_b", "de_a", "de_b", "de_d", "co_a", "co_c"]  # letters of the length-3 words (thorough)


def gen_sequence(tier, seed):
    if tier == "quick":
        idx = [SEQ_IDS.index(i) for i in SEQ_QUICK]
    else:
        idx = list(range(len(SEQ_LETTERS)))
    for Lw in (1, 2):
        for word in itertools.product(idx, repeat=Lw):
            yield {"part": "sequence", "word": list(word), "seed": seed}
    if tier != "quick":
        core = [SEQ_IDS.index(i) for i in SEQ_CORE]
        for word in itertools.product(core, repeat=3):
            if len(set(word)) == 1 or len({SEQ_LETTERS[k]["fn"] for k in word}) == 3:
                continue  # length 3: words that return to a routine or stay within two routines
            yield {"part": "sequence", "word": list(word), "seed": seed}


_SEQ_FRESH = {}


def run_sequence(case):
    import json as _json

    R = Result()
    seed = case["seed"]
    names = [SEQ_IDS[k] for k in case["word"]]
    payload = X3.fresh_child(_seq_eval, case, Y.SEQ_MODS)
    if "err" in payload:
        R.fail(f"call sequence {names} raised {payload['err']}", sig={"part": "sequence", "exception": True})
        return R
    for k in set(case["word"]):
        if (seed, k) not in _SEQ_FRESH:
            one = X3.fresh_child(_seq_eval, {"seed": seed, "word": [k]}, Y.SEQ_MODS)
            if "err" in one:
                R.fail(f"single call {SEQ_IDS[k]} raised {one['err']}", sig={"part": "sequence", "exception": True})
                return R
            _SEQ_FRESH[(seed, k)] = _json.dumps(one["ok"][0], sort_keys=True)
    states = set()
    nel = 0
    for pos_, (k, got) in enumerate(zip(case["word"], payload["ok"])):
        lt = SEQ_LETTERS[k]
        g = _json.dumps(got, sort_keys=True)
        if g != _SEQ_FRESH[(seed, k)]:
            R.fail(f"call #{pos_ + 1} ({lt['id']}: {lt['fn']}) of the sequence {names} differs from the same call made first in a fresh process (earlier calls: {names[:pos_]})",
                   sig={"part": "sequence", "fn": lt["fn"], "position": "later" if pos_ else "first"}, exp=_SEQ_FRESH[(seed, k)][:300], obs=g[:300])
        states.add(g[:4000])
        nel += len(g) // 20
    R.outcome(sorted(states), nd=9)
    R.states = len(case["word"]) + 1
    R.transitions = len(case["word"])
    R.elem = nel
    R.nontrivial = True
    return R


# ----------------------------------------------------------------------------------------------------------
def subs(tier, seed):
    q = tier == "quick"
    return [
        Sub("C15.pr", gen_pr, run_pr,
            rule="every field of {-1,0,1}^(N d) minus 0 for (N,d) in {(3,2),(2,3),(2,2),(1,2),(1,3)}" + ("" if q else ",(4,2),(3,3)")
                 + " and a 5-letter per-particle core for (3,3)" + ("" if q else ",(4,3)") + ", with unit and graded (0.5,1,3,0.75) magnitudes; "
                 "uniform / single-site / alternating fields for N in {2,5,6}; formula, [1/N,1], exact invariance under x2, x1/2, x-1, "
                 "1e-12 under x3, x1e-3, x1e4; non-trivial = N > 1"),
        Sub("C15.alignment", gen_neigh, run_alignment,
            rule="ALL neighbour topologies of N=2,3" + ("" if q else ",4") + " (each particle a non-empty set of others) x both list orders x "
                 "field blocks (all of {-1,0,1}^(Nd) for (3,2),(2,2),(2,3)" + ("" if q else ",(3,3); (4,2) on 16 core topologies")
                 + "; 5-letter core for (3,3)" + ("" if q else ",(4,2) on all 2401 topologies,(4,3) on 16 core topologies; N=4 ascending order only") + "); every particle's value compared"),
        Sub("C15.pq", gen_neigh, run_pq, rule="same enumeration; value = sum dots / sum |dots|, range [-1,1]; fields with all dots zero skipped"),
        Sub("C15.divcurl", gen_divcurl, run_divcurl,
            rule="ALL topologies of N=2,3" + ("" if q else " (N=4 with <=1 deviation)") + " x {2D,3D} x {orthogonal, triclinic} x all masks x list order; per case "
                 "4 linear fields u = A r (identity, antisymmetric, shear, generic; closed forms on open boundaries) + 4 special + 3 core fields"),
        Sub("C15.vibrability", gen_vib, run_vib,
            rule="eigenvector matrices {identity, reversed, Householder, non-orthogonal} x column subsets (modes) x frequency maps over {1,2,0.5}; "
                 "(N,d) = (2,2) complete" + ("; (3,2),(2,3) selected mode counts" if q else "; (2,3) complete; (3,2),(3,3) selected mode counts")),
        Sub("C15.decomp", gen_decomp, run_decomp,
            rule="every field of {-1,0,1}^(N d) for (3,2),(2,2),(1,2)" + ("" if q else ",(4,2),(3,3)") + ", core for (3,3),(2,3), 4 linear fields u = A r x {cubic, rectangular} box x "
                 "2 wave-vector lists (with and without equal-|q| groups); equality with reference transforms and the identities L||q, T.q=0, "
                 "L+T=FFT, S=S_L+S_T, group means, CSV; non-trivial = both parts non-zero"),
        Sub("C15.fft_corr", gen_corr, run_corr,
            rule="E2: BFS over frame-append histories, " + ("3 field letters, T<=3" if q else "4 field letters, T<=4") + " (split by first letter), x {2D,3D} x 2 wave-vector "
                 "lists x {even, uneven} timesteps x {static, moving} positions x dt; invariant in every state: FFT/T_FFT/L_FFT tables == reference time "
                 "correlation (C14 model) of the reference transforms, C(0)==1, time axis, .npy files, spectra file"),
        Sub("C15.forms", gen_forms, run_forms,
            rule="round 4 - L5: every field of {-1,0,1}^(N d) for (3,2),(2,3) stored as float32 / int64 / int32 / int8 (PR; alignment and phase quotient on 8 + 4 topologies); "
                 "divergence / curl (N=3" + ("" if q else ",4") + ", {2D,3D} x {orthogonal, triclinic} x all masks x " + ("6" if q else "12") + " topologies) with the field as float32 / int64 / int32 / "
                 "int8, positions Fortran-ordered, ppp as list / int32 / int8; vibrability with float32 / integer eigenvector matrices and integer frequencies; decomposition and "
                 "fft_corr with integer / float32 fields.  L7: divergence / curl, decomposition and fft_corr with particles displaced by whole cell vectors n H, n in {0,+2,-3,+4} per "
                 "particle and axis (periodic axes only; fft_corr: frame 0 folded, later frames unfolded) - reference AND equality with the folded input.  L8: dt = 0.0 / 0.  Coverage gaps: "
                 "vector_decomposition_sq(outputfile ending in .csv / plain / dotted / '.csv.bak'), vector_fft_corr(outputfile '' - tables only, no file demanded - and dotted).  Real fields only",
            bounds={"dtypes": Y.FIELD_DTYPES, "unwrap_n": Y.UNWRAP_N}),
        Sub("C15.dilation", gen_dilation, run_dilation,
            rule="L9 absolute scale: divergence / curl with positions, cell and field multiplied by 2^-33 and 2^27 (N in {3,4} x {2D,3D} x {orthogonal, TILTED} x all masks x 6 "
                 "topologies x 11 fields): values / scale^2 == undilated library values == reference (1e-9); every field of {-1,0,1}^(N d) (graded magnitudes) for (3,2),(2,3) "
                 "multiplied by 2^-40 (norms ~1e-12) on 4 topologies: PR and phase quotient unchanged (1e-12), alignment == 2^-80 x alignment (exact); vibrability with eigenvectors "
                 "x 2^-40 and frequencies x scale.  The Fourier-space routines round to 8 decimals (documented): not scale-covariant, not part of this slice",
            bounds={"scales": ["2^-33", "2^27"], "tiny_norm": "2^-40"}),
        Sub("C15.sequence", gen_sequence, run_sequence,
            rule="L6 explicit-state search over CALL SEQUENCES: all words of length <= 2 over " + ("18" if q else "22 complete calls and all words of length 3 over a core of 13 (that return to a routine "
                 "or stay within two routines)") + " complete calls (PR: same shape / other content, same size / "
                 "other shape; alignment and phase quotient: the same neighbour-file NAME with two contents, other field; divergence-curl: same cell diagonal / tilted, other "
                 "mask, 2D after 3D; vibrability: same modes / other frequencies; decomposition: same wave vectors / other box, same box / other list, other field with the same output "
                 "name, 2D; fft_corr: same first and last timestep / other interior, other fields with the same output prefix), each word in a forked child with re-imported library "
                 "modules, output files of earlier calls left in place; every call must return (and write) bit for bit what the same call does when made first in a fresh child",
            bounds={"depth": 2 if q else 3, "letters": 18 if q else len(SEQ_LETTERS)}),
        Sub("C15.scale", gen_scale, run_scale,
            rule="SIZE enumeration (one fixed generic value pattern per size): PR / alignment / phase quotient / divergence-curl with N in "
                 + str(SCALE_N) + " x {2D,3D} x ragged harness-written lists {max coordination at the first / last particle only, formula, one "
                 "particle with 70 or 200 (= reader Nmax) neighbours, first particle with exactly one} (divcurl: x {orthogonal, triclinic} x "
                 + ("3 masks" if q else "all masks") + "); vibrability with N in {64,257} and " + ("5 of the " if q else "all ") + "mode counts in "
                 + str(SCALE_NQ) + "; vector_decomposition_sq with wave-vector lists of length " + str(SCALE_NQ) + " (the vectors of smallest modulus) x "
                 "{rectangular, cubic} box x N in " + ("{5,65}" if q else "{5,65,130}") + "; vector_fft_corr with (frames, wave vectors) in "
                 + ("[(3,129),(3,257),(65,63),(64,65)]" if q else "[(3,129),(3,257),(65,63),(64,65),(65,129),(63,64),(129,65)]")
                 + " x {even, every-gap-different, even-except-last-gap} timesteps, positions and fields different in every frame; every entry "
                 "compared with the loop references (time correlation: vectorised C14 model of the reference transforms)",
            bounds={"N": SCALE_N, "wave_vectors": SCALE_NQ, "frames": [3, 64, 65] if q else [3, 63, 64, 65, 129]}),
    ]
