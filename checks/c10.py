"""C10 - 2D bond-orientational order equals the l-fold definition (E1 over neighbour topologies and signed weights,
perfect lattices, rotation covariance, E2 over frame histories for time average / correlations).

Round-4 slices (docs/STRENGTHEN_TASK2.md; alphabets in mc/ref/c10y.py, machinery shared with checks/c09.py): C10.frames (frame classes), C10.files (output_phi,
time_average(outputfile), csv files), C10.types (storage forms, unwrapped / dilated coordinates, zero options), C10.sequence words, dilated lattices in C10.lattice."""
import itertools
import math
import os

import numpy as np

import checks.c09 as C9
from checks.c09 import (check_spatial, check_time, core_topologies, distinct_orders, scale_inputs, scale_lists, scale_nmax, scale_sig,
                        screen_margin)
from mc import alphabets as A
from mc.harness import Result, Sub, digest
from mc.ref import boo as B
from mc.ref import c10x as X2
from mc.ref import c10y as Y2
from mc.ref.base import close, maxdiff, mk_snaps, pair_table, write_neighbor_file, write_weight_file

ASSUMPTIONS = [
    "bonds follow the C02 minimum-image contract; configurations with a periodic fractional bond component closer than "
    "1e-7 to a half-cell tie are screened out before the library runs",
    "reference psi_l = sum_j A_ij ((x+iy)/r)^l / sum_j |A_ij| (de Moivre, no atan2); float tolerance rtol 1e-9 / atol 1e-11; "
    "modulus <= 1 + 1e-12; perfect lattices |psi_l| = 1 within 1e-12",
    "weights are floats (alphabet {1, 2, -1}, constants; single exact zeros and integer tokens in C10.frames / C10.types) whose absolute values have a positive row sum; every particle has >= 1 neighbour and cn <= Nmax",
    "rotation covariance is checked with open boundaries (ppp = 0,0) about the origin, implementation vs implementation, "
    "atol 1e-10",
    "time_average (as in C16, not more): window w = floor(period / (step difference * dt)) in rational arithmetic, "
    "1 <= w <= F-1, evenly spaced frames; every returned row n is the mean over frames n..n+w-1, rows are the consecutive "
    "starts 0,1,.. (at least one, at most F-w+1), the reported index lies within 1/2 of n+(w-1)/2; "
    "average_complex=False means mean modulus times exp(i mean phase) with the principal phase in (-pi, pi]; particles "
    "with a frame value closer than 1e-6 to the branch cut or to 0 are skipped for that mode",
    "spatial_corr returns the frame mean of the conditional g(r) table (columns r, gr, gA with gA weighted by "
    "Re psi_j conj psi_i); equation (5) of the documentation is this gA column; bins holding a pair closer than 1e-9 to "
    "an edge are compared as intervals (gr) or skipped (gA)",
    "time_corr: equal timestep differences -> all time origins averaged, otherwise origin 0 only; C(0) == 1.0",
    "Nmax below the largest coordination number (scale slice only): read_neighbors documents Nmax as 'the maximum number of neighboring particles to "
    "consider'; the first Nmax listed neighbours and their weights are used (normalised by the sum of |weights| kept) - resolved towards the implementation",
    "scale slice: inputs of 63..257 particles / 64..257 frames are compared with vectorised numpy references (mc/ref/c10x.py, mc/ref/c09x.py; they agree with the "
    "loop references to 1e-14); placements with a periodic fractional pair component within 1e-9 of a half-cell tie or a pair within 1e-9 of a bin edge are "
    "replaced by the next hash table; library-written Voronoi edge lengths may contain 0.000000 entries: accepted as long as the row sum of |weights| is positive",
    "call sequences: a call on an object that has served other calls must return what the same call returns on a fresh object (rtol 1e-12)",
    "call words (round 4): as in C09 - every call of a word made in one forked child (library modules re-imported) returns bit for bit what it returns as the first call of a fresh child",
    "frame classes (round 4): only the tilt factor changes between frames (boxlength is asserted constant); each frame is analysed with its own cell, its own neighbour / weight table "
    "width and its own weights; whether a frame contains negative weights is a property of that frame; a single exact zero weight is inside the domain (the bond drops out of numerator "
    "and denominator), a row of zeros is outside; weights may be written as signed integer tokens ('-1 2 1')",
    "storage forms (round 4): as in C09 (ppp list / tuple / bool / int32, float32 positions at 1e-4 for psi_l only, Fortran / strided positions, l as np.int64, Nmax as np.int32, "
    "unwrapped coordinates, dilation by 2^-33 / 2^27 with spatial_corr left to C13, time_corr(dt = 0.0 / 0) as a value)",
    "output files (round 4): output_phi and time_average(outputfile) write <name>.npy (np.save appends '.npy' unless present) holding the returned complex array bit for bit, and "
    "<outputfile>.snapshot_id.dat = header 'middle_snapshot_id' + the returned ids as integers; the returned values do not depend on whether a file is requested",
]

LS = list(range(1, 13))


# ------------------------------------------------------------------------------------------ geometry
def cell2(name):
    return A.hmat_tri([6.0, 7.0], {"orth": [0.0], "tri": [1.5], "tri2": [-2.0]}[name])


SPECIAL = [[1.0, 1.0], [5.0, 1.0], [1.0, 3.5], [1.0, 6.0]]  # bonds along -x (wrapped, theta = pi), +y, -y (wrapped)


def positions(seed, n, geom, H, tag=""):
    if geom == "special":
        return [list(p) for p in SPECIAL[:n]]
    fr = np.array(A.generic_points(seed, n, 2, tag=f"c10{geom}{tag}_{n}_"))
    if geom == "cluster":
        fr = ((fr - 0.5) * 0.45) % 1.0
    return (fr @ np.asarray(H)).tolist()


def weights_for(nl, wmode):
    if wmode == "none":
        return None
    if wmode == "equal":
        return [[2.5] * len(x) for x in nl]
    if wmode == "neg":
        return [[-1.5] * len(x) for x in nl]
    if wmode == "two":
        return [[1.0 if (i + k) % 2 == 0 else 3.0 for k in range(len(x))] for i, x in enumerate(nl)]
    if wmode == "signed":
        return [[[1.0, 2.0, -1.0][(i + 2 * k) % 3] for k in range(len(x))] for i, x in enumerate(nl)]
    raise ValueError(wmode)


def mkcase(seed, n, nl, l, wmode, cell, geom, ppp=(1, 1), nmax="default", order="asc", wts=None, phi_file=False):
    H = cell2(cell)
    return {"N": n, "nl": nl, "l": l, "wmode": wmode, "cell": cell, "geom": geom, "H": H.tolist(), "ppp": list(ppp),
            "pos": positions(seed, n, geom, H), "nmax": nmax, "order": order,
            "wts": wts if wts is not None else weights_for(nl, wmode), "phi_file": phi_file}


def build(H, ppp, l, frames, nls, wts=None, steps=None, nmax=None, output_phi=""):
    from PyMatterSim.static.boo import boo_2d

    n = len(frames[0])
    write_neighbor_file("c10_nb.dat", nls)
    if wts is not None:
        write_weight_file("c10_w.dat", wts, header="id   cn   edgelengthlist")
    snaps = mk_snaps(frames, H, [1] * n, steps=steps)
    kw = {} if nmax is None else {"Nmax": nmax}
    b = boo_2d(snaps, l, "c10_nb.dat", weightsfile="c10_w.dat" if wts is not None else "", ppp=np.array(ppp), output_phi=output_phi, **kw)
    return b, snaps


# ------------------------------------------------------------------------------------------ C10.topology
def weighted_topologies3():
    """Every neighbour topology of 3 particles with every assignment of weights {1, 2, -1} to its bonds (15^3)."""
    per = []
    for i in range(3):
        others = [j for j in range(3) if j != i]
        opts = []
        for r in (1, 2):
            for s in itertools.combinations(others, r):
                for w in itertools.product([1.0, 2.0, -1.0], repeat=r):
                    opts.append((list(s), list(w)))
        per.append(opts)
    for combo in itertools.product(*per):
        yield [c[0] for c in combo], [c[1] for c in combo]


def gen_topology(tier, seed):
    t3 = list(A.topologies(3))
    for nl, o in distinct_orders(t3, ("asc", "desc")):
        for l in LS:
            for wmode in ("none", "equal", "two", "signed", "neg"):
                for cell in ("orth", "tri"):
                    for geom in ("generic", "special"):
                        yield mkcase(seed, 3, nl, l, wmode, cell, geom, order=o, phi_file=(l == 6 and wmode == "none"))
    for nl in t3:
        for l in (1, 6):
            for m in A.masks(2)[1:]:
                for cell in ("orth", "tri"):
                    for geom in ("generic", "cluster"):
                        yield mkcase(seed, 3, nl, l, "signed", cell, geom, ppp=m)
            for wmode in ("none", "signed"):
                yield mkcase(seed, 3, nl, l, wmode, "tri2", "generic")
                yield mkcase(seed, 3, nl, l, wmode, "orth", "cluster", nmax="tight")
    # every weighted topology of three particles over the weight alphabet {1, 2, -1}
    for l in ((1, 6) if tier == "quick" else LS):
        for nl, w in weighted_topologies3():
            yield mkcase(seed, 3, nl, l, "enum", "tri" if l % 2 else "orth", "generic", wts=w)
    if tier == "quick":
        for nl in A.topologies(4):
            yield mkcase(seed, 4, nl, 6, "none", "orth", "generic")
        core = core_topologies(4, 97)
        for nl, o in distinct_orders(core, ("asc", "desc", "rot")):
            for l in LS:
                for wmode in ("none", "equal", "signed"):
                    cell = "tri" if (l + len(wmode)) % 2 else "orth"
                    yield mkcase(seed, 4, nl, l, wmode, cell, "generic" if o != "rot" else "special", order=o)
    else:
        for nl in A.topologies(4):
            for l in LS:
                for wmode in ("none", "equal", "signed"):
                    for cell in ("orth", "tri"):
                        yield mkcase(seed, 4, nl, l, wmode, cell, "generic")
        for nl, o in distinct_orders(A.topologies(4), ("desc", "rot")):
            for l, wmode, cell, geom in ((6, "signed", "tri", "special"), (5, "two", "orth", "cluster")):
                yield mkcase(seed, 4, nl, l, wmode, cell, geom, order=o, nmax="tight" if l == 5 else "default")


def run_topology(case):
    R = Result()
    H = np.array(case["H"], float)
    n, l, nl, W = case["N"], case["l"], case["nl"], case["wts"]
    pos = np.array(case["pos"], float)
    has_neg = W is not None and any(x < 0 for r in W for x in r)
    sig = {"N": n, "cell": case["cell"], "geom": case["geom"], "wmode": case["wmode"], "masked": bool(0 in case["ppp"]),
           "negative_weights": has_neg, "nmax": case["nmax"]}
    if screen_margin([pos], H, case["ppp"]) < 1e-7:
        return R.screen()
    nmax = max(len(x) for x in nl) if case["nmax"] == "tight" else None
    b, snaps = build(H, case["ppp"], l, [pos.tolist()], [nl], wts=[W] if W is not None else None, nmax=nmax,
                     output_phi="c10_phi" if case["phi_file"] else "")
    psi = B.ref_psi(pos, H, case["ppp"], nl, l, W)
    got = b.ParticlePhi
    sub = "C10.weights" if W is not None else "C10.psi"
    if got.shape != (1, n) or got.dtype != np.complex128:
        R.fail(f"ParticlePhi shape/dtype {got.shape} {got.dtype}", sub=sub, sig=dict(sig, clause="shape"))
        return R
    if not close(got[0], psi):
        R.fail(f"psi_l differs from the reference by {maxdiff(got[0], psi):.3e}", sub=sub, sig=dict(sig, clause="psi"), exp=psi, obs=got[0])
    if np.any(np.abs(got) > 1 + 1e-12):
        R.fail("modulus exceeds one", sub="C10.modulus", sig=dict(sig, clause="modulus"), obs=np.abs(got[0]))
    if case["wmode"] in ("equal", "neg"):
        b0, _ = build(H, case["ppp"], l, [pos.tolist()], [nl], wts=None, nmax=nmax)
        sgn = 1.0 if case["wmode"] == "equal" else -1.0
        if not np.allclose(got, sgn * b0.ParticlePhi, rtol=1e-12, atol=1e-13):
            R.fail("equal weights do not reproduce (+-) the unweighted order parameter", sub="C10.weights", sig=dict(sig, clause="equal_weights"))
    if case["phi_file"]:
        back = np.load("c10_phi.npy")
        os.remove("c10_phi.npy")
        if not np.array_equal(back, got):
            R.fail("output_phi file differs from ParticlePhi", sub="C10.psi", sig=dict(sig, clause="file"))
    if not np.array_equal(snaps.snapshots[0].positions, pos):
        R.fail("snapshot positions modified", sub="C10.psi", sig=dict(sig, clause="input_modified"))
    R.outcome(got, nd=9)
    R.nontrivial = bool(np.abs(psi).max() > 1e-9)
    R.elem = n
    return R


# ------------------------------------------------------------------------------------------ C10.lattice
def lattice(name, variant):
    """(positions, H, fold) of a perfect periodic lattice with nearest-neighbour distance 1."""
    s3 = math.sqrt(3.0)
    if name == "square":
        pts = [[i, j] for i in range(4) for j in range(4)]
        H = [[4.0, 0.0], [1.0 if variant == "tri" else 0.0, 4.0]]
        return np.array(pts, float), np.array(H), 4
    if name == "triangular":
        if variant == "tri":
            pts = [[i + 0.5 * j, j * s3 / 2] for i in range(4) for j in range(4)]
            H = [[4.0, 0.0], [2.0, 2 * s3]]
        else:
            pts = [[i + b[0], j * s3 + b[1]] for i in range(4) for j in range(2) for b in ([0, 0], [0.5, s3 / 2])]
            H = [[4.0, 0.0], [0.0, 2 * s3]]
        return np.array(pts, float), np.array(H), 6
    if name == "honeycomb":
        base = [[0, 0], [0, 1.0], [s3 / 2, 1.5], [s3 / 2, 2.5]]
        pts = [[i * s3 + b[0], j * 3.0 + b[1]] for i in range(3) for j in range(2) for b in base]
        H = [[3 * s3, 0.0], [0.0, 6.0]]
        return np.array(pts, float), np.array(H), 3
    raise ValueError(name)


def gen_lattice(tier, seed):
    for name in ("square", "triangular", "honeycomb"):
        for variant in ("orth", "tri"):
            if name == "honeycomb" and variant == "tri":
                continue
            for shift in (False, True):
                for scale in (1.0, 1.25, 2.0 ** -33, 2.0 ** 27):  # the last two: cell edge ~1e-9 (SI units) / ~1e9, bond directions unchanged
                    for l in LS:
                        if scale not in (1.0, 1.25) and not (shift and l in (3, 4, 6, 12)):
                            continue
                        yield {"kind": "periodic", "name": name, "variant": variant, "shift": shift, "scale": scale, "l": l}
    for l in LS:
        for ia, alpha in enumerate((0.0, 0.3, 2 * math.pi / 7)):
            for wmode in ("none", "pos"):
                yield {"kind": "star", "l": l, "alpha": alpha, "ia": ia, "wmode": wmode}
        for dil in (-33, 27):
            yield {"kind": "star", "l": l, "alpha": 0.3, "ia": 1, "wmode": "pos", "dil": dil}


def run_lattice(case):
    R = Result()
    l = case["l"]
    if case["kind"] == "periodic":
        pos, H, fold = lattice(case["name"], case["variant"])
        pos, H = pos * case["scale"], H * case["scale"]
        ppp = [1, 1]
        if case["shift"]:
            pos = pos + np.array([0.37, -1.9]) * case["scale"]
        _, dist = pair_table(pos, H, ppp)
        n = len(pos)
        nl = [[j for j in range(n) if j != i and dist[i, j] < case["scale"] * (1 + 1e-6)] for i in range(n)]
        if any(len(x) != {4: 4, 6: 6, 3: 3}[fold] for x in nl):
            raise RuntimeError("harness lattice neighbour list is wrong")
        W = None
        centre = list(range(n))
        sig = {"kind": "periodic", "lattice": case["name"], "variant": case["variant"], "multiple": l % fold == 0}
    else:
        fold = l
        ang = [case["alpha"] + 2 * math.pi * k / l for k in range(l)]
        rad = [1.0 + 0.1 * (k % 3) for k in range(l)]
        pos = np.array([[0.0, 0.0]] + [[r * math.cos(a), r * math.sin(a)] for r, a in zip(rad, ang)]) + 10.0
        H = np.diag([20.0, 20.0])
        pos, H = pos * 2.0 ** case.get("dil", 0), H * 2.0 ** case.get("dil", 0)
        ppp = [0, 0]
        n = len(pos)
        nl = [list(range(1, n))] + [[0] for _ in range(1, n)]
        W = None if case["wmode"] == "none" else [[1.7] * (n - 1)] + [[0.4] for _ in range(1, n)]
        centre = [0]
        sig = {"kind": "star", "wmode": case["wmode"], "multiple": True}
    b, _ = build(H, ppp, l, [pos.tolist()], [nl], wts=[W] if W is not None else None, nmax=12)
    got = b.ParticlePhi[0]
    psi = B.ref_psi(pos, H, ppp, nl, l, W)
    if not close(got, psi):
        R.fail(f"psi_l on the lattice differs from the reference by {maxdiff(got, psi):.3e}", sub="C10.psi", sig=dict(sig, clause="psi"))
    if l % fold == 0:
        mod = np.abs(got[centre])
        if np.any(np.abs(mod - 1.0) > 1e-12):
            R.fail(f"|psi_{l}| on a perfect {fold}-fold lattice is {mod[:3].tolist()}, not 1", sub="C10.lattice", sig=dict(sig, clause="modulus_one"), obs=mod[:4])
        if case["kind"] == "star" and abs(got[0] - complex(math.cos(l * case["alpha"]), math.sin(l * case["alpha"]))) > 1e-12:
            R.fail("psi_l of an l-fold star is not exp(i l alpha)", sub="C10.lattice", sig=dict(sig, clause="star_phase"))
    if np.any(np.abs(got) > 1 + 1e-12):
        R.fail("modulus exceeds one", sub="C10.modulus", sig=dict(sig, clause="modulus"))
    R.outcome([got[centre[0]], l % fold == 0], nd=9)
    R.elem = len(centre)
    return R


# ------------------------------------------------------------------------------------------ C10.sources
def parse_nfile(fn, n, conv):
    """Independent reader of the documented neighbour/weight file format: list (frames) of list (id order) of lists."""
    lines = [x for x in open(fn).read().split("\n") if x.strip()]
    frames, k = [], 0
    while k < len(lines):
        k += 1  # header
        fr = [None] * n
        for _ in range(n):
            it = lines[k].split()
            k += 1
            fr[int(it[0]) - 1] = [conv(x) for x in it[2:2 + int(it[1])]]
        frames.append(fr)
    return frames


def gen_sources(tier, seed):
    """Neighbour (and weight) files produced by the library's own neighbour definitions, two frames."""
    box = [6.0, 6.0]
    for cell in ("orth", "tri"):
        H = A.hmat_tri(box, [0.0] if cell == "orth" else [1.5])
        sites = [np.array(A.jl_points(seed, 3, 2, box, tag=f"c10s{f}")) @ (H / 6.0) for f in range(2)]
        for size in (9, 8, 7):
            for keep in itertools.combinations(range(9), size):
                frames = [s[list(keep)].tolist() for s in sites]
                for src in (["nnearest", 1], ["nnearest", 3], ["nnearest", 6], ["cutoff", 2.9], ["voronoi", "weighted"], ["voronoi", "plain"]):
                    for l in ((4, 6) if tier == "quick" else LS):
                        if tier == "quick" and size == 7 and (src[0] != "voronoi" or l != 6):
                            continue
                        yield {"cell": cell, "H": H.tolist(), "frames": frames, "src": src, "l": l, "ppp": [1, 1]}


def run_sources(case):
    from PyMatterSim.neighbors.calculate_neighbors import Nnearests, cutoffneighbors
    from PyMatterSim.neighbors.freud_neighbors import cal_neighbors

    R = Result()
    H = np.array(case["H"], float)
    frames, l, ppp = case["frames"], case["l"], case["ppp"]
    n = len(frames[0])
    kind, arg = case["src"]
    sig = {"cell": case["cell"], "source": kind, "arg": str(arg)}
    snaps = mk_snaps(frames, H, [1] * n)
    wfile = ""
    if kind == "nnearest":
        Nnearests(snaps, N=int(arg), ppp=np.array(ppp), fnfile="c10_src.dat")
        nfile = "c10_src.dat"
    elif kind == "cutoff":
        cutoffneighbors(snaps, r_cut=float(arg), ppp=np.array(ppp), fnfile="c10_src.dat")
        nfile = "c10_src.dat"
    else:
        cal_neighbors(snaps, "c10_vor")
        nfile = "c10_vor.neighbor.dat"
        wfile = "c10_vor.edgelength.dat" if arg == "weighted" else ""
    nls = parse_nfile(nfile, n, lambda x: int(x) - 1)
    wts = parse_nfile(wfile, n, float) if wfile else None
    if any(i in x for fr in nls for i, x in enumerate(fr)):
        return R.screen()  # Voronoi of a small periodic system: a particle neighbouring its own image has no bond direction
    if any(len(x) == 0 for fr in nls for x in fr) or (wts is not None and any(sum(abs(v) for v in x) == 0 for fr in wts for x in fr)):
        return R.screen()  # a particle without neighbours is outside the property's domain
    from PyMatterSim.static.boo import boo_2d

    b = boo_2d(snaps, l, nfile, weightsfile=wfile, ppp=np.array(ppp), Nmax=max(len(x) for fr in nls for x in fr))
    ref = np.array([B.ref_psi(frames[f], H, ppp, nls[f], l, wts[f] if wts is not None else None) for f in range(len(frames))])
    if b.ParticlePhi.shape != ref.shape or not close(b.ParticlePhi, ref):
        R.fail(f"psi_l from a library-written {kind} neighbour file differs from the reference by {maxdiff(b.ParticlePhi, ref):.3e}",
               sub="C10.weights" if wts is not None else "C10.psi", sig=dict(sig, clause="psi"), exp=ref, obs=b.ParticlePhi)
    if np.any(np.abs(b.ParticlePhi) > 1 + 1e-12):
        R.fail("modulus exceeds one", sub="C10.modulus", sig=dict(sig, clause="modulus"))
    R.outcome(b.ParticlePhi, nd=9)
    R.nontrivial = bool(np.abs(ref).max() > 1e-9)
    R.elem = ref.size
    return R


# ------------------------------------------------------------------------------------------ C10.rotation
ALPHAS = [2 * math.pi / 7, 1.0, math.pi / 3]


def gen_rotation(tier, seed):
    t3 = list(A.topologies(3))
    topo4 = list(A.topologies(4)) if tier == "thorough" else core_topologies(4, 97)
    for n, topos in ((3, t3), (4, topo4)):
        for nl in topos:
            for l in LS:
                if n == 4 and tier == "thorough" and l not in (1, 5, 6, 12):
                    continue
                for ia in range(3):
                    for wmode in ("none", "signed"):
                        c = mkcase(seed, n, nl, l, wmode, "orth", "generic", ppp=(0, 0))
                        c["ia"] = ia
                        yield c


def run_rotation(case):
    R = Result()
    H = np.array(case["H"], float)
    n, l, nl, W = case["N"], case["l"], case["nl"], case["wts"]
    pos = np.array(case["pos"], float)
    al = ALPHAS[case["ia"]]
    sig = {"N": n, "wmode": case["wmode"]}
    rot = np.array([[math.cos(al), -math.sin(al)], [math.sin(al), math.cos(al)]])
    pos2 = pos @ rot.T
    wts = [W] if W is not None else None
    b1, _ = build(H, [0, 0], l, [pos.tolist()], [nl], wts=wts)
    p1 = b1.ParticlePhi.copy()
    b2, _ = build(H, [0, 0], l, [pos2.tolist()], [nl], wts=wts)
    p2 = b2.ParticlePhi
    exp = p1 * complex(math.cos(l * al), math.sin(l * al))
    if not np.allclose(p2, exp, rtol=0, atol=1e-10):
        R.fail(f"rotating by alpha does not multiply psi_l by exp(i l alpha): off by {maxdiff(p2, exp):.3e}", sub="C10.rotation",
               sig=dict(sig, clause="covariance"), exp=exp, obs=p2)
    psi = B.ref_psi(pos2, H, [0, 0], nl, l, W)
    if not close(p2[0], psi):
        R.fail("psi_l of the rotated system differs from the reference", sub="C10.psi", sig=dict(sig, clause="psi_rotated"))
    R.outcome(p2, nd=9)
    R.nontrivial = bool(np.abs(p1).max() > 1e-9)
    R.elem = n
    return R


# ------------------------------------------------------------------------------------------ C10.history (E2)
TOPO_H = [
    [[1, 2, 3], [0, 2], [0, 1, 3], [2]],
    [[1], [2], [3], [0]],
    [[3, 1], [0], [1, 0, 3], [2, 0]],
]
ALPHABETS = {
    # letters (configuration, topology, timestep increment); dt; averaging periods (decimal literals)
    "mixed": {"letters": [[0, 0, 100], [1, 1, 100], [2, 2, 300], [0, 1, 300], [1, 1, 300]], "dt": 0.002, "periods": [], "depth": (3, 4)},
    "even02": {"letters": [[0, 0, 100], [1, 2, 100], [2, 1, 100]], "dt": 0.002, "periods": ["0.2", "0.3", "0.4", "0.5", "0.6"], "depth": (4, 5)},
    "even03": {"letters": [[2, 0, 3], [0, 1, 3], [1, 2, 3]], "dt": 0.1, "periods": ["0.3", "0.6", "0.7", "0.9", "1.2"], "depth": (4, 5)},
}


def gen_history(tier, seed):
    ls = (1, 6) if tier == "quick" else (1, 2, 4, 6, 12)
    for l in ls:
        for cell in ("orth", "tri", "trivar"):
            for wmode in ("none", "signed"):
                for alpha in ("mixed", "even02", "even03"):
                    H = cell2("tri" if cell == "trivar" else cell)
                    # "trivar": every configuration letter carries its own cell (same edge lengths, tilt x 1, -1, 1/2): sheared trajectory
                    Hc = [np.diag(np.diag(H)) + (H - np.diag(np.diag(H))) * (f if cell == "trivar" else 1.0) for f in (1.0, -1.0, 0.5)]
                    cfgs = [positions(seed, 4, "cluster", Hc[c], tag=f"h{c}") for c in range(3)]
                    a = ALPHABETS[alpha]
                    yield {"l": l, "cell": cell, "H": H.tolist(), "H_cfgs": [h.tolist() for h in Hc], "ppp": [1, 1] if alpha != "even03" else [0, 1], "wmode": wmode, "cfgs": cfgs,
                           "alpha": alpha, "depth": a["depth"][0 if tier == "quick" else 1], "rdelta": 0.5 if alpha == "mixed" else 0.3, "step0": 700}


def check_time_average(R, sig, b, series, period, dstep, dt):
    """series: reference psi (F, N).  Both averaging modes; oracle as stated in C16, not more."""
    F, n = series.shape
    w = B.ref_window_len(period, dstep, dt)
    if not 1 <= w <= F - 1:
        return 0
    elem = 0
    for cplx in (True, False):
        sg = dict(sig, average_complex=cplx, weven=(w % 2 == 0))
        avg, ids = b.time_average(time_period=float(period), dt=dt, average_complex=cplx)
        avg, ids = np.asarray(avg), np.asarray(ids)
        rows = avg.shape[0]
        if avg.ndim != 2 or avg.shape[1] != n or not 1 <= rows <= F - w + 1 or ids.shape != (rows,):
            R.fail(f"time_average returned shape {avg.shape} / {ids.shape} for F={F}, window {w}", sub="C10.time_average", sig=dict(sg, clause="rows"))
            continue
        for r in range(rows):
            win = series[r:r + w]
            if cplx:
                exp = win.mean(axis=0)
                ok = np.ones(n, bool)
            else:
                ph = np.array([[math.atan2(z.imag, z.real) for z in row] for row in win])
                exp = np.abs(win).mean(axis=0) * np.exp(1j * ph.mean(axis=0))
                ok = (np.abs(win).min(axis=0) > 1e-6) & ((math.pi - np.abs(ph)).min(axis=0) > 1e-6)
            elem += int(ok.sum())
            if not close(avg[r][ok], exp[ok]):
                R.fail(f"time-averaged row {r} (window {w}) differs from the window mean by {maxdiff(avg[r][ok], exp[ok]):.3e}", sub="C10.time_average",
                       sig=dict(sg, clause="mean"), exp=exp, obs=avg[r])
            if abs(float(ids[r]) - (r + (w - 1) / 2.0)) > 0.5 + 1e-12:
                R.fail(f"middle snapshot id of row {r} is {ids[r]} for window {w}", sub="C10.time_average", sig=dict(sg, clause="centre"), obs=ids)
    return elem


def run_history(case):
    """Breadth-first search over frame histories (see C09.history): state = sequence of appended frames, rebuilt on a
    fresh boo_2d object and fresh files; all frame-dependent clauses are evaluated in every state."""
    R = Result()
    H = np.array(case["H"], float)
    l, ppp, w = case["l"], case["ppp"], case["rdelta"]
    a = ALPHABETS[case["alpha"]]
    letters, dt = a["letters"], a["dt"]
    cfgs = [np.array(c, float) for c in case["cfgs"]]
    sig = {"cell": case["cell"], "wmode": case["wmode"], "alpha": case["alpha"]}
    Hc = [np.array(h, float) for h in case["H_cfgs"]] if case.get("H_cfgs") else [H] * len(cfgs)
    if min(screen_margin([c], h, ppp) for c, h in zip(cfgs, Hc)) < 1e-7:
        return R.screen()
    refp, wl = {}, {}
    for k, (c, t, _) in enumerate(letters):
        wl[k] = weights_for(TOPO_H[t], case["wmode"])
        refp[k] = B.ref_psi(cfgs[c], Hc[c], ppp, TOPO_H[t], l, wl[k])
    seen = set()
    frontier = [()]
    states = transitions = elem = popl = 0
    outd = []
    for depth in range(1, case["depth"] + 1):
        nxt = []
        for h in frontier:
            for k0 in range(len(letters)):
                hist = h + (k0,)
                transitions += 1
                frames = [cfgs[letters[k][0]] for k in hist]
                nls = [TOPO_H[letters[k][1]] for k in hist]
                wts = None if case["wmode"] == "none" else [wl[k] for k in hist]
                steps = [case["step0"]]
                for k in hist[1:]:
                    steps.append(steps[-1] + letters[k][2])
                Hs = np.array([Hc[letters[k][0]] for k in hist])
                b, snaps = build(Hs, ppp, l, [f.tolist() for f in frames], nls, wts=wts, steps=steps)
                F = len(hist)
                sg = dict(sig, F=min(F, 3))
                ser = np.array([refp[k] for k in hist])
                if b.ParticlePhi.shape != (F, 4) or not close(b.ParticlePhi, ser):
                    R.fail("psi_l of a multi-frame trajectory differs from the per-frame reference (files read frame by frame)",
                           sub="C10.weights" if wts is not None else "C10.psi", sig=dict(sg, clause="frames"), exp=ser, obs=b.ParticlePhi)
                    continue
                d = digest([np.round(b.ParticlePhi.real, 10).tolist(), np.round(b.ParticlePhi.imag, 10).tolist(), [s - steps[0] for s in steps],
                            [f.tolist() for f in frames], [str(x) for x in nls]])
                if d in seen:
                    continue
                seen.add(d)
                states += 1
                nxt.append(hist)
                outd.append(d)
                check_time(R, sg, b.time_corr(dt=dt), ser, steps, dt, False, sub="C10.time")
                ref = B.ref_spatial(frames, Hs, ppp, w, ser, "complex")
                popl = max(popl, check_spatial(R, sg, b.spatial_corr(rdelta=w), ref, False, sub="C10.spatial"))
                elem += F + 2 * len(ref["r"])
                if F >= 2:
                    for per in a["periods"]:
                        elem += check_time_average(R, sg, b, ser, per, letters[hist[1]][2], dt)
                if np.any(np.abs(b.ParticlePhi) > 1 + 1e-12):
                    R.fail("modulus exceeds one", sub="C10.modulus", sig=dict(sg, clause="modulus"))
        frontier = nxt
    R.states, R.transitions = states, transitions
    R.elem = elem
    R.outcome(sorted(outd))
    R.nontrivial = popl >= 2
    return R


# ------------------------------------------------------------------------------------------ C10.scale
# A scale slice enumerates SIZES (particles, frames), not value assignments: one fixed value pattern per size and pattern row.
SCALE_N = {"quick": [64, 65, 130, 257], "thorough": [63, 64, 65, 127, 128, 129, 130, 255, 256, 257]}
SCALE_F = {"quick": [65, 129], "thorough": [64, 65, 129, 257]}
SCALE_PAT = [
    {"p": "g1", "src": "harness", "maxat": "first", "cell": "orthy", "F": 1, "l": 6, "w": "none", "nmax": "tight", "ppp": [1, 1], "steps": "even", "files": True},
    {"p": "g2", "src": "harness", "maxat": "last", "cell": "trivar", "F": 3, "l": 4, "w": "ragged", "nmax": "above", "ppp": [1, 1], "steps": "even"},
    {"p": "g3", "src": "harness", "maxat": "alt", "cell": "tri-", "F": 3, "l": 3, "w": "none", "nmax": "plus1", "ppp": [1, 0], "steps": "uneven", "fine": True},
    {"p": "g4", "src": "harness", "maxat": "last", "cell": "orthy", "F": 1, "l": 12, "w": "ragged", "nmax": "below", "ppp": [1, 1], "steps": "even"},
    {"p": "g5", "src": "harness", "maxat": "alt", "cell": "tri+", "F": 3, "l": 1, "w": "ragged", "nmax": "tight", "ppp": [0, 1], "steps": "even"},
    {"p": "g6", "src": "harness", "maxat": "first", "cell": "trivar", "F": 3, "l": 6, "w": "none", "nmax": "below", "ppp": [1, 1], "steps": "even", "fine": True},
    {"p": "nn", "src": "nnearest", "arg": 6, "cell": "trivar", "F": 3, "l": 6, "w": "none", "nmax": "tight", "ppp": [1, 1], "steps": "even"},
    {"p": "cut", "src": "cutoff", "cell": "orthy", "F": 3, "l": 4, "w": "none", "nmax": "tight", "ppp": [1, 1], "steps": "uneven"},
    {"p": "vorw", "src": "voronoi", "arg": "weighted", "cell": "tri+", "F": 3, "l": 6, "w": "file", "nmax": "tight", "ppp": [1, 1], "steps": "even"},
    {"p": "vor", "src": "voronoi", "arg": "plain", "cell": "orthy", "F": 1, "l": 12, "w": "none", "nmax": "plus1", "ppp": [1, 1], "steps": "even"},
    {"p": "g7", "src": "harness", "maxat": "last", "cell": "tri-", "F": 3, "l": 12, "w": "ragged", "nmax": "plus1", "ppp": [1, 1], "steps": "even", "tier": "thorough"},
    {"p": "g8", "src": "harness", "maxat": "first", "cell": "orthy", "F": 3, "l": 3, "w": "ragged", "nmax": "below", "ppp": [1, 1], "steps": "uneven", "tier": "thorough"},
    {"p": "nn1", "src": "nnearest", "arg": 1, "cell": "tri-", "F": 1, "l": 1, "w": "none", "nmax": "tight", "ppp": [1, 1], "steps": "even", "tier": "thorough"},
    {"p": "cut2", "src": "cutoff", "cell": "trivar", "F": 3, "l": 12, "w": "none", "nmax": "above", "ppp": [1, 1], "steps": "even", "tier": "thorough"},
]


SCALE_DENSE = {"p": "dense", "src": "cutoff", "rc": "dense", "cell": "tri-", "F": 1, "l": 6, "w": "none", "nmax": "above", "ppp": [1, 1], "steps": "even"}


def gen_scale(tier, seed):
    for N in SCALE_N[tier]:
        for pat in SCALE_PAT:
            if pat.get("tier", tier) != tier:
                continue
            yield dict(pat, N=N, seed=seed, kind="particles")
    yield dict(SCALE_PAT[0], N=1000, seed=seed, kind="particles")  # particle ids with four digits in the text files
    yield dict(SCALE_DENSE, N=257, seed=seed, kind="particles")  # dense cutoff lists: ~130 neighbours per particle
    if tier == "thorough":
        yield dict(SCALE_DENSE, N=130, seed=seed, kind="particles", l=4, cell="orthy")
    for F in SCALE_F[tier]:
        for l, w, cell in ((6, "none", "trivar"), (4, "ragged", "orthy")):
            yield {"p": "frames", "kind": "frames", "src": "harness", "maxat": "alt", "cell": cell, "F": F, "l": l, "w": w, "nmax": "tight",
                   "ppp": [1, 1], "steps": "even", "N": 16, "seed": seed}


def check_time_average_vec(R, sig, b, series, windows, dt, where):
    """both averaging modes for every window length in `windows` (frames per window; period = w * 100 steps * dt as a decimal literal)"""
    from fractions import Fraction

    F, n = series.shape
    elem = 0
    for w in windows:
        if not 1 <= w <= F - 1:
            continue
        period = float(Fraction(w) * 100 * Fraction(str(dt)))
        for cplx in (True, False):
            sg = dict(sig, average_complex=cplx, weven=(w % 2 == 0))
            avg, ids = b.time_average(time_period=period, dt=dt, average_complex=cplx)
            avg, ids = np.asarray(avg), np.asarray(ids)
            rows = avg.shape[0]
            if avg.ndim != 2 or avg.shape[1] != n or not 1 <= rows <= F - w + 1 or ids.shape != (rows,):
                R.fail(f"time_average returned shape {avg.shape} / {ids.shape} for F={F}, window {w}: {where}", sub="C10.time_average", sig=dict(sg, clause="rows"))
                continue
            exp, ok = X2.ref_time_average(series, w, cplx)
            exp, ok = exp[:rows], ok[:rows]
            elem += int(ok.sum())
            if not close(avg[ok], exp[ok]):
                r = int(np.argwhere(~np.isclose(avg, exp, rtol=1e-9, atol=1e-11) & ok)[0][0])
                R.fail(f"time-averaged row {r} of {rows} (window {w}, F={F}) differs from the window mean by {maxdiff(avg[ok], exp[ok]):.3e}: {where}",
                       sub="C10.time_average", sig=dict(sg, clause="mean"))
            if np.any(np.abs(ids.astype(float) - (np.arange(rows) + (w - 1) / 2.0)) > 0.5 + 1e-12):
                R.fail(f"middle snapshot ids {ids[:4].tolist()}.. for window {w}: {where}", sub="C10.time_average", sig=dict(sg, clause="centre"))
    return elem


def scale_files(R, sig, b):
    """optional output files of spatial_corr and time_corr equal the returned tables at the documented precision"""
    import pandas as pd

    n = 0
    for name, call, sub in (("sp", lambda fn: b.spatial_corr(rdelta=0.27, outputfile=fn), "C10.spatial"), ("tc", lambda fn: b.time_corr(dt=0.002, outputfile=fn), "C10.time")):
        fn = f"c10_sc_{name}.csv"
        ret = call(fn)
        tab = pd.read_csv(fn)
        os.remove(fn)
        n += ret.size
        if list(tab.columns) != list(ret.columns) or tab.shape != ret.shape or not np.allclose(tab.values, ret.values.astype(float), rtol=0, atol=0.5000001e-8):
            R.fail(f"{name} csv differs from the returned table beyond %.8f", sub=sub, sig=dict(sig, clause="file"))
    return n


def run_scale(case):
    from PyMatterSim.static.boo import boo_2d

    R = Result()
    N, F, l, ppp = case["N"], case["F"], case["l"], case["ppp"]
    sig = scale_sig(case)
    inp = scale_inputs(case, d=2, tagp="c10")
    if inp is None:
        return R.screen()
    Hs, frames, steps, width = inp
    snaps = mk_snaps([f.tolist() for f in frames], np.array(Hs), [1] * N, steps=steps)
    before = [s.positions.copy() for s in snaps.snapshots]
    lst = scale_lists(case, snaps, frames, Hs, d=2, prefix="c10")
    if lst is None:
        return R.screen()
    nfile, wfile, nls_file, wts_file = lst
    nmax, maxcn = scale_nmax(case, nls_file)
    nls, wts = X2.truncate(nls_file, wts_file, nmax)
    b = boo_2d(snaps, l, nfile, weightsfile=wfile or "", ppp=np.array(ppp), Nmax=nmax)
    ser = np.array([X2.ref_psi(frames[f], Hs[f], ppp, nls[f], l, wts[f] if wts is not None else None) for f in range(F)])
    where = f"N={N} F={F} l={l} pattern {case['p']} (Nmax={nmax}, largest cn {maxcn})"
    got = b.ParticlePhi
    sub = "C10.weights" if wts is not None else "C10.psi"
    if got.shape != ser.shape or got.dtype != np.complex128:
        R.fail(f"ParticlePhi shape/dtype {got.shape} {got.dtype}: {where}", sub=sub, sig=dict(sig, clause="shape"))
        return R
    if not close(got, ser):
        bad = np.argwhere(~np.isclose(got, ser, rtol=1e-9, atol=1e-11))[0]
        R.fail(f"psi_l of frame {bad[0]} particle {bad[1]} (cn {len(nls[bad[0]][bad[1]])}) differs from the reference by {maxdiff(got, ser):.3e}: {where}",
               sub=sub, sig=dict(sig, clause="psi"))
        return R
    if np.any(np.abs(got) > 1 + 1e-12):
        R.fail(f"modulus exceeds one: {where}", sub="C10.modulus", sig=dict(sig, clause="modulus"))
    el = ser.size
    ref = X2.ref_spatial(frames, Hs, ppp, width, ser)
    ref = {"r": ref["r"], "gr_lo": ref["gr"], "gr_hi": ref["gr"], "gA": ref["gA"], "amb": np.zeros(len(ref["r"]), bool)}
    popl = check_spatial(R, sig, b.spatial_corr(rdelta=width), ref, False, sub="C10.spatial")
    check_time(R, sig, b.time_corr(dt=0.002), ser, steps, 0.002, False, sub="C10.time")
    el += F + 2 * len(ref["r"])
    if case.get("files"):
        el += scale_files(R, sig, b)
    if F >= 2 and case["steps"] == "even":
        windows = [1, 2] if case["kind"] == "particles" else [1, 2, 63, 64, 65, 127, 128, 129, F - 1]
        el += check_time_average_vec(R, sig, b, ser, sorted(set(windows)), 0.002, where)
    for s_, p0 in zip(snaps.snapshots, before):
        if not np.array_equal(s_.positions, p0):
            R.fail("snapshot positions modified", sub="C10.psi", sig=dict(sig, clause="input_modified"))
    for fn in (nfile, wfile, "c10_sc_vor.overall.dat", "c10_sc_vor.edgelength.dat", "c10_sc_vor.neighbor.dat"):
        if fn and os.path.exists(fn):
            os.remove(fn)
    R.outcome(got, nd=8)
    cns = [len(x) for x in nls_file[0]]
    R.nontrivial = bool(popl >= 2 and (len(set(cns)) >= 2 or case["src"] == "nnearest"))
    R.elem = el
    return R


# ------------------------------------------------------------------------------------------ C10.sequence (E2 over call sequences)
SEQ_LETTERS = [["ta", "0.2", True], ["ta", "0.2", False], ["ta", "0.4", True], ["ta", "0.4", False], ["sp", 0.5], ["sp", 0.3], ["tc", 0.002], ["tc", 0.5]]
SEQ_TOPO = [
    [[1, 2, 3, 4], [0, 2], [0, 1, 3], [2], [0, 5, 1], [4]],
    [[5], [2, 0], [3], [0, 4, 5, 1, 2], [1, 3], [0, 2]],
    [[3, 1], [0], [1, 0, 3, 5], [2, 0], [5], [4, 0, 2]],
]


def gen_sequence(tier, seed):
    yield from gen_sequence_object(tier, seed)
    yield from gen_words(tier, seed)


def gen_sequence_object(tier, seed):
    roots = [(6, "none", "trivar"), (4, "signed", "orth")] if tier == "quick" else [(6, "none", "trivar"), (4, "signed", "orth"), (1, "signed", "tri"), (12, "none", "tri2")]
    for l, wmode, cell in roots:
        for depth in (2, 3):
            for a in range(len(SEQ_LETTERS)):
                yield {"l": l, "wmode": wmode, "cell": cell, "first": a, "depth": depth, "seed": seed}


def seq_build(case, which=0):
    cell = case["cell"]
    H = cell2("tri" if cell == "trivar" else cell)
    Hc = [np.diag(np.diag(H)) + (H - np.diag(np.diag(H))) * (f if cell == "trivar" else 1.0) for f in (1.0, -1.0, 0.5, 1.0, -0.5)]
    frames = [positions(case["seed"], 6, "cluster", Hc[f], tag=f"sq{which}{f}") for f in range(5)]
    nls = [SEQ_TOPO[(f + which) % 3] for f in range(5)]
    wmode = case["wmode"] if which == 0 else "two"
    wts = None if wmode == "none" else [weights_for(nl, wmode) for nl in nls]
    from PyMatterSim.static.boo import boo_2d

    nf, wf = f"c10_sq{which}_nb.dat", f"c10_sq{which}_w.dat"
    write_neighbor_file(nf, nls)
    if wts is not None:
        write_weight_file(wf, wts, header="id   cn   edgelengthlist")
    snaps = mk_snaps(frames, np.array(Hc), [1] * 6, steps=[700 + 100 * f for f in range(5)])
    l = case["l"] if which == 0 else (6 if case["l"] != 6 else 4)
    return boo_2d(snaps, l, nf, weightsfile=wf if wts is not None else "", ppp=np.array([1, 1]), Nmax=5 + which)


def seq_call(b, letter):
    if letter[0] == "ta":
        avg, ids = b.time_average(time_period=float(letter[1]), dt=0.002, average_complex=letter[2])
        return [np.asarray(avg), np.asarray(ids, float)]
    if letter[0] == "sp":
        return [b.spatial_corr(rdelta=letter[1]).values.astype(float)]
    if letter[0] == "tc":
        return [b.time_corr(dt=letter[1]).values.astype(float)]
    raise ValueError(letter)


def same(a, b):
    return len(a) == len(b) and all(x.shape == y.shape and np.allclose(x, y, rtol=1e-12, atol=1e-14, equal_nan=True) for x, y in zip(a, b))


def run_sequence(case):
    """Explicit-state search over call sequences on ONE boo_2d object (see C09.sequence): the result of every call must equal the result of
    the same call on a fresh object whatever was called before; ParticlePhi must stay unchanged; a second live object must be unaffected."""
    if case.get("part") == "words":
        return run_words(case)
    R = Result()
    sig = {"wmode": case["wmode"], "cell": case["cell"]}
    nL = len(SEQ_LETTERS)
    fresh = {k: seq_call(seq_build(case), SEQ_LETTERS[k]) for k in range(nL)}
    other = seq_build(case, which=1)
    other_ref = [seq_call(other, SEQ_LETTERS[k]) for k in (1, 2, 4)]
    p_other = other.ParticlePhi.copy()
    a, depth = case["first"], case["depth"]
    seqs = [(a, k) for k in range(nL)] if depth == 2 else [(a, k, m) for k in range(nL) for m in range(nL)]
    states = transitions = 0
    for seq in seqs:
        b = seq_build(case)
        p0 = b.ParticlePhi.copy()
        states += 1
        for pos_, k in enumerate(seq):
            got = seq_call(b, SEQ_LETTERS[k])
            transitions += 1
            if not same(got, fresh[k]):
                prev = [SEQ_LETTERS[j] for j in seq[:pos_]]
                R.fail(f"{SEQ_LETTERS[k]} after {prev} on the same object differs from the same call on a fresh object", sub="C10.sequence",
                       sig=dict(sig, clause="call_" + SEQ_LETTERS[k][0], after=[SEQ_LETTERS[j][0] for j in seq[:pos_]]), exp=fresh[k][0], obs=got[0])
                break
        if not np.array_equal(b.ParticlePhi, p0):
            R.fail(f"calls {[SEQ_LETTERS[j] for j in seq]} modified the stored ParticlePhi", sub="C10.sequence", sig=dict(sig, clause="stored_modified"))
    again = [seq_call(other, SEQ_LETTERS[k]) for k in (1, 2, 4)]
    if not all(same(x, y) for x, y in zip(again, other_ref)) or not np.array_equal(other.ParticlePhi, p_other):
        R.fail("a second boo_2d object alive during the sequences changed its results", sub="C10.sequence", sig=dict(sig, clause="other_object"))
    R.states, R.transitions = states, transitions
    R.elem = transitions
    R.outcome([a, depth] + list(fresh[a]), nd=8)
    R.nontrivial = True
    return R


# ------------------------------------------------------------------------------------------ C10.frames (L2 / L4: frame CLASSES)
FR_LS = [6, 4, 1, 3, 12, 2, 5, 11, 8, 10, 9, 7]
FR_CELLS = ("orth", "tri", "tri2")


def frames_case(seed, topo, cells, wcl, k):
    return {"seed": seed, "topo": list(topo), "cells": list(cells), "wcl": None if wcl is None else list(wcl), "l": FR_LS[k % len(FR_LS)],
            "nmax": ("default", "tight", "below")[k % 3]}


def gen_frames(tier, seed):
    q = tier == "quick"
    k = 0
    cellpairs = [("orth", "orth"), ("orth", "tri"), ("tri", "orth"), ("tri", "tri2")] if q else list(itertools.product(FR_CELLS, repeat=2))
    wpairs = ([None, ("equal", "signed"), ("signed", "equal"), ("pos", "signed"), ("signed", "pos"), ("signed", "zero"), ("zero", "signed"), ("int", "signed")] if q
              else [None] + list(itertools.product(Y2.W2_CLASSES, repeat=2)))
    for ta in Y2.TOPO_NAMES:
        for tb in Y2.TOPO_NAMES:
            for cp in cellpairs:
                for wp in wpairs:
                    yield frames_case(seed, (ta, tb), cp, wp, k)
                    k += 1
    t3 = ("wideF", "one", "mid") if q else Y2.TOPO_NAMES
    for tt in itertools.product(t3, repeat=3):
        for ct in (("orth", "tri", "tri2"), ("tri", "orth", "tri"), ("tri2", "tri", "orth")):
            for wt in (None, ("equal", "pos", "signed"), ("zero", "int", "equal")):
                yield frames_case(seed, tt, ct, wt, k)
                k += 1


def frames_inputs(case):
    F = len(case["topo"])
    Hs = [cell2(c) for c in case["cells"]]
    frames = [np.array(positions(case["seed"], 5, "cluster", Hs[f], tag=f"fr{f}{case['cells'][f]}")) for f in range(F)]
    nls = [Y2.TOPO5[t] for t in case["topo"]]
    wts = None if case["wcl"] is None else [Y2.weights_class2(nls[f], case["wcl"][f], f) for f in range(F)]
    return Hs, frames, nls, wts


def frames_nmax(case, nls, wts):
    """None (the default 10), the largest coordination number of the trajectory, or one below it (see checks/c09.py: frames_nmax)"""
    maxcn = max(len(x) for nl in nls for x in nl)
    if case["nmax"] == "default":
        return None
    if case["nmax"] == "below" and maxcn >= 2:
        _, w2 = X2.truncate(nls, wts, maxcn - 1)
        if w2 is None or all(sum(abs(v) for v in row) > 0 for fr in w2 for row in fr):
            return maxcn - 1
    return maxcn


def frames_sig(case):
    cl = ["orth" if c == "orth" else "tilted" for c in case["cells"]]
    mx = [Y2.MAXCN5[t] for t in case["topo"]]
    return {"F": len(case["topo"]), "cells": "same" if len(set(case["cells"])) == 1 else f"{cl[0]}-first", "wfirst": case["wcl"][0] if case["wcl"] else "none",
            "width": "same" if len(set(mx)) == 1 else ("widest-first" if mx[0] == max(mx) else ("narrowest-first" if mx[0] == min(mx) else "mixed")), "nmax": case["nmax"]}


def frames_build(case, prefix, Hs, frames, nls_file, wts_file, ppp=(1, 1), steps=None, l=None, nmax="case", positions_raw=None, output_phi="", hform="c"):
    from PyMatterSim.static.boo import boo_2d

    F = len(frames)
    write_neighbor_file(f"{prefix}_nb.dat", nls_file)
    if wts_file is not None:
        Y2.write_weights_tokens(f"{prefix}_w.dat", wts_file, [Y2.file_class(c) for c in case["wcl"]], "id   cn   edgelengthlist")
    nm = frames_nmax(case, nls_file, wts_file) if nmax == "case" else nmax
    steps = steps or [700 + 100 * f for f in range(F)]
    if positions_raw is None:
        snaps = mk_snaps([np.asarray(f).tolist() for f in frames], np.array(Hs), [1] * 5, steps=steps)
    else:
        snaps = Y2.mk_snaps_raw(positions_raw, Hs, steps, hform=hform)
    kw = {} if nm is None else {"Nmax": nm}
    b = boo_2d(snaps, case["l"] if l is None else l, f"{prefix}_nb.dat", weightsfile=f"{prefix}_w.dat" if wts_file is not None else "", ppp=ppp, output_phi=output_phi, **kw)
    nls, wts = X2.truncate(nls_file, wts_file, nm if nm is not None else 10)
    return b, snaps, nls, wts, steps


def run_frames(case):
    R = Result()
    l, ppp = case["l"], [1, 1]
    Hs, frames, nls_file, wts_file = frames_inputs(case)
    F = len(frames)
    sig = frames_sig(case)
    if min(screen_margin([fr], H, ppp) for fr, H in zip(frames, Hs)) < 1e-7:
        return R.screen()
    b, snaps, nls, wts, steps = frames_build(case, "c10_fr", Hs, frames, nls_file, wts_file, ppp=np.array(ppp))
    ser = np.array([B.ref_psi(frames[f], Hs[f], ppp, nls[f], l, wts[f] if wts is not None else None) for f in range(F)])
    where = f"frames {case['topo']} x cells {case['cells']} x weights {case['wcl']} (Nmax={case['nmax']}, l={l})"
    sub = "C10.weights" if wts is not None else "C10.psi"
    got = b.ParticlePhi
    if got.shape != ser.shape or not close(got, ser):
        bad = "shape" if got.shape != ser.shape else int(np.argwhere(~np.isclose(got, ser, rtol=1e-9, atol=1e-11))[0][0])
        R.fail(f"psi_l of frame {bad} differs from the definition applied to that frame's own cell / neighbour table / weights: {where}", sub=sub,
               sig=dict(sig, clause="psi"), exp=ser, obs=got)
        return R
    if np.any(np.abs(got) > 1 + 1e-12):
        R.fail(f"modulus exceeds one: {where}", sub="C10.modulus", sig=dict(sig, clause="modulus"))
    check_time(R, sig, b.time_corr(dt=0.002), ser, steps, 0.002, False, sub="C10.time")
    ref = B.ref_spatial(frames, np.array(Hs), ppp, 0.5, ser, "complex")
    popl = check_spatial(R, sig, b.spatial_corr(rdelta=0.5), ref, False, sub="C10.spatial")
    el = ser.size + F + 2 * len(ref["r"])
    for per in ("0.2", "0.4"):
        el += check_time_average(R, sig, b, ser, per, 100, 0.002)
    R.outcome(got, nd=9)
    R.nontrivial = bool(np.abs(ser).max() > 1e-9 and popl >= 1)
    R.elem = el
    return R


# ------------------------------------------------------------------------------------------ C10.files (every output-file branch)
FILE_NAMES = ["plain", "plain.npy", "text.dat", "odd.dat.npy"]


def gen_files(tier, seed):
    q = tier == "quick"
    seqs = [("one", "wideL"), ("mid", "one", "two"), ("wideF", "two", "one", "mid")] if q else [("one", "wideL"), ("wideF", "one"), ("mid", "one", "two"), ("two", "wideL", "one"),
                                                                                                 ("wideF", "two", "one", "mid"), ("one", "one", "wideL", "mid", "two")]
    k = 0
    for topo in seqs:
        for wcl in (None, "signed"):
            cells = [FR_CELLS[(f + k) % 3] for f in range(len(topo))]
            for l in ((6, 1) if q else LS):
                c = frames_case(seed, topo, cells, None if wcl is None else [wcl] * len(topo), 0)
                c.update(l=l, nmax="tight" if k % 2 else "default")
                yield c
            k += 1


def run_files(case):
    import pandas as pd

    R = Result()
    l, ppp = case["l"], [1, 1]
    Hs, frames, nls_file, wts_file = frames_inputs(case)
    F = len(frames)
    sig = {"F": F, "weighted": wts_file is not None}
    if min(screen_margin([fr], H, ppp) for fr, H in zip(frames, Hs)) < 1e-7:
        return R.screen()
    el = 0
    ser = None
    for phi_name in ("c10_fl_phi", "c10_fl_phi.npy"):
        Y2.rm(Y2.npy_name(phi_name))
        b, snaps, nls, wts, steps = frames_build(case, "c10_fl", Hs, frames, nls_file, wts_file, ppp=np.array(ppp), output_phi=phi_name)
        if ser is None:
            ser = np.array([B.ref_psi(frames[f], Hs[f], ppp, nls[f], l, wts[f] if wts is not None else None) for f in range(F)])
        if b.ParticlePhi.shape != ser.shape or not close(b.ParticlePhi, ser):
            R.fail("psi_l differs from the reference", sub="C10.psi", sig=dict(sig, clause="psi"))
            return R
        fn = Y2.npy_name(phi_name)
        if not os.path.exists(fn) or not np.array_equal(np.load(fn), b.ParticlePhi):
            R.fail(f"output_phi={phi_name!r}: {fn} missing or different from ParticlePhi", sub="C10.files", sig=dict(sig, clause="phi_file"))
        Y2.rm(fn)
        el += ser.size
    # two objects alive at once that were asked to write the SAME output_phi name (a second analysis with another l re-using the prefix): the
    # values held by the first object must not change when the second one writes its file
    Y2.rm(Y2.npy_name("c10_fl_alias"))
    b1 = frames_build(case, "c10_fl", Hs, frames, nls_file, wts_file, ppp=np.array(ppp), output_phi="c10_fl_alias")[0]
    held = np.array(b1.ParticlePhi)
    l_other = (case["l"] + 1) if case["l"] < 12 else (case["l"] - 1)
    b2 = frames_build(case, "c10_fl", Hs, frames, nls_file, wts_file, ppp=np.array(ppp), output_phi="c10_fl_alias", l=l_other)[0]
    if not np.array_equal(np.asarray(b1.ParticlePhi), held) or not close(np.asarray(b1.ParticlePhi), ser):
        R.fail("ParticlePhi of a live boo_2d object changed when a second object (another l) wrote the same output_phi file",
               sub="C10.files", sig=dict(sig, clause="phi_alias"))
    del b2
    Y2.rm(Y2.npy_name("c10_fl_alias"))
    for per in ("0.2", "0.4", "0.6"):
        w = B.ref_window_len(per, 100, 0.002)
        if not 1 <= w <= F - 1:
            continue
        for cplx in (True, False):
            base = b.time_average(time_period=float(per), dt=0.002, average_complex=cplx)
            for nm in [None] + FILE_NAMES:
                name = ("c10_fl_ta_" + nm) if nm else ""
                idf = name + ".snapshot_id.dat"
                Y2.rm(Y2.npy_name(name) if name else None, idf if name else None)
                avg, ids = b.time_average(time_period=float(per), dt=0.002, average_complex=cplx, outputfile=name)
                avg, ids = np.asarray(avg), np.asarray(ids)
                sg = dict(sig, average_complex=cplx)
                if avg.shape != np.asarray(base[0]).shape or not np.array_equal(avg, base[0], equal_nan=True) or not np.array_equal(ids, base[1]):
                    R.fail(f"time_average(outputfile={name!r}) returns something else than without a file", sub="C10.time_average", sig=dict(sg, clause="with_file"))
                    continue
                if not name:
                    continue
                fn = Y2.npy_name(name)
                if not os.path.exists(fn):
                    R.fail(f"time_average(outputfile={name!r}): {fn} was not written", sub="C10.files", sig=dict(sg, clause="file_missing"))
                else:
                    back = np.load(fn)
                    if back.shape != avg.shape or back.dtype != avg.dtype or not np.array_equal(back, avg, equal_nan=True):
                        R.fail(f"time_average: {fn} differs from the returned average", sub="C10.files", sig=dict(sg, clause="file_npy"), exp=avg, obs=back)
                rows = Y2.read_tokens(idf)
                if rows is None or rows[0] != ["middle_snapshot_id"] or len(rows) != 1 + len(ids) or not all(len(r) == 1 and Y2.INT_.match(r[0]) for r in rows[1:]):
                    R.fail(f"time_average: {idf} missing or not 'middle_snapshot_id' + one integer per averaged row", sub="C10.files", sig=dict(sg, clause="ids_layout"))
                elif [int(r[0]) for r in rows[1:]] != [int(x) for x in ids]:
                    R.fail(f"time_average: {idf} differs from the returned snapshot ids", sub="C10.files", sig=dict(sg, clause="ids"), exp=ids, obs=rows[1:])
                Y2.rm(fn, idf)
                el += avg.size + ids.size
        el += check_time_average(R, sig, b, ser, per, 100, 0.002)
    for name, call, sub, ndec in (("sp", lambda fn: b.spatial_corr(rdelta=0.5, outputfile=fn), "C10.spatial", 8), ("tc", lambda fn: b.time_corr(dt=0.002, outputfile=fn), "C10.time", 8)):
        fn = f"c10_fl_{name}.csv"
        Y2.rm(fn)
        ret = call(fn)
        if not os.path.exists(fn):
            R.fail(f"{name}: {fn} was not written", sub="C10.files", sig=dict(sig, clause="csv_missing", which=name))
            continue
        tab = pd.read_csv(fn)
        os.remove(fn)
        if list(tab.columns) != list(ret.columns) or tab.shape != ret.shape or not np.allclose(tab.values, ret.values.astype(float), rtol=0, atol=0.5000001e-8):
            R.fail(f"{name} csv differs from the returned table", sub="C10.files", sig=dict(sig, clause="csv", which=name))
        el += ret.size
    R.outcome(b.ParticlePhi, nd=9)
    R.nontrivial = bool(np.abs(ser).max() > 1e-9)
    R.elem = el
    return R


# ------------------------------------------------------------------------------------------ C10.types (L4 / L5 / L7 / L8 and dilation)
TYPE_FORMS = ["base", "ppp_list", "ppp_tuple", "ppp_bool", "ppp_int32", "pos_f32", "pos_fortran", "pos_strided", "l_npint", "nmax_npint", "face",
              "unwrapped", "dilate-33", "dilate+27", "zero_opts", "h_fortran", "w_x2^-33", "w_x1e-9", "w_x2^27", "step_2e9"]
WSCALE = {"w_x2^-33": 2.0 ** -33, "w_x1e-9": 1e-9, "w_x2^27": 2.0 ** 27}  # Voronoi edge lengths in SI units: psi_l is scale-free in the weights


def gen_types(tier, seed):
    q = tier == "quick"
    for ti, topo in enumerate(Y2.TOPO_NAMES):
        for form in TYPE_FORMS:
            for l in ((1, 6, 11) if q else LS):
                for cell in ("orth", "tri"):
                    masks = ([1, 1], [0, 1], [1, 0]) if form.startswith("ppp") or form in ("base", "unwrapped") else ([1, 1],)
                    for ppp in masks:
                        for wcl in (None, "int" if form == "base" else "signed"):
                            if form in WSCALE and wcl is None:
                                continue
                            yield {"seed": seed, "topo": [topo, Y2.TOPO_NAMES[(ti + 2) % 5], Y2.TOPO_NAMES[(ti + 3) % 5]], "cells": [cell] * 3,
                                   "wcl": None if wcl is None else [wcl, "zero", "pos"], "l": l, "form": form, "ppp": list(ppp),
                                   "nmax": "tight" if form == "nmax_npint" else "default"}


def run_types(case):
    R = Result()
    l, ppp, form = case["l"], case["ppp"], case["form"]
    Hs, frames, nls_file, wts_file = frames_inputs(case)
    if form == "face":
        f0 = np.array(Y2.FACE2, float)
        frames = [f0, f0[::-1].copy(), np.roll(f0, 2, axis=0)]
    if form in WSCALE:
        wts_file = [[[x * WSCALE[form] for x in row] for row in fr] for fr in wts_file]
    F = len(frames)
    sig = {"form": form, "cell": case["cells"][0], "masked": bool(0 in ppp), "weighted": wts_file is not None}
    if min(screen_margin([fr], H, ppp) for fr, H in zip(frames, Hs)) < 1e-7:
        return R.screen()
    if form == "unwrapped":
        frames = [fr + sgn * (np.array(Y2.UNWRAP2) * np.array(ppp)) @ Hs[f] for f, (fr, sgn) in enumerate(zip(frames, (1, -1, 1)))]
    dil = Y2.DILATE.get(form, 1.0)
    frames = [fr * dil for fr in frames]
    Hs = [H * dil for H in Hs]
    store = {"pos_f32": "f32", "pos_fortran": "fortran", "pos_strided": "strided", "h_fortran": "fortran"}.get(form, "c")
    arrays = [Y2.store_positions(f, store) for f in frames]
    keep = [a.copy() for a in arrays]
    pa = {"ppp_list": list(ppp), "ppp_tuple": tuple(ppp), "ppp_bool": np.array(ppp, dtype=bool), "ppp_int32": np.array(ppp, dtype=np.int32)}.get(form, np.array(ppp))
    nm = frames_nmax(case, nls_file, wts_file)
    b, snaps, nls, wts, steps = frames_build(case, "c10_ty", Hs, frames, nls_file, wts_file, ppp=pa, l=np.int64(l) if form == "l_npint" else l,
                                             steps=[2_000_000_700 + 100 * f for f in range(F)] if form == "step_2e9" else None,  # L9: timesteps beyond int32
                                             nmax=np.int32(nm) if form == "nmax_npint" else nm, positions_raw=arrays, hform="fortran" if form == "h_fortran" else "c")
    # float32 positions of magnitude ~10 carry ~1e-6 absolute error; a bond angle error of ~2e-6 is multiplied by l (<= 12) in exp(i l theta) / Y_lm
    rt, at = (1e-4, 1e-4) if form == "pos_f32" else (1e-9, 1e-11)
    ser = np.array([B.ref_psi(np.asarray(keep[f], float), Hs[f], ppp, nls[f], l, wts[f] if wts is not None else None) for f in range(F)])
    where = f"form {form}, frames {case['topo']}, cell {case['cells'][0]}, ppp {ppp}, l={l}"
    got = b.ParticlePhi
    if got.shape != ser.shape or got.dtype != np.complex128 or not close(got, ser, rt, at):
        R.fail(f"psi_l differs from the reference by {maxdiff(got, ser)}: {where}", sub="C10.weights" if wts is not None else "C10.psi", sig=dict(sig, clause="psi"), exp=ser, obs=got)
        return R
    if np.any(np.abs(got) > 1 + 1e-12):
        R.fail(f"modulus exceeds one: {where}", sub="C10.modulus", sig=dict(sig, clause="modulus"))
    el = ser.size
    if form != "pos_f32":
        for dt in ((0.0, 0) if form == "zero_opts" else (0.002,)):  # L8: an explicit zero is a value, not "use the default"
            check_time(R, sig, b.time_corr(dt=dt), ser, steps, dt, False, sub="C10.time")
        for per in ("0.2", "0.4"):
            el += check_time_average(R, sig, b, ser, per, 100, 0.002)
        if dil == 1.0:  # the pair histogram of a dilated cell belongs to C13 (the reference's edge tolerance is absolute)
            ref = B.ref_spatial([np.asarray(k, float) for k in keep], np.array(Hs), ppp, 0.5, ser, "complex")
            check_spatial(R, sig, b.spatial_corr(rdelta=0.5), ref, False, sub="C10.spatial")
            el += 2 * len(ref["r"])
    for a, k0 in zip(arrays, keep):
        if a.dtype != k0.dtype or not np.array_equal(a, k0):
            R.fail(f"the position array was modified: {where}", sub="C10.psi", sig=dict(sig, clause="input_modified"))
    for s_, H in zip(snaps.snapshots, Hs):
        if not np.array_equal(s_.hmatrix, H) or s_.hmatrix.flags["F_CONTIGUOUS"] != (form == "h_fortran"):
            R.fail(f"the cell matrix of the snapshot was modified: {where}", sub="C10.psi", sig=dict(sig, clause="hmatrix_modified"), exp=H, obs=s_.hmatrix)
    R.outcome(got, nd=5 if form == "pos_f32" else 9)
    R.nontrivial = bool(np.abs(ser).max() > 1e-9)
    R.elem = el
    return R


# ------------------------------------------------------------------------------------------ C10.sequence, part "words" (L6)
# see checks/c09.py (C09.sequence words): letters = complete (object, call) tuples; same l / other neighbour file (a0-b0), same neighbour file /
# other configurations (a0-c0), same files / other l (a0-d0-d1), same file NAME / other content (s0-s1), weighted with other weights on the
# same topology (w0-w1), a boo_3d object before / after a boo_2d object on the same neighbour file (q0, q1), time_average in both modes and with
# two periods, spatial_corr and time_corr on ONE object (a0..a4).
WORD_LETTERS = [
    {"id": "a0", "obj": "A6", "d": 2, "l": 6, "pos": "P", "topo": "T", "w": None, "call": ["ta", "0.4", True]},
    {"id": "a1", "obj": "A6", "d": 2, "l": 6, "pos": "P", "topo": "T", "w": None, "call": ["ta", "0.4", False]},
    {"id": "a2", "obj": "A6", "d": 2, "l": 6, "pos": "P", "topo": "T", "w": None, "call": ["ta", "0.2", True]},
    {"id": "a3", "obj": "A6", "d": 2, "l": 6, "pos": "P", "topo": "T", "w": None, "call": ["sp", 0.5]},
    {"id": "a4", "obj": "A6", "d": 2, "l": 6, "pos": "P", "topo": "T", "w": None, "call": ["tc", 0.002]},
    {"id": "b0", "obj": "B6", "d": 2, "l": 6, "pos": "P", "topo": "U", "w": None, "call": ["ta", "0.4", True]},
    {"id": "c0", "obj": "C6", "d": 2, "l": 6, "pos": "R", "topo": "T", "w": None, "call": ["ta", "0.4", True]},
    {"id": "d0", "obj": "A4", "d": 2, "l": 4, "pos": "P", "topo": "T", "w": None, "call": ["ta", "0.4", True]},
    {"id": "d1", "obj": "A3", "d": 2, "l": 3, "pos": "P", "topo": "T", "w": None, "call": ["ta", "0.4", False]},
    {"id": "s0", "obj": None, "d": 2, "l": 6, "pos": "P", "topo": "T", "w": None, "call": ["ta", "0.4", True], "shared": True},
    {"id": "s1", "obj": None, "d": 2, "l": 6, "pos": "P", "topo": "U", "w": None, "call": ["ta", "0.4", True], "shared": True},
    {"id": "w0", "obj": "W6", "d": 2, "l": 6, "pos": "P", "topo": "T", "w": "var", "call": ["ta", "0.4", True]},
    {"id": "w1", "obj": "V6", "d": 2, "l": 6, "pos": "P", "topo": "T", "w": "zero", "call": ["ta", "0.4", True]},
    {"id": "q0", "obj": "Q6", "d": 3, "l": 6, "pos": "P", "topo": "T", "w": None, "call": ["ql", False]},
    {"id": "q1", "obj": None, "d": 3, "l": 6, "pos": "P", "topo": "U", "w": None, "call": ["ql", True], "shared": True},
]
WORD_TRIPLES_QUICK = [["a0", "a1", "a0"], ["a0", "d0", "a0"], ["s0", "s1", "s0"], ["q0", "a0", "q0"], ["q1", "s0", "q1"], ["a3", "a4", "a3"], ["w0", "a0", "w1"], ["a2", "a0", "a1"]]


def _c10_words_child(case):
    return C9.words_child(case, WORD_LETTERS, "c10_wd")


_WORD_FRESH = {}


def gen_words(tier, seed):
    yield from C9.gen_words(tier, seed, letters=WORD_LETTERS, triples=WORD_TRIPLES_QUICK)


def run_words(case):
    import functools

    return C9.run_words(case, letters=WORD_LETTERS, child=_c10_words_child, sub="C10.sequence", cache=_WORD_FRESH,
                        refcheck=functools.partial(C9.word_refcheck, sub="C10.sequence"))


# ------------------------------------------------------------------------------------------
def subs(tier, seed):
    q = tier == "quick"
    return [
        Sub("C10.topology", gen_topology, run_topology,
            rule="every neighbour topology of N=3 (27, every list order) x l=1..12 x weights {none, equal, two-valued, signed {1,2,-1}, all negative} x "
                 "{orth,tri} x {generic, axis-aligned/wrapped bonds}; masks, second triclinic cell, Nmax = max cn; ALL 3375 weighted topologies of 3 "
                 "particles over the weight alphabet {1,2,-1} at l in " + ("{1,6}" if q else "1..12") + "; N=4: "
                 + ("all 2401 at l=6 + 25-topology core x l x weights x orders" if q else "all 2401 x l=1..12 x {none,equal,signed} x {orth,tri}, all list orders at l=5,6")
                 + "; psi_l vs reference, modulus <= 1, equal weights == (+-) unweighted, output_phi file; non-trivial = psi != 0",
            bounds={"N": [3, 4], "l": [1, 12], "weighted_topologies_N3": 3375}),
        Sub("C10.lattice", gen_lattice, run_lattice,
            rule="periodic square (16), triangular (16, orthogonal and triclinic cell) and honeycomb (24) lattices with harness neighbour lists, shifted / "
                 "scaled, l=1..12: reference everywhere, |psi_l| = 1 (1e-12) when l is a multiple of the fold; l-fold stars l=1..12 x 3 orientations x weights: "
                 "psi_l = exp(i l alpha)"),
        Sub("C10.rotation", gen_rotation, run_rotation,
            rule="open boundaries, all N=3 topologies (" + ("25-topology N=4 core" if q else "all 2401 N=4 topologies at l in {1,5,6,12}") + ") x l=1..12 x alpha in "
                 "{2pi/7, 1, pi/3} x weights {none, signed}: psi(rotated) == exp(i l alpha) psi (implementation vs implementation) and == reference"),
        Sub("C10.sources", gen_sources, run_sources,
            rule="neighbour (and edge-length weight) files written by the library's own N-nearest (N=1,3,6), cutoff and Voronoi routines for all 7-, 8-, 9-subsets "
                 "of a jittered 3x3 lattice (two frames, orth/tri), parsed by an independent reader; psi_l vs reference, modulus; l in " + ("{4,6}" if q else "1..12")
                 + "; cases where a particle has no neighbour are screened"),
        Sub("C10.history", gen_history, run_history,
            rule="explicit-state BFS over frame histories (depth <= " + ("3/4" if q else "4/5") + "): appended frame = (configuration, topology, step increment) from 3-5 "
                 "letter alphabets (uneven spacing, even spacing with interval 0.2 and 0.3); per state a fresh boo_2d on fresh files: psi per frame, time_corr "
                 "(linear/log, F=1), spatial_corr (frame mean), time_average for 5 periods x both average_complex modes; l in " + ("{1,6}" if q else "{1,2,4,6,12}")
                 + " x {orth,tri} x weights {none, signed}; non-trivial = >= 2 populated gA bins",
            bounds={"depth": [3, 4] if q else [4, 5]}),
        Sub("C10.scale", gen_scale, run_scale,
            rule="SIZE slice (enumerates sizes, ONE fixed value pattern per size and pattern row): N in " + str(SCALE_N[tier]) + " particles x "
                 + str(len([p for p in SCALE_PAT if p.get("tier", tier) == tier])) + " pattern rows = ragged harness lists (cn 1..14, the maximum attained by the first / the last particle only, "
                 "a particle with one neighbour, id 0 as a genuine neighbour, unsorted) and lists / edge-length weights written by the library's N-nearest, cutoff and Voronoi routines x "
                 "l in {1,3,4,6,12} x signed weights per frame x Nmax {= max cn, +1, 30, max cn - 3 (truncation to the first Nmax entries)} x cells {orthogonal with shortest edge y, triclinic "
                 "of either tilt sign, tilt changing per frame} x partial masks x F in {1,3} (positions, topology, weights, tilts change per frame; even / uneven steps); plus F in "
                 + str(SCALE_F[tier]) + " frames of 16 particles with averaging windows 1, 2, 63..65, 127..129, F-1; every entry of psi_l, modulus, spatial_corr, time_corr, time_average (both "
                 "modes) vs vectorised references (mc/ref/c10x.py); non-trivial = ragged lists and >= 2 populated gA bins",
            bounds={"N": SCALE_N[tier], "F": SCALE_F[tier], "max_cn": 14}),
        Sub("C10.frames", gen_frames, run_frames,
            rule="FRAME CLASSES (see C09.frames): trajectories of 5 particles, F=2: ALL 25 ordered pairs of topology classes {largest cn 4 on the first particle only, on the last only, everybody 1, everybody 2, "
                 "ragged with 3} (neighbour AND weight tables shrink to each frame's own largest cn) x " + ("4" if q else "all 9") + " ordered cell-class pairs {orthogonal, tilted, tilted otherwise} at constant edge "
                 "lengths x " + ("{unweighted, equal->signed, signed->equal, positive->signed, signed->positive, signed->zero-containing, zero-containing->signed, integer-token->signed}" if q else
                                 "unweighted + all 25 ordered pairs of weight classes {all equal, varied positive, varied with negative entries, one exact zero per row, signed integer tokens '-1 2 1'}")
                 + "; F=3: all triples over " + ("3" if q else "5") + " topology classes x 3 cell triples x 3 weight triples; l cycles through 1..12 and Nmax through {default 10, largest cn, largest cn - 1}; "
                 "psi_l, modulus, time_corr, spatial_corr, time_average (periods 0.2, 0.4, both modes) vs the loop references per frame",
            bounds={"N": 5, "F": [2, 3], "topology_classes": 5, "cell_classes": 3, "weight_classes": 5}),
        Sub("C10.files", gen_files, run_files,
            rule="OUTPUT FILES: " + ("3" if q else "6") + " trajectories (F = 2..5) x {unweighted, signed weights} x l in " + ("{6,1}" if q else "1..12") + ": output_phi in {name, name.npy}; time_average(period in {0.2,0.4,0.6}, both "
                 "modes, outputfile in {'', name, name.npy, name.dat, name.dat.npy}): the returned average / ids are the same whatever file is requested (and equal the window means), <name>[.npy] holds the complex "
                 "average bit for bit, <name>.snapshot_id.dat holds the header 'middle_snapshot_id' and the returned ids as integers; spatial_corr / time_corr csv equal the returned tables at %.8f",
            bounds={"name_forms": FILE_NAMES}),
        Sub("C10.types", gen_types, run_types,
            rule="STORAGE / ARGUMENT FORMS: 5 three-frame trajectories (topology classes; weights signed -> one exact zero per row -> positive) x forms {reference form (signed integer tokens), ppp as list / tuple / bool "
                 "array / int32 array, positions float32 (1e-4) / Fortran-ordered / strided view, l as np.int64, Nmax as np.int32, particles at the origin / exactly on box faces, UNWRAPPED coordinates shifted by "
                 "whole cell vectors n.H with n in {0,+2,-3,+4,-2} per particle and periodic axis, the whole system DILATED by 2^-33 / 2^27, cell matrix AND positions Fortran-ordered (both must come back unchanged), "
                 "all weights x 2^-33 / 1e-9 / 2^27 (psi_l is scale-free in the weights), explicit zero options (time_corr dt = 0.0 / 0), timesteps offset by 2e9} x l in "
                 + ("{1,6,11}" if q else "1..12") + " x {orth, tri} x masks {11; 01, 10 for the ppp / unwrapped forms} x {unweighted, weighted}; psi_l, modulus, time_corr, time_average, spatial_corr vs the loop "
                 "references; the position arrays must come back unchanged",
            bounds={"forms": TYPE_FORMS}),
        Sub("C10.sequence", gen_sequence, run_sequence,
            rule="(b) CALL WORDS in forked children with re-imported library modules: all words of length <= " + ("2 (+ 8 triples)" if q else "3") + " over 15 letters = complete (object, call) tuples colliding in "
                 "plausible incomplete cache keys: same l / other neighbour file, same neighbour file / other configurations, same files / other l (6, 4, 3), same file NAME / other content, other weights on the same "
                 "topology, a boo_3d object before / after a boo_2d object on the same neighbour file, time_average in both modes and with two periods + spatial_corr + time_corr on ONE object; objects stay alive "
                 "within a word; every call must return bit for bit what it returns when made first in a fresh child, and that first call equals the reference.  "
                 "(a) explicit-state search over call sequences on ONE boo_2d object (6 particles, 5 frames with changing topology / tilts): alphabet of 8 calls = time_average x "
                 "{period 0.2, 0.4} x {average_complex True, False}, spatial_corr x {0.5, 0.3}, time_corr x {dt 0.002, 0.5}; all 64 ordered pairs and all 512 triples per root; every result "
                 "must equal the same call on a fresh object, ParticlePhi must stay unchanged, a second live object (other l, files, configurations) must be unaffected",
            bounds={"letters": 8, "depth": 3}),
    ]
