"""C20 - freud Voronoi wrapper: output files are a consistent tessellation in the library format (E1).

Runner subs            clause subs reported by them
  C20.files            C20.files, C20.cn, C20.symmetric, C20.weights, C20.volumes, C20.oracle, C20.readback
  C20.volmatrix        C20.volmatrix.frame, C20.volmatrix.rows, C20.volmatrix.save, C20.volmatrix.oracle
  C20.sequence         call words over complete argument tuples of cal_neighbors / VolumeMatrix (round 4, L6)
Round 4 slices inside C20.files / C20.volmatrix: strain (only SOME edges change per frame), face (a particle exactly on a box face),
form (storage of the snapshot arrays), read_neighbors with Nmax below / at / above the coordination number on the freud-written files.
"""
import itertools
import json
import os

import numpy as np

from mc import alphabets as A
from mc.harness import Result, Sub
from mc.ref import c03x as X3
from mc.ref import c20x as X
from mc.ref import c20y as Y
from mc.ref import neigh as NB
from mc.ref.base import mk_snap

ASSUMPTIONS = [
    "freud is run single-threaded (harness) and explored as a black box inside the wrapper; it stores coordinates in single "
    "precision, so sizes are compared with the double-precision scipy oracle at 2e-5 (edge lengths / face areas; observed <= 2.1e-6) and 1e-5 "
    "(cell areas / volumes; observed <= 8e-7); files print %.6f",
    "general position: configurations whose scipy tessellation has a face smaller than 1e-4 (edge length / face area) or an "
    "unbounded central cell are screened out before the implementation runs; in 3D also those with a Voronoi edge shorter than 3e-3 "
    "(near-degenerate vertex).  Reason (design probe on 6000 generic 3D point sets, recorded here, not part of the check): freud 3.5.0 / "
    "voro++ omits faces of area < ~6e-6 and, next to a near-degenerate vertex (shortest edge observed up to 3.2e-4), lists a face of "
    "ordinary size in one direction only; both effects are outside the wrapper and outside 'general position'",
    "scipy.spatial.Voronoi on the 3^d replicated images is the periodic tessellation (a Voronoi neighbour lies within one box "
    "length per axis, so 3^d images suffice for every N >= 1)",
    "the neighbour relation is compared as a multiset: a particle may neighbour the same particle (or itself) through several images",
    "weights equal in both directions: the sorted weights of i->j and j->i agree within 2e-6 (two independent %.6f roundings)",
    "volumes sum to the box volume within N * 1e-6",
    "overall.dat: ONE header line, then one 'id cn size' row per particle and frame (the library's format); the other two files: one "
    "header per frame",
    "VolumeMatrix: raw matrix read as A[i, d*j+a] = (dV_i/dr_ja)/V_i (central differences, step deltar), self block from translation "
    "invariance; compared with a scipy finite-difference oracle at 5e-5 (single-precision noise / (2 deltar)); the transformed matrix "
    "A^T (A A^T)^+ A is only compared with itself (requested frame vs one-frame snapshots; file vs return): A A^T is singular in exact "
    "arithmetic for a periodic box (sum_i V_i A_i = 0; for N = 2 A vanishes identically by inversion symmetry), so its value is "
    "noise-dominated: only 'no exception', 'requested frame' (bit-for-bit) and 'file equals return' are demanded of it; zero row sums "
    "are demanded of the raw matrix only",
    "np.save appends '.npy' to the output file name",
    "C20.scale.*: these slices enumerate SIZES (one deterministic generic point pattern per size, box and frame), not placements.  General "
    "position is evaluated PER PARTICLE with the same thresholds: a cell is compared with the scipy tessellation (neighbour multiset, "
    "weights, symmetry, weights equal both ways) only if none of its Voronoi vertices is an end point of an edge shorter than 1e-4 (2D) / "
    "3e-3 (3D) or a corner of a face smaller than 1e-4; every cell is compared for id order, cn consistency and volume; at least 90 % "
    "(2D) / 50 % (3D) of the cells of every frame must be fully comparable, otherwise the case counts as screened.  Numerical general "
    "position (interval oracle): the scipy tessellation is recomputed with every coordinate moved by +- half a single-precision ulp of "
    "the longest box edge in three fixed sign patterns; a face size is compared at 2e-5 + 2 x (largest change of that face under these "
    "perturbations) and a cell whose neighbour multiset changes under them is treated like a cell touched by a near-degenerate vertex.  "
    "Witness for the need: 130 particles, box 11.25 x 13.5 with bounds [0,11.25]x[-12.375,1.125] (the un-centred box whose bounds sum to "
    "zero, so freud wraps the coordinates itself in single precision): next to a Delaunay triangle of condition number ~100 two adjacent "
    "edges of one cell are off by +-2.4e-5 while ordinary faces agree to 5e-7",
    "C20.scale.volmatrix: no general-position screen (cell volumes do not depend on how a near-degenerate vertex is resolved); the "
    "finite-difference oracle is evaluated on the columns of a subset of displaced particles and the tolerance is 5e-5 * max(1, |A_ij|) "
    "(small cells give entries of order 10; observed relative deviation <= 4e-6); outputfile=None means 'do not save' (documented)",
    "round 4 - strain slice: the orthogonal box may change from frame to frame in SOME of its edge lengths only (uniaxial / biaxial strain), late, "
    "or return to an earlier box; every frame is tessellated in its own box",
    "round 4 - face slice: a particle exactly on a face / the corner of the box (lower or upper bound, dyadic numbers) is a valid periodic "
    "configuration (the upper face is the periodic image of the lower one); the general-position screen still applies to the tessellation",
    "round 4 - form slice: the snapshot arrays may be Fortran-ordered / non-contiguous / single precision (positions rounded to float32 first, "
    "so the oracle sees the stored numbers) / int32 species; ndim, nconfig, deltar, transform_matrix may be numpy scalars; the VolumeMatrix "
    "'requested frame' reference is then computed with the same storage form so that it can stay bit for bit",
    "round 4 - unwrap slice (L7): convert_configuration only shifts the origin, it does not fold; freud folds the points into its box itself, in "
    "single precision, so coordinates up to 4.5 box lengths from the origin are 8-16 times coarser: the tessellation of particles displaced by "
    "whole box lengths is compared with the oracle of the wrapped configuration at 16 x the usual tolerances (observed: face areas 1.4e-5); "
    "VolumeMatrix is not run on unwrapped input (its finite differences amplify that noise by 1 / (2 deltar))",
    "round 4 - readback: read_neighbors of the freud-written files with Nmax from {1, m-1, m, m+1, 200} (m = largest coordination number of a "
    "frame): cn capped at Nmax, the first Nmax listed values kept, zero padded to the largest capped cn (the C05 reader contract)",
    "VolumeMatrix of N >= 3 particles in general position is not identically zero (a displaced particle changes its own cell volume)",
    "C20.sequence: a call must write / return bit for bit what the same call does when made first in a fresh process, whatever was analysed "
    "before, whether earlier trajectory objects are still alive, and also after the arrays of the SAME Snapshots object were edited in place "
    "(the 'frozen' dataclass only freezes the attribute binding); freud is deterministic single-threaded (already relied on by "
    "C20.volmatrix.frame); L1 (options ignored in a mode), L3 (selections) and L8 (zero-valued options: deltar = 0 is a division by zero, "
    "nconfig = 0 is covered) have no counterpart in the two routines",
]

MINFACE = 1e-4
MINEDGE3D = 3e-3
MIN_CLEAN = {2: 0.9, 3: 0.5}   # scale slice: smallest fraction of particles whose cell is in general position
TOL_W = 2e-5
TOL_V = 1e-5
TOL_A = 5e-5

SITES = {2: [0, 4, 8, 2, 6, 1, 5, 3, 7], 3: [0, 13, 26, 2, 6, 18, 8, 24, 20]}
BOXES = {2: [[4.0, 4.0], [4.0, 6.0]], 3: [[4.0, 4.0, 4.0], [4.0, 6.0, 5.0]]}
ORIGINS = ["zero", "centred", "123", "sumzero"]


def origin(name, L):
    d = len(L)
    if name == "zero":
        return [0.0] * d
    if name == "centred":
        return [-x / 2 for x in L]
    if name == "123":
        return [1.0, 2.0, 3.0][:d]
    lo = [0.0, -(L[0] + L[1]) / 2]  # bounds sum to zero although the box is NOT centred on the origin
    if d == 3:
        lo.append(-L[2] / 2)
    return lo


def site_points(seed, d, L):
    return A.jl_points(seed, 3, d, L, tag=f"C20_{d}")


def subsets(d, nmin, nmax, nsites):
    idx = SITES[d][:nsites]
    for n in range(nmin, nmax + 1):
        for sub in itertools.combinations(range(len(idx)), n):
            yield [idx[i] for i in sub]


def frame(pts, sub, L, lo, seed=0, f=0, tag=""):
    d = len(L)
    p = []
    for k, i in enumerate(sub):
        p.append([pts[i][a] + lo[a] + (A.jitter(seed, f"{tag}f{f}_{i}", a, 0.35) if f else 0.0) for a in range(d)])
    return {"pos": p, "L": list(L), "lo": list(lo)}


def generic_frame(seed, n, L, lo, tag):
    g = A.generic_points(seed, n, len(L), tag=tag)
    return {"pos": [[g[i][a] * L[a] + lo[a] for a in range(len(L))] for i in range(n)], "L": list(L), "lo": list(lo)}


# ---------------------------------------------------------------------------------------------- generators
def gen_files(tier, seed):
    for d in (2, 3):
        nsites, nmax = ((6, 6) if d == 2 else (6, 5)) if tier == "quick" else ((9, 9) if d == 2 else (8, 8))
        for L in BOXES[d]:
            pts = site_points(seed, d, L)
            for on in ORIGINS:
                lo = origin(on, L)
                for sub in subsets(d, 2, nmax, nsites):
                    yield {"d": d, "origin": on, "frames": [frame(pts, sub, L, lo)]}
                for n in ((5, 8) if tier == "quick" else (3, 5, 8, 12)):
                    yield {"d": d, "origin": on, "frames": [generic_frame(seed, n, L, lo, f"C20g{d}{n}")]}
        # multi-frame files: same box, different positions; then a different box (size and origin) in every frame
        L = BOXES[d][1]
        pts = site_points(seed, d, L)
        for on in ORIGINS:
            lo = origin(on, L)
            for F in (2, 3):
                for sub in subsets(d, 2, 4 if tier == "quick" else 5, 5 if tier == "quick" else 6):
                    yield {"d": d, "origin": on, "frames": [frame(pts, sub, L, lo, seed, f, "mf") for f in range(F)]}
        for F in (2, 3):
            for sub in subsets(d, 3, 4, 5):
                fr = []
                for f in range(F):
                    Lf = BOXES[d][f % 2]
                    fr.append(frame(site_points(seed, d, Lf), sub, Lf, origin(ORIGINS[(f + 1) % 4], Lf), seed, f, "vb"))
                yield {"d": d, "origin": "varying", "frames": fr}
        yield from gen_strain(tier, seed, d)
        yield from gen_face(tier, seed, d)
        yield from gen_forms(tier, seed, d)
        yield from gen_unwrapped(tier, seed, d)


def gen_unwrapped(tier, seed, d):
    # (round 4, L7) unwrapped coordinates: every particle displaced by 0 / +2 / -3 / +4 whole box lengths per axis (the wrapper only
    # shifts the origin; freud folds the points into its box in single precision)
    for L in BOXES[d]:
        for on in ORIGINS:
            lo = origin(on, L)
            for n in ((5, 8) if tier == "quick" else (3, 5, 8, 12)):
                yield {"d": d, "origin": on, "unwrap": True, "frames": [generic_frame(seed, n, L, lo, f"C20u{d}{n}")]}
            sub = SITES[d][:4]
            yield {"d": d, "origin": on, "unwrap": True, "frames": [frame(site_points(seed, d, L), sub, L, lo, seed, f, "uw") for f in range(2)]}


def strain_frames(seed, d, sub, seq, oseq, tag):
    """F = 3 frames of an affinely strained trajectory: the same jittered lattice sites in every frame's own box"""
    return [frame(site_points(seed, d, Lf), sub, Lf, origin(on, Lf), seed, f, tag) for f, (Lf, on) in enumerate(zip(seq, oseq))]


def gen_strain(tier, seed, d):
    # (round 4, L2 / seed c20_a6) only SOME edge lengths change between consecutive frames (uniaxial strain along every axis, biaxial with
    # the last axis fixed), the change comes late, the box returns to the first one, all edges change; x origin sequences whose first / a
    # later frame is the centred box
    q = tier == "quick"
    for name, seq in Y.STRAIN[d].items():
        for oseq in Y.STRAIN_ORIGINS:
            for sub in subsets(d, 4 if q else 3, 4 if q else 5, 5 if q else 6):
                yield {"d": d, "origin": "varying" if len(set(oseq)) > 1 else oseq[0], "strain": name,
                       "frames": strain_frames(seed, d, sub, seq, oseq, "st")}


def gen_face(tier, seed, d):
    # (round 4, L4) particle 0 (and 1) EXACTLY on a face / the corner of the box; all box numbers are dyadic
    for L in BOXES[d]:
        for on in ORIGINS:
            lo = origin(on, L)
            for n in ((5, 8) if tier == "quick" else (4, 5, 8, 12)):
                base = generic_frame(seed, n, L, lo, f"C20face{d}{n}")
                for kind in Y.FACE_KINDS:
                    yield {"d": d, "origin": on, "face": kind, "frames": [dict(base, pos=Y.on_face(base["pos"], L, lo, kind))]}


def gen_forms(tier, seed, d):
    # (round 4, L5) storage of the snapshot arrays: Fortran-ordered / non-contiguous / single-precision positions, Fortran-ordered
    # bounds and h-matrix with a strided boxlength, int32 species.  For pos_float32 the coordinates are rounded to single precision
    # FIRST, so that the oracle sees the numbers the arrays hold.
    L = BOXES[d][1]
    pts = site_points(seed, d, L)
    picks = list(subsets(d, 4, 4, 5))[: (2 if tier == "quick" else 5)]
    for form in Y.FORMS:
        for on in ORIGINS:
            lo = origin(on, L)
            for sub in picks:
                fr = frame(pts, sub, L, lo)
                if form == "pos_float32":
                    fr["pos"] = Y.f32(fr["pos"])
                yield {"d": d, "origin": on, "form": form, "frames": [fr]}
        for sub in picks:
            fr = strain_frames(seed, d, sub, Y.STRAIN[d]["x_only"], Y.STRAIN_ORIGINS[1], "fm")
            if form == "pos_float32":
                for x in fr:
                    x["pos"] = Y.f32(x["pos"])
            yield {"d": d, "origin": "varying", "form": form, "strain": "x_only", "frames": fr}


def gen_volmatrix(tier, seed):
    for d in (2, 3):
        L = BOXES[d][1]
        pts = site_points(seed, d, L)
        nmax = (5 if d == 2 else 4) if tier == "quick" else (6 if d == 2 else 5)
        subs_ = list(subsets(d, 2, nmax, 5 if tier == "quick" else 6))
        for si, sub in enumerate(subs_):
            n = len(sub)
            for F in (1, 2, 3):
                if F > 1 and si % 3:
                    continue
                for on in (ORIGINS if F == 1 else ["zero", "sumzero"]):
                    lo = origin(on, L)
                    frames = [frame(pts, sub, L, lo, seed, f, "vm") for f in range(F)]
                    for k in range(F):
                        for transform in (False, True):
                            for save in (False, True):
                                if save and (F == 3 or on in ("centred", "123")):
                                    continue
                                # the scipy finite-difference oracle is expensive in 3D: raw matrix, small N only
                                orc = (not transform) and (not save) and (n <= (5 if d == 2 else 3) or (tier == "thorough" and n <= 4 and F == 1))
                                yield {"d": d, "origin": on, "frames": frames, "nconfig": k, "transform": transform, "save": save,
                                       "oracle": orc, "deltar": 0.01}
        # another step size (raw matrix, oracle)
        for sub in subsets(d, 3, 3, 4):
            yield {"d": d, "origin": "zero", "frames": [frame(pts, sub, L, origin("zero", L))], "nconfig": 0, "transform": False,
                   "save": False, "oracle": True, "deltar": 0.02}
        # ---- round 4: strained trajectories (only some edges change per frame), every requested frame
        q = tier == "quick"
        small = 4 if d == 2 else 3
        picks = list(subsets(d, 3, small, 5))[: (4 if q else 12)]
        for name, seq in Y.STRAIN[d].items():
            for oi, oseq in enumerate(Y.STRAIN_ORIGINS[1:3]):
                for si, sub in enumerate(picks):
                    if q and (si + oi) % 2:
                        continue
                    frames = strain_frames(seed, d, sub, seq, oseq, "vs")
                    for k in range(3):
                        yield {"d": d, "origin": "varying", "strain": name, "frames": frames, "nconfig": k, "transform": False, "save": False,
                               "oracle": True, "deltar": 0.01}
                    yield {"d": d, "origin": "varying", "strain": name, "frames": frames, "nconfig": 2, "transform": True, "save": False,
                           "oracle": False, "deltar": 0.01}
        # ---- round 4: a particle exactly on a face / the corner of the box
        for on in ("123", "sumzero"):
            lo = origin(on, L)
            base = generic_frame(seed, small, L, lo, f"C20vmface{d}")
            for kind in ("lo_x", "hi_last", "corner", "lo_and_hi"):
                yield {"d": d, "origin": on, "face": kind, "frames": [dict(base, pos=Y.on_face(base["pos"], L, lo, kind))], "nconfig": 0,
                       "transform": False, "save": False, "oracle": True, "deltar": 0.01}
        # ---- round 4: storage forms of the snapshot arrays, numpy scalars for ndim / nconfig / deltar
        for form in Y.FORMS + ["scalar_numpy"]:
            for sub in picks[-2:]:
                frames = strain_frames(seed, d, sub, Y.STRAIN[d]["x_only"], Y.STRAIN_ORIGINS[2], "vf")[:2]
                if form == "pos_float32":
                    for x in frames:
                        x["pos"] = Y.f32(x["pos"])
                for k in (0, 1):
                    yield {"d": d, "origin": "varying", "form": form, "strain": "x_only", "frames": frames, "nconfig": k, "transform": False,
                           "save": False, "oracle": True, "deltar": 0.01}


# ---------------------------------------------------------------------------------------------- scale slice (generators)
# Sizes straddling 64 / 128 / 256 (ids with 2-3 digits).  These generators enumerate SIZES; there is one fixed deterministic point
# pattern per size, box and frame.  Boxes have unequal edges (each axis is the longest one in some box), the box (shape at EQUAL volume,
# then volume) and the origin change from frame to frame in the F = 3 files.
SC_N = {2: {"quick": [65, 130, 257], "thorough": [64, 65, 130, 257]}, 3: {"quick": [64, 130], "thorough": [64, 130]}}
VM_N = {2: [10, 33, 65], 3: [10, 22]}


def sc_boxes(d, n):
    if d == 2:
        s = 1.0 if n <= 65 else (1.5 if n <= 130 else 2.0)
        base = [[6.0, 9.0], [9.0, 6.0], [7.5, 9.0]]
    else:
        s = 1.0 if n <= 64 else 1.25
        base = [[6.0, 9.0, 7.5], [7.5, 6.0, 9.0], [9.0, 7.5, 6.0]]
    return [[x * s for x in L] for L in base]


def vm_boxes(d, n):
    if d == 2:
        s = 1.0 if n <= 10 else (1.5 if n <= 33 else 2.0)
        base = [[4.0, 6.0], [6.0, 4.0], [5.0, 6.0]]
    else:
        s = 1.0
        base = [[4.0, 5.0, 6.0], [5.0, 4.0, 6.0], [4.0, 6.0, 5.0]]
    return [[x * s for x in L] for L in base]


def varying_frames(seed, n, B, k, tag):
    fr = []
    for f in range(3):
        L = B[(f + k) % 3]
        fr.append(generic_frame(seed, n, L, origin(ORIGINS[(f + k + 1) % 4], L), f"{tag}_{k}{f}"))
    return fr


def gen_scale_files(tier, seed):
    for d in (2, 3):
        for n in SC_N[d][tier]:
            B = sc_boxes(d, n)
            for oi, on in enumerate(ORIGINS):
                L = B[oi % 3]
                yield {"scale": True, "d": d, "origin": on, "frames": [generic_frame(seed, n, L, origin(on, L), f"C20S{d}_{n}_{oi}")]}
            for k in (0, 1):
                yield {"scale": True, "d": d, "origin": "varying", "frames": varying_frames(seed, n, B, k, f"C20S{d}_{n}v")}
    # many frames in one file: 12 particles (2D), 65 frames, box and origin changing with every frame
    B = sc_boxes(2, 12)
    fr = []
    for f in range(65):
        L = B[0] if f == 64 else B[f % 3]   # the last frame returns to the box of the first one (cyclic compression)
        fr.append(generic_frame(seed, 12, L, origin(ORIGINS[f % 4], L), f"C20S2_many{f}"))
    yield {"scale": True, "d": 2, "origin": "varying", "frames": fr}


def gen_scale_volmatrix(tier, seed):
    for d in (2, 3):
        for si, n in enumerate(VM_N[d]):
            B = vm_boxes(d, n)
            if tier == "quick":
                cols = sorted({0, n // 2, n - 1})
            else:
                cols = list(range(n)) if n <= (33 if d == 2 else 10) else sorted({(k * (n - 1)) // 7 for k in range(8)})
            base = {"scale": True, "d": d, "save": False, "oracle": False}
            on = ORIGINS[si % 4]
            for bi in ((0,) if tier == "quick" else (0, 1, 2)):
                L = B[bi]
                yield dict(base, origin=on, frames=[generic_frame(seed, n, L, origin(on, L), f"C20V{d}_{n}_{bi}")], nconfig=0, transform=False,
                           oracle_cols=cols, deltar=0.01)
            fr = varying_frames(seed, n, B, si % 2, f"C20V{d}_{n}v")
            for k in ((1 + si % 2,) if tier == "quick" else (0, 1, 2)):
                yield dict(base, origin="varying", frames=fr, nconfig=k, transform=False, oracle_cols=cols, deltar=0.02)
            yield dict(base, origin="varying", frames=fr, nconfig=1, transform=True, save=True, oracle_cols=[], deltar=0.01)


# ---------------------------------------------------------------------------------------------- helpers
def build(case):
    from PyMatterSim.reader.reader_utils import Snapshots

    snaps = []
    for t, fr in enumerate(case["frames"]):
        n = len(fr["pos"])
        pos = fr["pos"]
        if case.get("unwrap"):
            pos = [[x + Y.UNWRAP[(i + 2 * a + t + 1) % 4] * fr["L"][a] for a, x in enumerate(p)] for i, p in enumerate(pos)]
        snaps.append(mk_snap(pos, np.diag(fr["L"]), [1] * n, lo=fr["lo"], ts=t))
    out = Snapshots(len(snaps), snaps)
    if case.get("form") in Y.FORMS:
        out = Y.with_form(out, case["form"])
    return out


def extra_sig(case, sig):
    """coarse features of the round-4 slices"""
    for k in ("strain", "face", "form", "unwrap"):
        if case.get(k):
            sig[k] = case[k] if k == "form" else True
    return sig


def tessellate(case):
    """scipy oracle for every frame + the general-position screen (whole configuration).  Per frame (nb, vols, clean[i])."""
    out = []
    for fr in case["frames"]:
        nb, vols, ok, min_edge = NB.periodic_voronoi(np.array(fr["pos"]), fr["L"])
        if not ok or NB.voronoi_min_face(nb) < MINFACE or min_edge < MINEDGE3D:
            return None
        out.append((nb, vols, [True] * len(vols)))
    return out


def tessellate_pp(case):
    """scale slice: the same oracle with the general-position screen evaluated per particle (mc/ref/c20x.py)"""
    out = []
    for fr in case["frames"]:
        nb, vols, ok, clean = X.periodic_voronoi_pp(np.array(fr["pos"]), fr["L"], MINFACE, MINEDGE3D, band=2.0)
        if not ok or clean.mean() < MIN_CLEAN[len(fr["L"])]:
            return None
        out.append((nb, vols, clean.tolist()))
    return out


def read_text(path):
    with open(path) as f:
        return f.read()


# ---------------------------------------------------------------------------------------------- C20.files
def run_files(case):
    from PyMatterSim.neighbors.freud_neighbors import cal_neighbors
    from PyMatterSim.neighbors.read_neighbors import read_neighbors

    R = Result()
    d = case["d"]
    F = len(case["frames"])
    n = len(case["frames"][0]["pos"])
    sig = {"d": d, "origin": case["origin"], "F": F}
    if case.get("scale"):
        sig["scale"] = True
    extra_sig(case, sig)
    ref = tessellate_pp(case) if case.get("scale") else tessellate(case)
    if ref is None:
        return R.screen()
    snaps = build(case)
    before = [s.positions.copy() for s in snaps.snapshots]
    out = "c20out"
    compared = 0
    # unwrapped coordinates are up to 4.5 box lengths from the origin: freud's single-precision storage is 8-16 times coarser there
    tw, tv, ts_, tsum = (TOL_W, TOL_V, 2e-6, 1e-6) if not case.get("unwrap") else (16 * TOL_W, 16 * TOL_V, 3.2e-5, 1.6e-5)
    cal_neighbors(snaps, outputfile=out)
    bond = out + (".edgelength.dat" if d == 2 else ".facearea.dat")
    names = {"neighbor": out + ".neighbor.dat", "bond": bond, "overall": out + ".overall.dat"}
    missing = [k for k, p in names.items() if not os.path.exists(p)]
    if missing:
        R.fail(f"files not written: {missing}", sig=dict(sig, clause="files"), sub="C20.files")
        return R
    tn, tb, to = (read_text(names[k]) for k in ("neighbor", "bond", "overall"))
    pn, prn = NB.parse_listfile(tn)
    pb, prb = NB.parse_listfile(tb)
    po, pro = NB.parse_listfile(to)
    for which, pr in (("neighbor", prn), ("bond", prb), ("overall", pro)):
        for x in pr:
            R.fail(f"{which} file grammar: {x}", sig=dict(sig, clause="files", file=which), sub="C20.files")
    if len(pn) != F or len(pb) != F:
        R.fail(f"{len(pn)} / {len(pb)} frame headers in the neighbour / bond file for {F} frames", sig=dict(sig, clause="files"), sub="C20.files")
        return R
    if len(po) != 1 or len(po[0]["rows"]) != F * n:
        R.fail(f"overall file: {len(po)} headers, {sum(len(x['rows']) for x in po)} rows; expected 1 header and {F * n} rows",
               sig=dict(sig, clause="files", file="overall"), sub="C20.files")
        return R
    outcome = []
    for t in range(F):
        nb_ref, vol_ref, clean = ref[t]
        s2 = dict(sig)
        # -- every particle once per frame, in id order, cn = number of listed values
        ok = True
        for which, fr in (("neighbor", pn[t]), ("bond", pb[t])):
            ids = [r[0] for r in fr["rows"]]
            if ids != list(range(1, n + 1)):
                R.fail(f"frame {t}: {which} file ids {ids} are not 1..{n} in order", sig=dict(s2, clause="files", file=which), sub="C20.files")
                ok = False
            for pid, cn, vals in fr["rows"]:
                if cn != len(vals):
                    R.fail(f"frame {t}: {which} file id {pid}: cn {cn} but {len(vals)} values listed", sig=dict(s2, clause="cn", file=which), sub="C20.cn")
                    ok = False
        if "neighborlist" not in pn[t]["header"] or "neighborlist" in pb[t]["header"]:
            R.fail(f"frame {t}: headers {pn[t]['header']} / {pb[t]['header']}", sig=dict(s2, clause="files", file="header"), sub="C20.files")
        orows = po[0]["rows"][t * n:(t + 1) * n]
        if [r[0] for r in orows] != list(range(1, n + 1)) or any(len(r[2]) != 1 for r in orows):
            R.fail(f"frame {t}: overall file rows are not ids 1..{n} in order with one size each", sig=dict(s2, clause="files", file="overall"), sub="C20.files")
            ok = False
        if not ok:
            continue
        nl = [[int(v) - 1 for v in r[2]] for r in pn[t]["rows"]]
        wl = [[float(v) for v in r[2]] for r in pb[t]["rows"]]
        vol = [float(r[2][0]) for r in orows]
        outcome.append([nl, wl, vol])
        for i in range(n):
            if not (len(nl[i]) == len(wl[i]) == orows[i][1] == pn[t]["rows"][i][1] == pb[t]["rows"][i][1]):
                R.fail(f"frame {t}: particle {i + 1}: {len(nl[i])} neighbours, {len(wl[i])} weights, cn {pn[t]['rows'][i][1]} / "
                       f"{pb[t]['rows'][i][1]} / {orows[i][1]} in the three files", sig=dict(s2, clause="cn"), sub="C20.cn")
                ok = False
            if any(j < 0 or j >= n for j in nl[i]):
                R.fail(f"frame {t}: particle {i + 1}: neighbour id outside 1..{n}", sig=dict(s2, clause="files", file="neighbor"), sub="C20.files",
                       obs=[j + 1 for j in nl[i]])
                ok = False
        if not ok:
            continue
        # -- symmetric as a multiset, weights positive and equal both ways
        for i in range(n):
            for j in sorted(set(nl[i])):
                if not (clean[i] and clean[j]):
                    continue   # (scale slice) a near-degenerate vertex touches one of the two cells
                wij = sorted(w for k, w in zip(nl[i], wl[i]) if k == j)
                wji = sorted(w for k, w in zip(nl[j], wl[j]) if k == i)
                if len(wij) != len(wji):
                    R.fail(f"frame {t}: {j + 1} listed {len(wij)}x by {i + 1} but {i + 1} listed {len(wji)}x by {j + 1}",
                           sig=dict(s2, clause="symmetric"), sub="C20.symmetric", obs=[[x + 1 for x in l] for l in nl])
                elif any(abs(a - b) > ts_ for a, b in zip(wij, wji)):
                    R.fail(f"frame {t}: weights of {i + 1}->{j + 1} {wij} differ from {j + 1}->{i + 1} {wji}", sig=dict(s2, clause="weights_equal"),
                           sub="C20.weights")
            if any(not w > 0 for w in wl[i]):
                R.fail(f"frame {t}: particle {i + 1} has a non-positive weight", sig=dict(s2, clause="weights_positive"), sub="C20.weights", obs=wl[i])
        # -- volumes
        V = float(np.prod(case["frames"][t]["L"]))
        if abs(sum(vol) - V) > n * tsum or any(not v > 0 for v in vol):
            R.fail(f"frame {t}: cell sizes sum to {sum(vol)!r}, box {V!r}", sig=dict(s2, clause="volumes"), sub="C20.volumes", obs=vol)
        # -- independent tessellation
        for i in range(n):
            got = sorted(zip(nl[i], wl[i]))
            exp = sorted(nb_ref[i])
            if not clean[i]:
                pass
            elif [g[0] for g in got] != [e[0] for e in exp]:
                R.fail(f"frame {t}: particle {i + 1}: neighbours differ from the scipy tessellation", sig=dict(s2, clause="oracle_neighbours"),
                       sub="C20.oracle", exp=[e[0] + 1 for e in exp], obs=[g[0] + 1 for g in got])
            elif any(abs(g[1] - e[1]) > tw + (e[2] if len(e) > 2 else 0.0) for g, e in zip(got, exp)):
                R.fail(f"frame {t}: particle {i + 1}: {'edge lengths' if d == 2 else 'face areas'} differ from the scipy tessellation",
                       sig=dict(s2, clause="oracle_weights"), sub="C20.oracle", exp=exp, obs=got)
            compared += bool(clean[i])
            if abs(vol[i] - vol_ref[i]) > tv:
                R.fail(f"frame {t}: particle {i + 1}: cell size {vol[i]} differs from the scipy tessellation {vol_ref[i]}",
                       sig=dict(s2, clause="oracle_volumes"), sub="C20.oracle")
    # -- readable by the neighbour-file reader, frame after frame from one handle
    if not R.viol:
        with open(names["neighbor"]) as fnb, open(names["bond"]) as fw:
            for t in range(F):
                a = read_neighbors(fnb, n, 200)
                b = read_neighbors(fw, n, 200)
                ea = NB.ref_read([[float(v) for v in r[2]] for r in pn[t]["rows"]], n, 200, True)
                eb = NB.ref_read([[float(v) for v in r[2]] for r in pb[t]["rows"]], n, 200, False)
                if a.shape != ea.shape or not np.array_equal(a, ea) or a.dtype.kind not in "iu":
                    R.fail(f"frame {t}: read_neighbors of the neighbour file differs from its content (ids - 1)", sig=dict(sig, clause="readback", file="neighbor"),
                           sub="C20.readback", exp=ea, obs=a)
                if b.shape != eb.shape or not np.array_equal(b, eb) or b.dtype.kind != "f":
                    R.fail(f"frame {t}: read_neighbors of the bond file differs from its content (verbatim floats)", sig=dict(sig, clause="readback", file="bond"),
                           sub="C20.readback", exp=eb, obs=b)
            if fnb.readline() != "" or fw.readline() != "":
                R.fail("data left after the last frame", sig=dict(sig, clause="readback"), sub="C20.readback")
        # (round 4) the reader's truncation to a requested maximum BELOW / AT / ABOVE the coordination numbers of the freud-written
        # files: every rotation of the alphabet {1, m-1, m, m+1, 200} over the frames of one open handle per file (the two files are
        # read with different values in the same step)
        vn = [[[float(v) for v in r[2]] for r in pn[t]["rows"]] for t in range(F)]
        vb = [[[float(v) for v in r[2]] for r in pb[t]["rows"]] for t in range(F)]
        alph = NB.nmax_alphabet(vn)
        for s_ in range(len(alph) if F * n <= 2000 else 2):
            with open(names["neighbor"]) as fnb, open(names["bond"]) as fw:
                for t in range(F):
                    m = max(len(x) for x in vn[t])
                    for fh, vals, is_nl, nm in ((fnb, vn[t], True, alph[(s_ + t) % len(alph)]), (fw, vb[t], False, alph[(s_ + t + 1) % len(alph)])):
                        tab = read_neighbors(fh, n, nm)
                        exp = NB.ref_read(vals, n, nm, is_nl)
                        if tab.shape != exp.shape or not np.array_equal(tab, exp) or (tab.dtype.kind in "iu") != is_nl:
                            R.fail(f"frame {t}: read_neighbors(Nmax={nm}) of the {'neighbour' if is_nl else 'bond'} file (largest cn {m}) differs from "
                                   "'cn capped at Nmax, the first Nmax listed values, zero padded to the largest capped cn'",
                                   sig=dict(sig, clause="readback", file="neighbor" if is_nl else "bond",
                                            Nmax="below" if nm < m else ("equal" if nm == m else "above")), sub="C20.readback", exp=exp, obs=tab)
    for s, b in zip(snaps.snapshots, before):
        if not np.array_equal(s.positions, b):
            R.fail("snapshot positions modified", sig=dict(sig, clause="input_modified"), sub="C20.files")
    for p in names.values():
        os.remove(p)
    R.outcome(outcome, nd=5)
    R.nontrivial = (n >= 3 or F > 1) and compared > 0
    R.elem = n * F
    return R


# ---------------------------------------------------------------------------------------------- C20.volmatrix
def run_volmatrix(case):
    from PyMatterSim.neighbors.freud_neighbors import VolumeMatrix
    from PyMatterSim.reader.reader_utils import Snapshots

    R = Result()
    d = case["d"]
    F = len(case["frames"])
    k = case["nconfig"]
    n = len(case["frames"][0]["pos"])
    tr = case["transform"]
    sig = {"d": d, "origin": case["origin"], "F": F, "nconfig": "0" if k == 0 else ">0", "transform": tr, "save": case["save"]}
    extra_sig(case, sig)
    if case.get("scale"):
        sig["scale"] = True   # no general-position screen: cell volumes do not depend on how a near-degenerate vertex is resolved
    elif tessellate(case) is None:
        return R.screen()
    snaps = build(case)
    before = [s.positions.copy() for s in snaps.snapshots]
    out = "c20vm" if case["save"] else (None if case.get("scale") else "")
    if case.get("form") == "scalar_numpy":
        M = VolumeMatrix(snaps, ndim=np.int64(d), nconfig=np.int32(k), deltar=np.float32(case["deltar"]), transform_matrix=np.bool_(tr), outputfile=out)
    else:
        M = VolumeMatrix(snaps, ndim=d, nconfig=k, deltar=case["deltar"], transform_matrix=tr, outputfile=out)
    M = np.asarray(M)
    shape = (n * d, n * d) if tr else (n, n * d)
    if M.shape != shape:
        R.fail(f"shape {M.shape}, expected {shape}", sig=dict(sig, clause="shape"), sub="C20.volmatrix.frame")
        return R
    # -- the requested frame: same result as on a one-frame Snapshots holding frame k
    one = Snapshots(1, [mk_snap(case["frames"][k]["pos"], np.diag(case["frames"][k]["L"]), [1] * n, lo=case["frames"][k]["lo"], ts=0)])
    dl = case["deltar"]
    if case.get("form") in Y.FORMS:
        one = Y.with_form(one, case["form"])       # the same storage form, so that the comparison can stay bit for bit
    elif case.get("form") == "scalar_numpy":
        dl = np.float32(dl)
    M1 = np.asarray(VolumeMatrix(one, ndim=d, nconfig=0, deltar=dl, transform_matrix=tr, outputfile=""))
    if M1.shape != M.shape or not np.array_equal(M, M1, equal_nan=True):
        R.fail(f"VolumeMatrix(nconfig={k}) of {F} frames differs from VolumeMatrix of frame {k} alone", sig=dict(sig, clause="frame"),
               sub="C20.volmatrix.frame", exp=M1, obs=M)
    # -- rows sum to zero over each displaced coordinate (translation invariance)
    rs = np.array([[M[i, a::d].sum() for a in range(d)] for i in range(M.shape[0])])
    scale = max(1.0, float(np.abs(M).max()))
    if not np.all(np.isfinite(M)):
        R.fail("non-finite entries", sig=dict(sig, clause="finite"), sub="C20.volmatrix.rows")
    elif not tr and np.abs(rs).max() > 1e-9 * scale:
        R.fail(f"row sums over a displaced coordinate up to {np.abs(rs).max():.3g}", sig=dict(sig, clause="rows"), sub="C20.volmatrix.rows", obs=rs)
    # -- non-vacuity: for N >= 3 particles in general position the response matrix is not identically zero (zero row sums hold trivially
    #    for a matrix of zeros; N = 2 vanishes identically by inversion symmetry)
    if n >= 3 and not np.any(M):
        R.fail(f"VolumeMatrix(nconfig={k}) is identically zero for {n} particles in general position", sig=dict(sig, clause="all_zero"),
               sub="C20.volmatrix.oracle")
    # -- the documented definition on the requested frame (raw matrix only)
    if case["oracle"] and not tr:
        fr = case["frames"][k]
        Aref = NB.ref_volume_matrix(np.array(fr["pos"]), fr["L"], d, case["deltar"])
        # tolerance relative for entries > 1 (a neighbour very close across a face makes entries of several units; the central difference of
        # freud's single-precision volumes carries ~1e-6 / (2 deltar) of noise per unit of volume change)
        if (np.abs(M - Aref) / np.maximum(1.0, np.abs(Aref))).max() > TOL_A:
            ij = np.unravel_index(int(np.argmax(np.abs(M - Aref) / np.maximum(1.0, np.abs(Aref)))), M.shape)
            R.fail(f"entry {list(map(int, ij))}: {M[ij]!r}, finite-difference reference on frame {k}: {Aref[ij]!r}", sig=dict(sig, clause="oracle"),
                   sub="C20.volmatrix.oracle", exp=Aref, obs=M)
    if case.get("oracle_cols") and not tr:
        # scale slice: the same definition on a subset of displaced particles; tolerance relative for entries > 1 (small cells)
        fr = case["frames"][k]
        cols, Aref = X.ref_volume_columns(np.array(fr["pos"]), fr["L"], d, case["deltar"], case["oracle_cols"])
        dev = np.abs(M[:, cols] - Aref) / np.maximum(1.0, np.abs(Aref))
        dev[np.isnan(Aref)] = 0.0
        if dev.max() > TOL_A:
            i, c = np.unravel_index(int(np.argmax(dev)), dev.shape)
            R.fail(f"entry {[int(i), int(cols[c])]}: {M[i, cols[c]]!r}, finite-difference reference on frame {k}: {Aref[i, c]!r} (N={n})",
                   sig=dict(sig, clause="oracle"), sub="C20.volmatrix.oracle")
    # -- saving works in both modes: the file holds the returned matrix
    if case["save"]:
        path = out + ".npy"
        if not os.path.exists(path):
            R.fail(f"{path} not written", sig=dict(sig, clause="save"), sub="C20.volmatrix.save")
        else:
            S = np.load(path)
            if S.shape != M.shape or not np.array_equal(S, M, equal_nan=True):
                R.fail("saved matrix differs from the returned one", sig=dict(sig, clause="save"), sub="C20.volmatrix.save", exp=M, obs=S)
            os.remove(path)
        if os.path.exists(out):
            os.remove(out)
    for s, b in zip(snaps.snapshots, before):
        if not np.array_equal(s.positions, b):
            R.fail("snapshot positions modified", sig=dict(sig, clause="input_modified"), sub="C20.volmatrix.frame")
    R.outcome(M if not tr else np.round(M1, 3), nd=5)
    R.nontrivial = n >= 3
    R.elem = int(M.size)
    return R


# ---------------------------------------------------------------------------------------------- C20.sequence (round 4, L6)
# Letters = (trajectory, version, operation): complete argument tuples of cal_neighbors (+ read_neighbors of what it wrote) and
# VolumeMatrix.  Pairs collide in plausible INCOMPLETE cache keys: A / B / D have equal (nframes, nparticle, ndim); D shares its whole
# first frame with A (a key built from frame 0); A version 1 is the SAME object with box, bounds, h-matrix and positions rescaled IN
# PLACE (a key built from id(snapshots)); C is 3D with the same nframes / nparticle (2D then 3D); all cal letters write the same file
# names; with keep = False earlier trajectories are released before a new one is built, so id() values are recycled.
SEQ_LETTERS = [("A", 0, "cal"), ("A", 1, "cal"), ("B", 0, "cal"), ("D", 0, "cal"), ("C", 0, "cal"),
               ("A", 0, "vm1"), ("A", 1, "vm1"), ("B", 0, "vm1"), ("D", 0, "vm1"), ("A", 0, "vm0"), ("C", 0, "vm1")]


def gen_sequence(tier, seed):
    depth = 2 if tier == "quick" else 3
    nl = len(SEQ_LETTERS)
    for Lw in range(1, depth + 1):
        for word in itertools.product(range(nl), repeat=Lw):
            if Lw == 3 and len(set(word)) == 1:
                continue
            for keep in ((True,) if Lw == 1 else (True, False)):
                yield {"part": "sequence", "word": list(word), "keep": keep, "seed": seed}


_SEQ_FRESH = {}


def _seq_case(case, word):
    return {"seed": case["seed"], "keep": True, "word": [list(SEQ_LETTERS[k]) for k in word]}


def run_sequence(case):
    R = Result()
    seed = case["seed"]
    names = ["%s%d.%s" % SEQ_LETTERS[k] for k in case["word"]]
    payload = X3.fresh_child(Y.seq_eval, dict(_seq_case(case, case["word"]), keep=case["keep"]), Y.SEQ_MODS)
    if "err" in payload:
        R.fail(f"call sequence {names} raised {payload['err']}", sig={"part": "sequence", "exception": True})
        return R
    for k in set(case["word"]):
        if (seed, k) not in _SEQ_FRESH:
            one = X3.fresh_child(Y.seq_eval, _seq_case(case, [k]), Y.SEQ_MODS)
            if "err" in one:
                R.fail(f"single call {names} raised {one['err']}", sig={"part": "sequence", "exception": True})
                return R
            _SEQ_FRESH[(seed, k)] = json.dumps(one["ok"][0]["res"], sort_keys=True)
    states = set()
    released = recycled = 0
    seen_objs = set()
    for pos_, (k, got) in enumerate(zip(case["word"], payload["ok"])):
        obj, ver, op = SEQ_LETTERS[k]
        g = json.dumps(got["res"], sort_keys=True)
        if not case["keep"] and seen_objs and obj not in seen_objs:
            released += 1
            recycled += bool(got["recycled"])
        if not case["keep"] and obj not in seen_objs:
            seen_objs = {obj}
        else:
            seen_objs.add(obj)
        if g != _SEQ_FRESH[(seed, k)]:
            how = "edited in place" if got["edited"] else ("on a recycled id()" if got["recycled"] else "after other calls")
            R.fail(f"call #{pos_ + 1} ({names[pos_]}, {how}) of the sequence {names} (keep={case['keep']}) differs from the same call made first in a "
                   "fresh process", sig={"part": "sequence", "op": op[:2], "position": "later" if pos_ else "first", "edited": bool(got["edited"]),
                                         "recycled": bool(got["recycled"])},
                   exp=_SEQ_FRESH[(seed, k)][:300], obs=g[:300])
        states.add(g[:4000])
    R.outcome(sorted(states), nd=9)
    R.states = len(case["word"]) + 1
    R.transitions = len(case["word"])
    R.elem = len(case["word"])
    R.nontrivial = released == recycled     # a released trajectory's id() must actually have been handed to the next one
    return R


def subs(tier, seed):
    q = tier == "quick"
    return [
        Sub("C20.files", gen_files, run_files,
            rule="placements = all N-subsets of %s sites of a jittered 3^d lattice (2D N=2..%d, 3D N=2..%d) + generic point sets; boxes 4x4(x4), "
            "4x6(x5); origins {0, centred, (1,2,3), off-centre with bounds summing to zero}; F=2,3 files (same box; box size and origin "
            "changing per frame); non-trivial = N >= 3 or F > 1" % (("6", 6, 5) if q else ("9 (2D) / 8 (3D)", 9, 8))
            + "; round 4: F=3 STRAINED trajectories (all N-subsets, N=%s, of %d sites x box sequences %s (2D) / %s (3D): only x / only the last axis / "
            "all but the last axis change, late change, return to the first box, all change) x 4 origin sequences (constant, centred box first / later); "
            "a particle EXACTLY on a face / the corner (%s) of generic N=%s sets x boxes x origins; storage forms %s x origins (+ a strained F=3 file); "
            "particles displaced by 0 / +2 / -3 / +4 box lengths per axis (16 x tolerances); read_neighbors of both written files with every rotation of "
            "Nmax in {1, m-1, m, m+1, 200} over the frames" % ("4" if q else "3..5", 5 if q else 6, sorted(Y.STRAIN[2]), sorted(Y.STRAIN[3]), Y.FACE_KINDS,
                                                               "5, 8" if q else "4, 5, 8, 12", Y.FORMS),
            bounds={"N2d": [2, 6 if q else 9], "N3d": [2, 5 if q else 8], "F": [1, 3], "origins": ORIGINS, "strain_sequences": 6, "faces": len(Y.FACE_KINDS),
                    "forms": len(Y.FORMS), "unwrap_boxes": [-3, 4]}),
        Sub("C20.volmatrix", gen_volmatrix, run_volmatrix,
            rule="N-subsets of %d lattice sites (2D N<=%d, 3D N<=%d) x F in {1,2,3} x every requested frame index x transform_matrix on/off x "
            "outputfile on/off x origins; scipy finite-difference oracle on the raw matrix for small N; non-trivial = N >= 3"
            % ((5, 5, 4) if q else (6, 6, 5))
            + "; round 4: the 6 strained F=3 box sequences x 2 origin sequences x every requested frame (oracle on each) + transformed matrix of the last "
            "frame; a particle exactly on a face / corner; storage forms of the snapshot arrays and numpy scalars for ndim / nconfig / deltar",
            bounds={"F": [1, 3], "nconfig": "0..F-1", "deltar": [0.01, 0.02], "strain_sequences": 6}),
        Sub("C20.scale.files", gen_scale_files, run_files,
            rule="SCALE slice - enumerates SIZES with one fixed deterministic generic point pattern per size, box and frame: cal_neighbors on "
            "N in %s (2D) / %s (3D) particles; boxes with unequal edges (6x9, 9x6, 7.5x9 / 6x9x7.5 and its rotations, scaled with N); the four "
            "origins; one 65-frame file of 12 particles (2D); F=1 and F=3 files whose box (first the shape at EQUAL volume, then the volume) and origin change per frame; every "
            "invariant of C20.files plus the scipy periodic-Voronoi oracle, with the general-position screen evaluated PER PARTICLE (cells "
            "touched by a near-degenerate vertex are compared for grammar, cn and volume only; >= 90 %% (2D) / 50 %% (3D) of the cells of "
            "every frame must be comparable)" % (SC_N[2][tier], SC_N[3][tier]),
            bounds={"N2d": SC_N[2][tier], "N3d": SC_N[3][tier], "F": [1, 3]}),
        Sub("C20.scale.volmatrix", gen_scale_volmatrix, run_volmatrix,
            rule="SCALE slice - enumerates SIZES: VolumeMatrix on N in %s (2D) / %s (3D) generic particles; boxes longer in y or z than in x "
            "(4x6, 6x4, 5x6 scaled with N / 4x5x6, 5x4x6, 4x6x5); F=1 and F=3 with box and origin changing per frame, requested frame %s; "
            "rows sum to zero, equals the one-frame computation bit for bit, finite-difference scipy reference on the columns of %s; "
            "transformed matrix + saving on the F=3 file" % (VM_N[2], VM_N[3], "1 or 2" if q else "0, 1, 2",
                                                             "3 displaced particles (first, middle, last)" if q else "all (N <= 33 / 10) or 8 displaced particles"),
            bounds={"N2d": VM_N[2], "N3d": VM_N[3], "F": [1, 3], "deltar": [0.01, 0.02]}),
        Sub("C20.sequence", gen_sequence, run_sequence,
            rule=f"explicit-state search over call words of length <= {2 if q else 3} over {len(SEQ_LETTERS)} letters (trajectory, version, operation): "
            "cal_neighbors (+ read_neighbors of the files it wrote, Nmax 200 / 3) and VolumeMatrix(nconfig 0 / 1, raw) on four 2-frame 5-particle "
            "trajectories - A, B, D with equal (nframes, nparticle, ndim) and uniaxially strained boxes, D sharing its whole first frame with A, C "
            "three-dimensional - and on A after its arrays (positions, boxlength, boxbounds, hmatrix) were rescaled by 1.25 IN PLACE on the live "
            "object; every word with all trajectories kept alive and with earlier ones released before the next is built (the id() of the released "
            "object is handed to the new one; a word where that did not happen counts as trivial); every word in a forked child whose library "
            "modules were re-imported; every call must return / write bit for bit what the same call does when made first in a fresh child",
            bounds={"letters": len(SEQ_LETTERS), "depth": 2 if q else 3, "lifetimes": 2}),
    ]
