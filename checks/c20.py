"""C20 - freud Voronoi wrapper: output files are a consistent tessellation in the library format (E1).

Runner subs            clause subs reported by them
  C20.files            C20.files, C20.cn, C20.symmetric, C20.weights, C20.volumes, C20.oracle, C20.readback
  C20.volmatrix        C20.volmatrix.frame, C20.volmatrix.rows, C20.volmatrix.save, C20.volmatrix.oracle
"""
import itertools
import os

import numpy as np

from mc import alphabets as A
from mc.harness import Result, Sub
from mc.ref import c20x as X
from mc.ref import neigh as NB
from mc.ref.base import mk_snap

ASSUMPTIONS = [
    "freud is run single-threaded (harness) and explored as a black box inside the wrapper; it stores coordinates in single "
    "precision, so sizes are compared with the double-precision scipy oracle at 2e-5 (edge lengths / face areas; observed <= 2.1e-6) and 1e-5 "
    "(cell areas / volumes; observed <= 8e-7); files print %.6f",
    "general position: configurations whose scipy tessellation has a face smaller than 1e-4 (edge length / face area) or an "
    "unbounded central cell are screened out before the implementation runs; in 3D also those with a Voronoi edge shorter than 3e-3 "
    "(near-degenerate vertex).  Reason (design probe on 6000 generic 3D point sets, recorded here, not part of the check): freud 3.5.0 / "
    "voro++ omits faces of area < ~6e-6 and, next to a near-degenerate vertex (shortest edge observed up to 3.2e-4), lists a face of "
    "ordinary size in one direction only; both effects are outside the wrapper and outside 'general position'",
    "scipy.spatial.Voronoi on the 3^d replicated images is the periodic tessellation (a Voronoi neighbour lies within one box "
    "length per axis, so 3^d images suffice for every N >= 1)",
    "the neighbour relation is compared as a multiset: a particle may neighbour the same particle (or itself) through several images",
    "weights equal in both directions: the sorted weights of i->j and j->i agree within 2e-6 (two independent %.6f roundings)",
    "volumes sum to the box volume within N * 1e-6",
    "overall.dat: ONE header line, then one 'id cn size' row per particle and frame (the library's format); the other two files: one "
    "header per frame",
    "VolumeMatrix: raw matrix read as A[i, d*j+a] = (dV_i/dr_ja)/V_i (central differences, step deltar), self block from translation "
    "invariance; compared with a scipy finite-difference oracle at 5e-5 (single-precision noise / (2 deltar)); the transformed matrix "
    "A^T (A A^T)^+ A is only compared with itself (requested frame vs one-frame snapshots; file vs return): A A^T is singular in exact "
    "arithmetic for a periodic box (sum_i V_i A_i = 0; for N = 2 A vanishes identically by inversion symmetry), so its value is "
    "noise-dominated: only 'no exception', 'requested frame' (bit-for-bit) and 'file equals return' are demanded of it; zero row sums "
    "are demanded of the raw matrix only",
    "np.save appends '.npy' to the output file name",
    "C20.scale.*: these slices enumerate SIZES (one deterministic generic point pattern per size, box and frame), not placements.  General "
    "position is evaluated PER PARTICLE with the same thresholds: a cell is compared with the scipy tessellation (neighbour multiset, "
    "weights, symmetry, weights equal both ways) only if none of its Voronoi vertices is an end point of an edge shorter than 1e-4 (2D) / "
    "3e-3 (3D) or a corner of a face smaller than 1e-4; every cell is compared for id order, cn consistency and volume; at least 90 % "
    "(2D) / 50 % (3D) of the cells of every frame must be fully comparable, otherwise the case counts as screened.  Numerical general "
    "position (interval oracle): the scipy tessellation is recomputed with every coordinate moved by +- half a single-precision ulp of "
    "the longest box edge in three fixed sign patterns; a face size is compared at 2e-5 + 2 x (largest change of that face under these "
    "perturbations) and a cell whose neighbour multiset changes under them is treated like a cell touched by a near-degenerate vertex.  "
    "Witness for the need: 130 particles, box 11.25 x 13.5 with bounds [0,11.25]x[-12.375,1.125] (the un-centred box whose bounds sum to "
    "zero, so freud wraps the coordinates itself in single precision): next to a Delaunay triangle of condition number ~100 two adjacent "
    "edges of one cell are off by +-2.4e-5 while ordinary faces agree to 5e-7",
    "C20.scale.volmatrix: no general-position screen (cell volumes do not depend on how a near-degenerate vertex is resolved); the "
    "finite-difference oracle is evaluated on the columns of a subset of displaced particles and the tolerance is 5e-5 * max(1, |A_ij|) "
    "(small cells give entries of order 10; observed relative deviation <= 4e-6); outputfile=None means 'do not save' (documented)",
]

MINFACE = 1e-4
MINEDGE3D = 3e-3
MIN_CLEAN = {2: 0.9, 3: 0.5}   # scale slice: smallest fraction of particles whose cell is in general position
TOL_W = 2e-5
TOL_V = 1e-5
TOL_A = 5e-5

SITES = {2: [0, 4, 8, 2, 6, 1, 5, 3, 7], 3: [0, 13, 26, 2, 6, 18, 8, 24, 20]}
BOXES = {2: [[4.0, 4.0], [4.0, 6.0]], 3: [[4.0, 4.0, 4.0], [4.0, 6.0, 5.0]]}
ORIGINS = ["zero", "centred", "123", "sumzero"]


def origin(name, L):
    d = len(L)
    if name == "zero":
        return [0.0] * d
    if name == "centred":
        return [-x / 2 for x in L]
    if name == "123":
        return [1.0, 2.0, 3.0][:d]
    lo = [0.0, -(L[0] + L[1]) / 2]  # bounds sum to zero although the box is NOT centred on the origin
    if d == 3:
        lo.append(-L[2] / 2)
    return lo


def site_points(seed, d, L):
    return A.jl_points(seed, 3, d, L, tag=f"C20_{d}")


def subsets(d, nmin, nmax, nsites):
    idx = SITES[d][:nsites]
    for n in range(nmin, nmax + 1):
        for sub in itertools.combinations(range(len(idx)), n):
            yield [idx[i] for i in sub]


def frame(pts, sub, L, lo, seed=0, f=0, tag=""):
    d = len(L)
    p = []
    for k, i in enumerate(sub):
        p.append([pts[i][a] + lo[a] + (A.jitter(seed, f"{tag}f{f}_{i}", a, 0.35) if f else 0.0) for a in range(d)])
    return {"pos": p, "L": list(L), "lo": list(lo)}


def generic_frame(seed, n, L, lo, tag):
    g = A.generic_points(seed, n, len(L), tag=tag)
    return {"pos": [[g[i][a] * L[a] + lo[a] for a in range(len(L))] for i in range(n)], "L": list(L), "lo": list(lo)}


# ---------------------------------------------------------------------------------------------- generators
def gen_files(tier, seed):
    for d in (2, 3):
        nsites, nmax = ((6, 6) if d == 2 else (6, 5)) if tier == "quick" else ((9, 9) if d == 2 else (8, 8))
        for L in BOXES[d]:
            pts = site_points(seed, d, L)
            for on in ORIGINS:
                lo = origin(on, L)
                for sub in subsets(d, 2, nmax, nsites):
                    yield {"d": d, "origin": on, "frames": [frame(pts, sub, L, lo)]}
                for n in ((5, 8) if tier == "quick" else (3, 5, 8, 12)):
                    yield {"d": d, "origin": on, "frames": [generic_frame(seed, n, L, lo, f"C20g{d}{n}")]}
        # multi-frame files: same box, different positions; then a different box (size and origin) in every frame
        L = BOXES[d][1]
        pts = site_points(seed, d, L)
        for on in ORIGINS:
            lo = origin(on, L)
            for F in (2, 3):
                for sub in subsets(d, 2, 4 if tier == "quick" else 5, 5 if tier == "quick" else 6):
                    yield {"d": d, "origin": on, "frames": [frame(pts, sub, L, lo, seed, f, "mf") for f in range(F)]}
        for F in (2, 3):
            for sub in subsets(d, 3, 4, 5):
                fr = []
                for f in range(F):
                    Lf = BOXES[d][f % 2]
                    fr.append(frame(site_points(seed, d, Lf), sub, Lf, origin(ORIGINS[(f + 1) % 4], Lf), seed, f, "vb"))
                yield {"d": d, "origin": "varying", "frames": fr}


def gen_volmatrix(tier, seed):
    for d in (2, 3):
        L = BOXES[d][1]
        pts = site_points(seed, d, L)
        nmax = (5 if d == 2 else 4) if tier == "quick" else (6 if d == 2 else 5)
        subs_ = list(subsets(d, 2, nmax, 5 if tier == "quick" else 6))
        for si, sub in enumerate(subs_):
            n = len(sub)
            for F in (1, 2, 3):
                if F > 1 and si % 3:
                    continue
                for on in (ORIGINS if F == 1 else ["zero", "sumzero"]):
                    lo = origin(on, L)
                    frames = [frame(pts, sub, L, lo, seed, f, "vm") for f in range(F)]
                    for k in range(F):
                        for transform in (False, True):
                            for save in (False, True):
                                if save and (F == 3 or on in ("centred", "123")):
                                    continue
                                # the scipy finite-difference oracle is expensive in 3D: raw matrix, small N only
                                orc = (not transform) and (not save) and (n <= (5 if d == 2 else 3) or (tier == "thorough" and n <= 4 and F == 1))
                                yield {"d": d, "origin": on, "frames": frames, "nconfig": k, "transform": transform, "save": save,
                                       "oracle": orc, "deltar": 0.01}
        # another step size (raw matrix, oracle)
        for sub in subsets(d, 3, 3, 4):
            yield {"d": d, "origin": "zero", "frames": [frame(pts, sub, L, origin("zero", L))], "nconfig": 0, "transform": False,
                   "save": False, "oracle": True, "deltar": 0.02}


# ---------------------------------------------------------------------------------------------- scale slice (generators)
# Sizes straddling 64 / 128 / 256 (ids with 2-3 digits).  These generators enumerate SIZES; there is one fixed deterministic point
# pattern per size, box and frame.  Boxes have unequal edges (each axis is the longest one in some box), the box (shape at EQUAL volume,
# then volume) and the origin change from frame to frame in the F = 3 files.
SC_N = {2: {"quick": [65, 130, 257], "thorough": [64, 65, 130, 257]}, 3: {"quick": [64, 130], "thorough": [64, 130]}}
VM_N = {2: [10, 33, 65], 3: [10, 22]}


def sc_boxes(d, n):
    if d == 2:
        s = 1.0 if n <= 65 else (1.5 if n <= 130 else 2.0)
        base = [[6.0, 9.0], [9.0, 6.0], [7.5, 9.0]]
    else:
        s = 1.0 if n <= 64 else 1.25
        base = [[6.0, 9.0, 7.5], [7.5, 6.0, 9.0], [9.0, 7.5, 6.0]]
    return [[x * s for x in L] for L in base]


def vm_boxes(d, n):
    if d == 2:
        s = 1.0 if n <= 10 else (1.5 if n <= 33 else 2.0)
        base = [[4.0, 6.0], [6.0, 4.0], [5.0, 6.0]]
    else:
        s = 1.0
        base = [[4.0, 5.0, 6.0], [5.0, 4.0, 6.0], [4.0, 6.0, 5.0]]
    return [[x * s for x in L] for L in base]


def varying_frames(seed, n, B, k, tag):
    fr = []
    for f in range(3):
        L = B[(f + k) % 3]
        fr.append(generic_frame(seed, n, L, origin(ORIGINS[(f + k + 1) % 4], L), f"{tag}_{k}{f}"))
    return fr


def gen_scale_files(tier, seed):
    for d in (2, 3):
        for n in SC_N[d][tier]:
            B = sc_boxes(d, n)
            for oi, on in enumerate(ORIGINS):
                L = B[oi % 3]
                yield {"scale": True, "d": d, "origin": on, "frames": [generic_frame(seed, n, L, origin(on, L), f"C20S{d}_{n}_{oi}")]}
            for k in (0, 1):
                yield {"scale": True, "d": d, "origin": "varying", "frames": varying_frames(seed, n, B, k, f"C20S{d}_{n}v")}
    # many frames in one file: 12 particles (2D), 65 frames, box and origin changing with every frame
    B = sc_boxes(2, 12)
    fr = []
    for f in range(65):
        L = B[0] if f == 64 else B[f % 3]   # the last frame returns to the box of the first one (cyclic compression)
        fr.append(generic_frame(seed, 12, L, origin(ORIGINS[f % 4], L), f"C20S2_many{f}"))
    yield {"scale": True, "d": 2, "origin": "varying", "frames": fr}


def gen_scale_volmatrix(tier, seed):
    for d in (2, 3):
        for si, n in enumerate(VM_N[d]):
            B = vm_boxes(d, n)
            if tier == "quick":
                cols = sorted({0, n // 2, n - 1})
            else:
                cols = list(range(n)) if n <= (33 if d == 2 else 10) else sorted({(k * (n - 1)) // 7 for k in range(8)})
            base = {"scale": True, "d": d, "save": False, "oracle": False}
            on = ORIGINS[si % 4]
            for bi in ((0,) if tier == "quick" else (0, 1, 2)):
                L = B[bi]
                yield dict(base, origin=on, frames=[generic_frame(seed, n, L, origin(on, L), f"C20V{d}_{n}_{bi}")], nconfig=0, transform=False,
                           oracle_cols=cols, deltar=0.01)
            fr = varying_frames(seed, n, B, si % 2, f"C20V{d}_{n}v")
            for k in ((1 + si % 2,) if tier == "quick" else (0, 1, 2)):
                yield dict(base, origin="varying", frames=fr, nconfig=k, transform=False, oracle_cols=cols, deltar=0.02)
            yield dict(base, origin="varying", frames=fr, nconfig=1, transform=True, save=True, oracle_cols=[], deltar=0.01)


# ---------------------------------------------------------------------------------------------- helpers
def build(case):
    from PyMatterSim.reader.reader_utils import Snapshots

    snaps = []
    for t, fr in enumerate(case["frames"]):
        n = len(fr["pos"])
        snaps.append(mk_snap(fr["pos"], np.diag(fr["L"]), [1] * n, lo=fr["lo"], ts=t))
    return Snapshots(len(snaps), snaps)


def tessellate(case):
    """scipy oracle for every frame + the general-position screen (whole configuration).  Per frame (nb, vols, clean[i])."""
    out = []
    for fr in case["frames"]:
        nb, vols, ok, min_edge = NB.periodic_voronoi(np.array(fr["pos"]), fr["L"])
        if not ok or NB.voronoi_min_face(nb) < MINFACE or min_edge < MINEDGE3D:
            return None
        out.append((nb, vols, [True] * len(vols)))
    return out


def tessellate_pp(case):
    """scale slice: the same oracle with the general-position screen evaluated per particle (mc/ref/c20x.py)"""
    out = []
    for fr in case["frames"]:
        nb, vols, ok, clean = X.periodic_voronoi_pp(np.array(fr["pos"]), fr["L"], MINFACE, MINEDGE3D, band=2.0)
        if not ok or clean.mean() < MIN_CLEAN[len(fr["L"])]:
            return None
        out.append((nb, vols, clean.tolist()))
    return out


def read_text(path):
    with open(path) as f:
        return f.read()


# ---------------------------------------------------------------------------------------------- C20.files
def run_files(case):
    from PyMatterSim.neighbors.freud_neighbors import cal_neighbors
    from PyMatterSim.neighbors.read_neighbors import read_neighbors

    R = Result()
    d = case["d"]
    F = len(case["frames"])
    n = len(case["frames"][0]["pos"])
    sig = {"d": d, "origin": case["origin"], "F": F}
    if case.get("scale"):
        sig["scale"] = True
    ref = tessellate_pp(case) if case.get("scale") else tessellate(case)
    if ref is None:
        return R.screen()
    snaps = build(case)
    before = [s.positions.copy() for s in snaps.snapshots]
    out = "c20out"
    compared = 0
    cal_neighbors(snaps, outputfile=out)
    bond = out + (".edgelength.dat" if d == 2 else ".facearea.dat")
    names = {"neighbor": out + ".neighbor.dat", "bond": bond, "overall": out + ".overall.dat"}
    missing = [k for k, p in names.items() if not os.path.exists(p)]
    if missing:
        R.fail(f"files not written: {missing}", sig=dict(sig, clause="files"), sub="C20.files")
        return R
    tn, tb, to = (read_text(names[k]) for k in ("neighbor", "bond", "overall"))
    pn, prn = NB.parse_listfile(tn)
    pb, prb = NB.parse_listfile(tb)
    po, pro = NB.parse_listfile(to)
    for which, pr in (("neighbor", prn), ("bond", prb), ("overall", pro)):
        for x in pr:
            R.fail(f"{which} file grammar: {x}", sig=dict(sig, clause="files", file=which), sub="C20.files")
    if len(pn) != F or len(pb) != F:
        R.fail(f"{len(pn)} / {len(pb)} frame headers in the neighbour / bond file for {F} frames", sig=dict(sig, clause="files"), sub="C20.files")
        return R
    if len(po) != 1 or len(po[0]["rows"]) != F * n:
        R.fail(f"overall file: {len(po)} headers, {sum(len(x['rows']) for x in po)} rows; expected 1 header and {F * n} rows",
               sig=dict(sig, clause="files", file="overall"), sub="C20.files")
        return R
    outcome = []
    for t in range(F):
        nb_ref, vol_ref, clean = ref[t]
        s2 = dict(sig)
        # -- every particle once per frame, in id order, cn = number of listed values
        ok = True
        for which, fr in (("neighbor", pn[t]), ("bond", pb[t])):
            ids = [r[0] for r in fr["rows"]]
            if ids != list(range(1, n + 1)):
                R.fail(f"frame {t}: {which} file ids {ids} are not 1..{n} in order", sig=dict(s2, clause="files", file=which), sub="C20.files")
                ok = False
            for pid, cn, vals in fr["rows"]:
                if cn != len(vals):
                    R.fail(f"frame {t}: {which} file id {pid}: cn {cn} but {len(vals)} values listed", sig=dict(s2, clause="cn", file=which), sub="C20.cn")
                    ok = False
        if "neighborlist" not in pn[t]["header"] or "neighborlist" in pb[t]["header"]:
            R.fail(f"frame {t}: headers {pn[t]['header']} / {pb[t]['header']}", sig=dict(s2, clause="files", file="header"), sub="C20.files")
        orows = po[0]["rows"][t * n:(t + 1) * n]
        if [r[0] for r in orows] != list(range(1, n + 1)) or any(len(r[2]) != 1 for r in orows):
            R.fail(f"frame {t}: overall file rows are not ids 1..{n} in order with one size each", sig=dict(s2, clause="files", file="overall"), sub="C20.files")
            ok = False
        if not ok:
            continue
        nl = [[int(v) - 1 for v in r[2]] for r in pn[t]["rows"]]
        wl = [[float(v) for v in r[2]] for r in pb[t]["rows"]]
        vol = [float(r[2][0]) for r in orows]
        outcome.append([nl, wl, vol])
        for i in range(n):
            if not (len(nl[i]) == len(wl[i]) == orows[i][1] == pn[t]["rows"][i][1] == pb[t]["rows"][i][1]):
                R.fail(f"frame {t}: particle {i + 1}: {len(nl[i])} neighbours, {len(wl[i])} weights, cn {pn[t]['rows'][i][1]} / "
                       f"{pb[t]['rows'][i][1]} / {orows[i][1]} in the three files", sig=dict(s2, clause="cn"), sub="C20.cn")
                ok = False
            if any(j < 0 or j >= n for j in nl[i]):
                R.fail(f"frame {t}: particle {i + 1}: neighbour id outside 1..{n}", sig=dict(s2, clause="files", file="neighbor"), sub="C20.files",
                       obs=[j + 1 for j in nl[i]])
                ok = False
        if not ok:
            continue
        # -- symmetric as a multiset, weights positive and equal both ways
        for i in range(n):
            for j in sorted(set(nl[i])):
                if not (clean[i] and clean[j]):
                    continue   # (scale slice) a near-degenerate vertex touches one of the two cells
                wij = sorted(w for k, w in zip(nl[i], wl[i]) if k == j)
                wji = sorted(w for k, w in zip(nl[j], wl[j]) if k == i)
                if len(wij) != len(wji):
                    R.fail(f"frame {t}: {j + 1} listed {len(wij)}x by {i + 1} but {i + 1} listed {len(wji)}x by {j + 1}",
                           sig=dict(s2, clause="symmetric"), sub="C20.symmetric", obs=[[x + 1 for x in l] for l in nl])
                elif any(abs(a - b) > 2e-6 for a, b in zip(wij, wji)):
                    R.fail(f"frame {t}: weights of {i + 1}->{j + 1} {wij} differ from {j + 1}->{i + 1} {wji}", sig=dict(s2, clause="weights_equal"),
                           sub="C20.weights")
            if any(not w > 0 for w in wl[i]):
                R.fail(f"frame {t}: particle {i + 1} has a non-positive weight", sig=dict(s2, clause="weights_positive"), sub="C20.weights", obs=wl[i])
        # -- volumes
        V = float(np.prod(case["frames"][t]["L"]))
        if abs(sum(vol) - V) > n * 1e-6 or any(not v > 0 for v in vol):
            R.fail(f"frame {t}: cell sizes sum to {sum(vol)!r}, box {V!r}", sig=dict(s2, clause="volumes"), sub="C20.volumes", obs=vol)
        # -- independent tessellation
        for i in range(n):
            got = sorted(zip(nl[i], wl[i]))
            exp = sorted(nb_ref[i])
            if not clean[i]:
                pass
            elif [g[0] for g in got] != [e[0] for e in exp]:
                R.fail(f"frame {t}: particle {i + 1}: neighbours differ from the scipy tessellation", sig=dict(s2, clause="oracle_neighbours"),
                       sub="C20.oracle", exp=[e[0] + 1 for e in exp], obs=[g[0] + 1 for g in got])
            elif any(abs(g[1] - e[1]) > TOL_W + (e[2] if len(e) > 2 else 0.0) for g, e in zip(got, exp)):
                R.fail(f"frame {t}: particle {i + 1}: {'edge lengths' if d == 2 else 'face areas'} differ from the scipy tessellation",
                       sig=dict(s2, clause="oracle_weights"), sub="C20.oracle", exp=exp, obs=got)
            compared += bool(clean[i])
            if abs(vol[i] - vol_ref[i]) > TOL_V:
                R.fail(f"frame {t}: particle {i + 1}: cell size {vol[i]} differs from the scipy tessellation {vol_ref[i]}",
                       sig=dict(s2, clause="oracle_volumes"), sub="C20.oracle")
    # -- readable by the neighbour-file reader, frame after frame from one handle
    if not R.viol:
        with open(names["neighbor"]) as fnb, open(names["bond"]) as fw:
            for t in range(F):
                a = read_neighbors(fnb, n, 200)
                b = read_neighbors(fw, n, 200)
                ea = NB.ref_read([[float(v) for v in r[2]] for r in pn[t]["rows"]], n, 200, True)
                eb = NB.ref_read([[float(v) for v in r[2]] for r in pb[t]["rows"]], n, 200, False)
                if a.shape != ea.shape or not np.array_equal(a, ea) or a.dtype.kind not in "iu":
                    R.fail(f"frame {t}: read_neighbors of the neighbour file differs from its content (ids - 1)", sig=dict(sig, clause="readback", file="neighbor"),
                           sub="C20.readback", exp=ea, obs=a)
                if b.shape != eb.shape or not np.array_equal(b, eb) or b.dtype.kind != "f":
                    R.fail(f"frame {t}: read_neighbors of the bond file differs from its content (verbatim floats)", sig=dict(sig, clause="readback", file="bond"),
                           sub="C20.readback", exp=eb, obs=b)
            if fnb.readline() != "" or fw.readline() != "":
                R.fail("data left after the last frame", sig=dict(sig, clause="readback"), sub="C20.readback")
    for s, b in zip(snaps.snapshots, before):
        if not np.array_equal(s.positions, b):
            R.fail("snapshot positions modified", sig=dict(sig, clause="input_modified"), sub="C20.files")
    for p in names.values():
        os.remove(p)
    R.outcome(outcome, nd=5)
    R.nontrivial = (n >= 3 or F > 1) and compared > 0
    R.elem = n * F
    return R


# ---------------------------------------------------------------------------------------------- C20.volmatrix
def run_volmatrix(case):
    from PyMatterSim.neighbors.freud_neighbors import VolumeMatrix
    from PyMatterSim.reader.reader_utils import Snapshots

    R = Result()
    d = case["d"]
    F = len(case["frames"])
    k = case["nconfig"]
    n = len(case["frames"][0]["pos"])
    tr = case["transform"]
    sig = {"d": d, "origin": case["origin"], "F": F, "nconfig": "0" if k == 0 else ">0", "transform": tr, "save": case["save"]}
    if case.get("scale"):
        sig["scale"] = True   # no general-position screen: cell volumes do not depend on how a near-degenerate vertex is resolved
    elif tessellate(case) is None:
        return R.screen()
    snaps = build(case)
    before = [s.positions.copy() for s in snaps.snapshots]
    out = "c20vm" if case["save"] else (None if case.get("scale") else "")
    M = VolumeMatrix(snaps, ndim=d, nconfig=k, deltar=case["deltar"], transform_matrix=tr, outputfile=out)
    M = np.asarray(M)
    shape = (n * d, n * d) if tr else (n, n * d)
    if M.shape != shape:
        R.fail(f"shape {M.shape}, expected {shape}", sig=dict(sig, clause="shape"), sub="C20.volmatrix.frame")
        return R
    # -- the requested frame: same result as on a one-frame Snapshots holding frame k
    one = Snapshots(1, [mk_snap(case["frames"][k]["pos"], np.diag(case["frames"][k]["L"]), [1] * n, lo=case["frames"][k]["lo"], ts=0)])
    M1 = np.asarray(VolumeMatrix(one, ndim=d, nconfig=0, deltar=case["deltar"], transform_matrix=tr, outputfile=""))
    if M1.shape != M.shape or not np.array_equal(M, M1, equal_nan=True):
        R.fail(f"VolumeMatrix(nconfig={k}) of {F} frames differs from VolumeMatrix of frame {k} alone", sig=dict(sig, clause="frame"),
               sub="C20.volmatrix.frame", exp=M1, obs=M)
    # -- rows sum to zero over each displaced coordinate (translation invariance)
    rs = np.array([[M[i, a::d].sum() for a in range(d)] for i in range(M.shape[0])])
    scale = max(1.0, float(np.abs(M).max()))
    if not np.all(np.isfinite(M)):
        R.fail("non-finite entries", sig=dict(sig, clause="finite"), sub="C20.volmatrix.rows")
    elif not tr and np.abs(rs).max() > 1e-9 * scale:
        R.fail(f"row sums over a displaced coordinate up to {np.abs(rs).max():.3g}", sig=dict(sig, clause="rows"), sub="C20.volmatrix.rows", obs=rs)
    # -- the documented definition on the requested frame (raw matrix only)
    if case["oracle"] and not tr:
        fr = case["frames"][k]
        Aref = NB.ref_volume_matrix(np.array(fr["pos"]), fr["L"], d, case["deltar"])
        if np.abs(M - Aref).max() > TOL_A:
            ij = np.unravel_index(int(np.argmax(np.abs(M - Aref))), M.shape)
            R.fail(f"entry {list(map(int, ij))}: {M[ij]!r}, finite-difference reference on frame {k}: {Aref[ij]!r}", sig=dict(sig, clause="oracle"),
                   sub="C20.volmatrix.oracle", exp=Aref, obs=M)
    if case.get("oracle_cols") and not tr:
        # scale slice: the same definition on a subset of displaced particles; tolerance relative for entries > 1 (small cells)
        fr = case["frames"][k]
        cols, Aref = X.ref_volume_columns(np.array(fr["pos"]), fr["L"], d, case["deltar"], case["oracle_cols"])
        dev = np.abs(M[:, cols] - Aref) / np.maximum(1.0, np.abs(Aref))
        dev[np.isnan(Aref)] = 0.0
        if dev.max() > TOL_A:
            i, c = np.unravel_index(int(np.argmax(dev)), dev.shape)
            R.fail(f"entry {[int(i), int(cols[c])]}: {M[i, cols[c]]!r}, finite-difference reference on frame {k}: {Aref[i, c]!r} (N={n})",
                   sig=dict(sig, clause="oracle"), sub="C20.volmatrix.oracle")
    # -- saving works in both modes: the file holds the returned matrix
    if case["save"]:
        path = out + ".npy"
        if not os.path.exists(path):
            R.fail(f"{path} not written", sig=dict(sig, clause="save"), sub="C20.volmatrix.save")
        else:
            S = np.load(path)
            if S.shape != M.shape or not np.array_equal(S, M, equal_nan=True):
                R.fail("saved matrix differs from the returned one", sig=dict(sig, clause="save"), sub="C20.volmatrix.save", exp=M, obs=S)
            os.remove(path)
        if os.path.exists(out):
            os.remove(out)
    for s, b in zip(snaps.snapshots, before):
        if not np.array_equal(s.positions, b):
            R.fail("snapshot positions modified", sig=dict(sig, clause="input_modified"), sub="C20.volmatrix.frame")
    R.outcome(M if not tr else np.round(M1, 3), nd=5)
    R.nontrivial = n >= 3
    R.elem = int(M.size)
    return R


def subs(tier, seed):
    q = tier == "quick"
    return [
        Sub("C20.files", gen_files, run_files,
            rule="placements = all N-subsets of %s sites of a jittered 3^d lattice (2D N=2..%d, 3D N=2..%d) + generic point sets; boxes 4x4(x4), "
            "4x6(x5); origins {0, centred, (1,2,3), off-centre with bounds summing to zero}; F=2,3 files (same box; box size and origin "
            "changing per frame); non-trivial = N >= 3 or F > 1" % (("6", 6, 5) if q else ("9 (2D) / 8 (3D)", 9, 8)),
            bounds={"N2d": [2, 6 if q else 9], "N3d": [2, 5 if q else 8], "F": [1, 3], "origins": ORIGINS}),
        Sub("C20.volmatrix", gen_volmatrix, run_volmatrix,
            rule="N-subsets of %d lattice sites (2D N<=%d, 3D N<=%d) x F in {1,2,3} x every requested frame index x transform_matrix on/off x "
            "outputfile on/off x origins; scipy finite-difference oracle on the raw matrix for small N; non-trivial = N >= 3"
            % ((5, 5, 4) if q else (6, 6, 5)),
            bounds={"F": [1, 3], "nconfig": "0..F-1", "deltar": [0.01, 0.02]}),
        Sub("C20.scale.files", gen_scale_files, run_files,
            rule="SCALE slice - enumerates SIZES with one fixed deterministic generic point pattern per size, box and frame: cal_neighbors on "
            "N in %s (2D) / %s (3D) particles; boxes with unequal edges (6x9, 9x6, 7.5x9 / 6x9x7.5 and its rotations, scaled with N); the four "
            "origins; one 65-frame file of 12 particles (2D); F=1 and F=3 files whose box (first the shape at EQUAL volume, then the volume) and origin change per frame; every "
            "invariant of C20.files plus the scipy periodic-Voronoi oracle, with the general-position screen evaluated PER PARTICLE (cells "
            "touched by a near-degenerate vertex are compared for grammar, cn and volume only; >= 90 %% (2D) / 50 %% (3D) of the cells of "
            "every frame must be comparable)" % (SC_N[2][tier], SC_N[3][tier]),
            bounds={"N2d": SC_N[2][tier], "N3d": SC_N[3][tier], "F": [1, 3]}),
        Sub("C20.scale.volmatrix", gen_scale_volmatrix, run_volmatrix,
            rule="SCALE slice - enumerates SIZES: VolumeMatrix on N in %s (2D) / %s (3D) generic particles; boxes longer in y or z than in x "
            "(4x6, 6x4, 5x6 scaled with N / 4x5x6, 5x4x6, 4x6x5); F=1 and F=3 with box and origin changing per frame, requested frame %s; "
            "rows sum to zero, equals the one-frame computation bit for bit, finite-difference scipy reference on the columns of %s; "
            "transformed matrix + saving on the F=3 file" % (VM_N[2], VM_N[3], "1 or 2" if q else "0, 1, 2",
                                                             "3 displaced particles (first, middle, last)" if q else "all (N <= 33 / 10) or 8 displaced particles"),
            bounds={"N2d": VM_N[2], "N3d": VM_N[3], "F": [1, 3], "deltar": [0.01, 0.02]}),
    ]
