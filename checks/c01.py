"""C01 - LAMMPS dump reading (E1 over the dump-file grammar; exact dyadic data)."""
import itertools

import numpy as np

from mc.harness import Result, Sub, digest
from mc.lammps_text import bounds_of, frame_text
from mc.ref import c01x

ASSUMPTIONS = [
    "all numbers are dyadic (multiples of 2^-4) so the LAMMPS conventions can be evaluated exactly; comparison atol 1e-12",
    "triclinic files: 'boxbounds' is read as the bounding box printed in the file, 'realbounds' as the cell lo/hi derived by "
    "the LAMMPS formulas, 'boxlength' as the cell edge lengths (the reader's documented convention)",
    "wrapped style in triclinic cells and scaled coordinates outside [0,1] are outside the property and not generated",
    "a wrapped coordinate lying exactly on a box face may be returned on either face (lo == hi under periodicity)",
    "2D files carry the third (dummy z) bounds line and coordinate columns 'x y' only",
    "scale slice: atom ids are 1..N of the frame (N may change from frame to frame); fractional coordinates are odd multiples of 2^-21 "
    "(distinct per id), so all LAMMPS conventions are still evaluated exactly in double precision; real LAMMPS files end the ATOMS line and "
    "every atom line with a blank - such files are well-formed; a file that is re-written under the same name between two reads is a new input",
]

TS = [0, 25, 1234567890]
TS_PATTERNS = [[0, 0, 0], [7, 7, 9], [5, 9, 9], [9, 5, 1], [0, 1000, 0], [1000, 1000, 2000]]
LEDGE = [4.0, 8.0, 2.0]


def cells(d):
    out = []
    for lo in ([0.0, 0.0, 0.0], [-2.0, -1.0, -3.0], [1.0, 2.0, 3.0]):
        out.append({"lo": lo[:d], "L": LEDGE[:d], "tilts": None})
    for lo in ([-2.0, 1.0, 3.0], [0.0, 0.0, 0.0]):
        if d == 3:
            for xy, xz, yz in itertools.product([-1.0, 0.0, 1.0], [-0.5, 0.0, 0.5], [-2.0, 0.0, 2.0]):
                out.append({"lo": lo, "L": LEDGE, "tilts": [xy, xz, yz]})
        else:
            for xy in (-1.0, 0.0, 1.0):
                out.append({"lo": lo[:2], "L": LEDGE[:2], "tilts": [xy, 0.0, 0.0]})
    return out


def hmat(cell, d):
    H = np.diag(np.array(cell["L"], float))
    if cell["tilts"] is not None:
        xy, xz, yz = cell["tilts"]
        H[1, 0] = xy
        if d == 3:
            H[2, 0] = xz
            H[2, 1] = yz
    return H


def frac_of(i, f, d):
    return [(1 + 2 * (((a + 1) * (i + 1) + f) % 8)) / 16.0 for a in range(d)]


def truth_frame(case, f):
    """Ground truth of frame f and the numbers to print."""
    d = case["d"]
    cell = dict(case["cell"])
    n = case["N"]
    if case.get("vary") == "cell":
        cell["L"] = [x * (2.0**f) for x in cell["L"]]
        cell["lo"] = [x - f for x in cell["lo"]]
    if case.get("vary") == "count":
        n = [case["N"], 1, case["N"] + 1][f]
    if case.get("vary") == "tilt" and cell["tilts"] is not None:
        cell["tilts"] = [t * [1.0, -1.0, 0.5][f] for t in cell["tilts"]]  # same edges and origin, another tilt (sign, size) in every frame
    H = hmat(cell, d)
    lo = np.array(cell["lo"], float)
    L = np.array(cell["L"], float)
    types = [1 + (2 * i + f) % 3 for i in range(n)]
    style = case["style"]
    coords, expect = [], []
    for i in range(n):
        if case.get("frac") is not None:
            s = np.array(case["frac"], float)
        else:
            s = np.array(frac_of(i, f, d))
        r = lo + s @ H
        if style == "xs":
            coords.append(s.tolist())
            expect.append(r)
        elif style == "xu":
            ru = r + np.array([(i % 3) - 1, (i + f) % 2, -((i + 1) % 2)][:d]) * L if case.get("frac") is None else r
            coords.append(ru.tolist())
            expect.append(ru)
        else:  # wrapped 'x'
            coords.append(r.tolist())
            if cell["tilts"] is None:
                w = np.where(r < lo, r + L, r)
                w = np.where(w > lo + L, w - L, w)
                expect.append(w)
            else:
                expect.append(r)
    ts = case["ts_list"][f] if case.get("ts_list") else TS[f] + case.get("ts_shift", 0)
    fr = {"ts": ts, "types": types, "lo": cell["lo"], "L": cell["L"], "tilts": cell["tilts"], "coords": coords}
    bb, rb = bounds_of(fr, d)
    exp = {"timestep": fr["ts"], "nparticle": n, "particle_type": types, "positions": np.array(expect).reshape(n, d), "boxlength": L,
           "boxbounds": np.array(bb), "realbounds": None if rb is None else np.array(rb), "hmatrix": H}
    return fr, exp


def orders(nmax):
    for n in range(1, nmax + 1):
        for p in itertools.permutations(range(n)):
            yield n, list(p)


def gen_product(tier, seed):
    nmax = 3 if tier == "quick" else 4
    fmax = 2 if tier == "quick" else 3
    for d in (3, 2):
        for cell in cells(d):
            for style in ("x", "xs", "xu"):
                for n, order in orders(nmax):
                    for F in range(1, fmax + 1):
                        for extras in ("none", "float", "image"):
                            for syntax in ("decimal", "sci"):
                                for flags in ("pp pp pp", "ff pp pp", ""):
                                    yield {"d": d, "cell": cell, "style": style, "N": n, "order": order, "F": F, "extras": extras,
                                           "syntax": syntax, "flags": flags}


def gen_grid(tier, seed):
    for d in (3, 2):
        for cell in cells(d):
            for style in ("x", "xs", "xu"):
                vals = [0.0, 0.25, 0.5, 0.75, 1.0]
                if style == "x" and cell["tilts"] is None:
                    vals = [-0.25] + vals + [1.25]  # excursions of at most one box length, any axis combination
                for s in itertools.product(vals, repeat=d):
                    yield {"d": d, "cell": cell, "style": style, "N": 1, "order": [0], "F": 1, "extras": "none", "syntax": "decimal",
                           "flags": "pp pp pp", "frac": list(s)}


def gen_vary(tier, seed):
    for d in (3, 2):
        for cell in cells(d):
            for style in ("x", "xs", "xu"):
                for vary in ("cell", "count", "tilt"):
                    if vary == "tilt" and (cell["tilts"] is None or not any(cell["tilts"])):
                        continue
                    for order_kind in ("sorted", "reversed"):
                        yield {"d": d, "cell": cell, "style": style, "N": 3, "order": order_kind, "F": 3, "extras": "float", "syntax": "decimal",
                               "flags": "pp pp pp", "vary": vary}
            # timestep labels are data, not keys: repeated, decreasing and alternating labels (concatenated runs, reset_timestep, minimisation
            # dumps all labelled 0) still mean one snapshot per frame, in file order
            for tsl in TS_PATTERNS:
                for style in ("x", "xu"):
                    yield {"d": d, "cell": cell, "style": style, "N": 2, "order": "reversed", "F": 3, "extras": "none", "syntax": "decimal",
                           "flags": "pp pp pp", "vary": "cell" if tsl[0] == tsl[1] else None, "ts_list": tsl}


def compare(R, tag, S, exps, style, tri, sig):
    """every field of every snapshot against the expectations; False when the frame count is already wrong"""
    if S.nsnapshots != len(exps) or len(S.snapshots) != len(exps):
        R.fail(f"{tag}: {S.nsnapshots} snapshots for {len(exps)} frames", sig=dict(sig, clause="frames"))
        return False
    for f, (snap, exp) in enumerate(zip(S.snapshots, exps)):
        if snap.timestep != exp["timestep"] or snap.nparticle != exp["nparticle"]:
            R.fail(f"{tag} frame {f}: timestep/nparticle {snap.timestep}/{snap.nparticle} != {exp['timestep']}/{exp['nparticle']}",
                   sig=dict(sig, clause="frames"))
            continue
        if list(np.asarray(snap.particle_type)) != exp["particle_type"]:
            R.fail(f"{tag} frame {f}: types by id {list(snap.particle_type)} != {exp['particle_type']}", sig=dict(sig, clause="types"))
        pos = np.asarray(snap.positions, float)
        ok = pos.shape == exp["positions"].shape
        if ok:
            dev = np.abs(pos - exp["positions"])
            if style == "x" and not tri:
                # a wrapped coordinate exactly on a box face may be reported on either face (both are inside the box)
                lo_, hi_ = exp["boxbounds"][:, 0], exp["boxbounds"][:, 1]
                onface = (exp["positions"] == lo_) | (exp["positions"] == hi_)
                alt = np.minimum(np.abs(pos - lo_), np.abs(pos - hi_))
                dev = np.where(onface, alt, dev)
            ok = bool((dev <= 1e-12).all())
        if not ok:
            clause = {"x": "wrap" if not tri else "positions", "xs": "scaled", "xu": "unwrapped"}[style]
            R.fail(f"{tag} frame {f}: positions by id differ", sig=dict(sig, clause=clause), exp=exp["positions"], obs=pos)
        for key in ("boxlength", "boxbounds", "hmatrix", "realbounds"):
            got = getattr(snap, key)
            want = exp[key]
            if want is None:
                if got is not None:
                    R.fail(f"{tag} frame {f}: {key} should be None for an orthogonal cell", sig=dict(sig, clause="cell_" + key))
                continue
            if got is None or np.asarray(got).shape != want.shape or not np.allclose(np.asarray(got, float), want, rtol=0, atol=1e-12):
                R.fail(f"{tag} frame {f}: {key} differs", sig=dict(sig, clause="cell_" + key), exp=want, obs=got)
    return True


def run(case):
    from PyMatterSim.reader.dump_reader import DumpReader
    from PyMatterSim.reader.lammps_reader_helper import read_lammps_wrapper
    from PyMatterSim.reader.reader_utils import DumpFileType

    R = Result()
    d = case["d"]
    tri = case["cell"]["tilts"] is not None
    sig = {"d": d, "style": case["style"], "cell": "tri" if tri else "orth"}
    text = ""
    exps = []
    for f in range(case["F"]):
        fr, exp = truth_frame(case, f)
        n = exp["nparticle"]
        order = case["order"]
        if order == "sorted":
            order = list(range(n))
        elif order == "reversed":
            order = list(range(n))[::-1]
        elif f % 2 == 1:
            order = order[::-1]  # different line order in odd frames
        text += frame_text(fr, d, case["style"], case["syntax"], case["flags"], case["extras"], order)
        exps.append(exp)
    with open("c01.dump", "w") as fh:
        fh.write(text)
    rd = DumpReader("c01.dump", ndim=d, filetype=DumpFileType.LAMMPS)
    rd.read_onefile()
    s1 = rd.snapshots
    s2 = read_lammps_wrapper("c01.dump", d)
    for tag, S in (("DumpReader", s1), ("wrapper", s2)):
        if not compare(R, tag, S, exps, case["style"], tri, sig):
            return R
    R.outcome([[s.timestep, s.particle_type, s.positions, s.hmatrix] for s in s1.snapshots])
    R.elem = sum(e["nparticle"] for e in exps)
    return R


# ============================================================================================ C01.scale
N_ALL = [10, 11, 99, 100, 101, 130, 257, 1000]
F_ALL = [1, 10, 12]
NF_LONG = [[10, 65], [11, 130], [3, 257]]  # many short frames (the frame loop is a size dimension too)
NF_QUICK = [[10, 12], [11, 10], [99, 1], [100, 12], [101, 10], [130, 12], [257, 10], [1000, 12], [1000, 1], [10, 65], [3, 257]]


def gen_scale(tier, seed):
    """enumerates SIZES (particles x frames) with one fixed value pattern per size"""
    if tier == "quick":
        for n, F in NF_QUICK:
            for d in (3, 2):
                for cell in ("orth", "tri"):
                    for k, style in enumerate(("x", "xs", "xu")):
                        for order in ("affine", "desc"):
                            aff = order == "affine"
                            yield {"d": d, "cell": cell, "style": style, "N": n, "F": F, "order": order, "E": 12 if aff else 0, "blanks": aff,
                                   "syntax": "sci" if (k + (d == 2) + aff) % 3 == 0 else "decimal", "vary": F > 1, "reread": F > 1 and n * F <= 2000}
        return
    for n, F in [[n, F] for n in N_ALL for F in F_ALL] + NF_LONG:
        for d in (3, 2):
            for cell in ("orth", "tri"):
                for style in ("x", "xs", "xu"):
                    for order in ("affine", "desc", "asc"):
                        for E in (0, 3, 12):
                            for syntax in ("decimal", "sci"):
                                yield {"d": d, "cell": cell, "style": style, "N": n, "F": F, "order": order, "E": E, "blanks": E == 3 or order == "affine",
                                       "syntax": syntax, "vary": F > 1 and not (order == "asc" and E == 0), "reread": F > 1 and n * F <= 2000}


def run_scale(case):
    from PyMatterSim.reader.dump_reader import DumpReader
    from PyMatterSim.reader.lammps_reader_helper import read_lammps_wrapper
    from PyMatterSim.reader.reader_utils import DumpFileType

    R = Result()
    d = case["d"]
    tri = case["cell"] == "tri"
    sig = {"d": d, "style": case["style"], "cell": case["cell"], "slice": "scale"}
    texts, exps = c01x.build(case)

    def read_both(frames_text):
        with open("c01.dump", "w") as fh:
            fh.write("".join(frames_text))
        # the documented default file type is the LAMMPS atomic dump: half of the cases rely on it
        rd = DumpReader("c01.dump", ndim=d) if case["order"] == "desc" else DumpReader("c01.dump", ndim=d, filetype=DumpFileType.LAMMPS)
        rd.read_onefile()
        return rd.snapshots, read_lammps_wrapper("c01.dump", d)

    s1, s2 = read_both(texts)
    for tag, S in (("DumpReader", s1), ("wrapper", s2)):
        if not compare(R, tag, S, exps, case["style"], tri, sig):
            return R
    R.elem = 2 * sum(e["nparticle"] for e in exps)
    if case["reread"]:
        # the same file name now holds the frames in reverse order (same length in bytes): a new input; the objects of the first read stay alive
        t1, t2 = read_both(texts[::-1])
        rs = dict(sig, reread=True)
        for tag, S in (("DumpReader (file re-written)", t1), ("wrapper (file re-written)", t2)):
            if not compare(R, tag, S, exps[::-1], case["style"], tri, rs):
                return R
        for tag, S in (("DumpReader (first result after a second read)", s1), ("wrapper (first result after a second read)", s2)):
            compare(R, tag, S, exps, case["style"], tri, rs)
        R.elem *= 3
    R.outcome([[int(s.timestep), int(s.nparticle), digest(np.ascontiguousarray(s.positions)), digest(np.ascontiguousarray(s.particle_type))]
               for s in s1.snapshots])
    R.nontrivial = max(e["nparticle"] for e in exps) >= 10 or len(exps) >= 10
    return R


def subs(tier, seed):
    return [
        Sub("C01.product", gen_product, run,
            rule="full product {2D,3D} x cells (3 orthogonal origins; triclinic: every sign pattern of (xy,xz,yz) in {-1,0,1}x{-.5,0,.5}x{-2,0,2} "
                 "x 2 origins) x {x,xs,xu} x all N! line orders (N<=3 quick, <=4 thorough; odd frames reversed) x F<=2 (quick) / 3 x "
                 "trailing columns {none,float,ix iy iz} x {decimal,%.16e} x header flags; every field of every snapshot compared",
            bounds={"Nmax": 3 if tier == "quick" else 4, "Fmax": 2 if tier == "quick" else 3}),
        Sub("C01.grid", gen_grid, run,
            rule="one particle at every fractional coordinate {0,1/4,1/2,3/4,1}^d (plus excursions {-1/4,5/4} on every axis combination for "
                 "wrapped style in orthogonal cells) x all cells x styles"),
        Sub("C01.vary", gen_vary, run, rule="three frames whose cell (size and origin), particle count or (triclinic cells, every sign pattern) tilt factors alone (t, -t, t/2) change from frame to frame"),
        Sub("C01.scale", gen_scale, run_scale,
            rule="SCALE slice - enumerates sizes, one fixed value pattern per size: N in {10,11,99,100,101,130,257,1000} x F in {1,10,12} (thorough: full "
                 "product + many-frame files (N,F) = (10,65),(11,130),(3,257); quick: 11 (N,F) pairs) x {2D,3D} x {orthogonal non-zero origin, triclinic} "
                 "x {x (one-box excursions),xs,xu} x line order {i->(a i+b) mod N with another a,b per frame, descending, ascending} x trailing columns "
                 "{0,3,12} x {decimal,%.16e} x LAMMPS end-of-line blanks; in every multi-frame file positions, types by id (1/2/3-digit labels), "
                 "particle count (N+{0,1,-1,3,0,-2,5}), edge lengths, tilts (signs too) and origin differ from frame to frame; timesteps up to 13 "
                 "digits across 2^31; small files are re-written frame-reversed under the same name (same byte size) and read again while the first "
                 "result is kept and re-compared; every field of every snapshot compared; non-trivial = some frame has >= 10 atoms or the file >= 10 frames",
            bounds={"Nmax": 1000, "Fmax": 257, "pairs": len(NF_QUICK) if tier == "quick" else len(N_ALL) * len(F_ALL) + len(NF_LONG)}),
    ]
