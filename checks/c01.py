"""C01 - LAMMPS dump reading (E1 over the dump-file grammar; exact dyadic data).

Round 4 (docs/STRENGTHEN_TASK2.md; helpers in mc/ref/c01y.py):
  C01.mixed     lesson L2/L3/L4: files whose frames change CLASS (orthogonal header <-> triclinic header, x <-> xs <-> xu, trailing columns
                appearing / disappearing, a frame without atoms, the first frame being the degenerate one), %g-style whole numbers
  C01.dispatch  coverage gap + lessons L1/L5: every LAMMPS file type through DumpReader (LAMMPS / LAMMPSCENTER / LAMMPSVECTOR) with the
                options of the OTHER file types passed as well, ndim as numpy integers, several reader objects alive at once
  C01.sequence  lesson L6: explicit-state search over call words in forked children whose reader modules are freshly imported
"""
import itertools
import json

import numpy as np

from mc.harness import Result, Sub, digest
from mc.lammps_text import bounds_of, frame_text
from mc.ref import c01x
from mc.ref import c01y as Y
from mc.ref import c03x as X3
from mc.ref import io19

ASSUMPTIONS = [
    "all numbers are dyadic (multiples of 2^-4) so the LAMMPS conventions can be evaluated exactly; comparison atol 1e-12",
    "triclinic files: 'boxbounds' is read as the bounding box printed in the file, 'realbounds' as the cell lo/hi derived by "
    "the LAMMPS formulas, 'boxlength' as the cell edge lengths (the reader's documented convention)",
    "wrapped style in triclinic cells and scaled coordinates outside [0,1] are outside the property and not generated",
    "a wrapped coordinate lying exactly on a box face may be returned on either face (lo == hi under periodicity)",
    "2D files carry the third (dummy z) bounds line and coordinate columns 'x y' only",
    "scale slice: atom ids are 1..N of the frame (N may change from frame to frame); fractional coordinates are odd multiples of 2^-21 "
    "(distinct per id), so all LAMMPS conventions are still evaluated exactly in double precision; real LAMMPS files end the ATOMS line and "
    "every atom line with a blank - such files are well-formed; a file that is re-written under the same name between two reads is a new input",
    "C01.mixed: a dump file is a sequence of self-describing frames ('ITEM:' grammar): the box header kind (orthogonal / 'xy xz yz'), the "
    "coordinate style, the trailing columns and the atom count may change from frame to frame (change_box, concatenated dumps, a group that "
    "runs empty); a frame with 0 atoms is a frame (nparticle 0, positions of shape (0, d)); whole numbers may be printed without a decimal point (%g); "
    "reading is scale-covariant: a file whose bounds, tilts and coordinates are all multiplied by 2**-33 or 2**27 encodes the multiplied cell and positions",
    "C01.dispatch: `moltypes` is documented as 'only used for molecular system in LAMMPS' (LAMMPSCENTER) and `columnsids` belongs to LAMMPSVECTOR: "
    "passing them with another file type must not change what that file type reads; ndim may be a numpy integer scalar (int64 / int32 / intp), columnsids "
    "a list, tuple or integer ndarray, the file name a str or a pathlib.Path (everything open() accepts; the unchanged tree reads them alike); unwrapped "
    "coordinates may lie several cell vectors away and are returned verbatim; the molecule-centre and column "
    "readers are specified by C19's statement (selected atoms relabelled in id order / requested columns by id) for orthogonal cells",
    "C01.sequence: what a read returns depends on the file content and the arguments only - not on earlier reads in the process, on other reader "
    "objects, nor on an earlier read_onefile() of the same DumpReader object before the file was re-written (read_onefile 'reads' whenever called); "
    "Snapshots returned earlier are not changed by later reads",
]

TS = [0, 25, 1234567890]
TS_PATTERNS = [[0, 0, 0], [7, 7, 9], [5, 9, 9], [9, 5, 1], [0, 1000, 0], [1000, 1000, 2000]]
LEDGE = [4.0, 8.0, 2.0]


def cells(d):
    out = []
    for lo in ([0.0, 0.0, 0.0], [-2.0, -1.0, -3.0], [1.0, 2.0, 3.0]):
        out.append({"lo": lo[:d], "L": LEDGE[:d], "tilts": None})
    for lo in ([-2.0, 1.0, 3.0], [0.0, 0.0, 0.0]):
        if d == 3:
            for xy, xz, yz in itertools.product([-1.0, 0.0, 1.0], [-0.5, 0.0, 0.5], [-2.0, 0.0, 2.0]):
                out.append({"lo": lo, "L": LEDGE, "tilts": [xy, xz, yz]})
        else:
            for xy in (-1.0, 0.0, 1.0):
                out.append({"lo": lo[:2], "L": LEDGE[:2], "tilts": [xy, 0.0, 0.0]})
    return out


def hmat(cell, d):
    H = np.diag(np.array(cell["L"], float))
    if cell["tilts"] is not None:
        xy, xz, yz = cell["tilts"]
        H[1, 0] = xy
        if d == 3:
            H[2, 0] = xz
            H[2, 1] = yz
    return H


def frac_of(i, f, d):
    return [(1 + 2 * (((a + 1) * (i + 1) + f) % 8)) / 16.0 for a in range(d)]


def truth_frame(case, f):
    """Ground truth of frame f and the numbers to print."""
    d = case["d"]
    cell = dict(case["cell"])
    n = case["N"]
    if case.get("vary") == "cell":
        cell["L"] = [x * (2.0**f) for x in cell["L"]]
        cell["lo"] = [x - f for x in cell["lo"]]
    if case.get("vary") == "count":
        n = [case["N"], 1, case["N"] + 1][f]
    if case.get("vary") == "tilt" and cell["tilts"] is not None:
        cell["tilts"] = [t * [1.0, -1.0, 0.5][f] for t in cell["tilts"]]  # same edges and origin, another tilt (sign, size) in every frame
    H = hmat(cell, d)
    lo = np.array(cell["lo"], float)
    L = np.array(cell["L"], float)
    types = [1 + (2 * i + f) % 3 for i in range(n)]
    style = case["style"]
    coords, expect = [], []
    for i in range(n):
        if case.get("frac") is not None:
            s = np.array(case["frac"], float)
        else:
            s = np.array(frac_of(i, f, d))
        r = lo + s @ H
        if style == "xs":
            coords.append(s.tolist())
            expect.append(r)
        elif style == "xu":
            ru = r + np.array([(i % 3) - 1, (i + f) % 2, -((i + 1) % 2)][:d]) * L if case.get("frac") is None else r
            coords.append(ru.tolist())
            expect.append(ru)
        else:  # wrapped 'x'
            coords.append(r.tolist())
            if cell["tilts"] is None:
                w = np.where(r < lo, r + L, r)
                w = np.where(w > lo + L, w - L, w)
                expect.append(w)
            else:
                expect.append(r)
    ts = case["ts_list"][f] if case.get("ts_list") else TS[f] + case.get("ts_shift", 0)
    fr = {"ts": ts, "types": types, "lo": cell["lo"], "L": cell["L"], "tilts": cell["tilts"], "coords": coords}
    bb, rb = bounds_of(fr, d)
    exp = {"timestep": fr["ts"], "nparticle": n, "particle_type": types, "positions": np.array(expect).reshape(n, d), "boxlength": L,
           "boxbounds": np.array(bb), "realbounds": None if rb is None else np.array(rb), "hmatrix": H}
    return fr, exp


def orders(nmax):
    for n in range(1, nmax + 1):
        for p in itertools.permutations(range(n)):
            yield n, list(p)


def gen_product(tier, seed):
    nmax = 3 if tier == "quick" else 4
    fmax = 2 if tier == "quick" else 3
    for d in (3, 2):
        for cell in cells(d):
            for style in ("x", "xs", "xu"):
                for n, order in orders(nmax):
                    for F in range(1, fmax + 1):
                        for extras in ("none", "float", "image"):
                            for syntax in ("decimal", "sci"):
                                for flags in ("pp pp pp", "ff pp pp", ""):
                                    yield {"d": d, "cell": cell, "style": style, "N": n, "order": order, "F": F, "extras": extras,
                                           "syntax": syntax, "flags": flags}


def gen_grid(tier, seed):
    for d in (3, 2):
        for cell in cells(d):
            for style in ("x", "xs", "xu"):
                vals = [0.0, 0.25, 0.5, 0.75, 1.0]
                if style == "x" and cell["tilts"] is None:
                    vals = [-0.25] + vals + [1.25]  # excursions of at most one box length, any axis combination
                for s in itertools.product(vals, repeat=d):
                    yield {"d": d, "cell": cell, "style": style, "N": 1, "order": [0], "F": 1, "extras": "none", "syntax": "decimal",
                           "flags": "pp pp pp", "frac": list(s)}


def gen_vary(tier, seed):
    for d in (3, 2):
        for cell in cells(d):
            for style in ("x", "xs", "xu"):
                for vary in ("cell", "count", "tilt"):
                    if vary == "tilt" and (cell["tilts"] is None or not any(cell["tilts"])):
                        continue
                    for order_kind in ("sorted", "reversed"):
                        yield {"d": d, "cell": cell, "style": style, "N": 3, "order": order_kind, "F": 3, "extras": "float", "syntax": "decimal",
                               "flags": "pp pp pp", "vary": vary}
            # timestep labels are data, not keys: repeated, decreasing and alternating labels (concatenated runs, reset_timestep, minimisation
            # dumps all labelled 0) still mean one snapshot per frame, in file order
            for tsl in TS_PATTERNS:
                for style in ("x", "xu"):
                    yield {"d": d, "cell": cell, "style": style, "N": 2, "order": "reversed", "F": 3, "extras": "none", "syntax": "decimal",
                           "flags": "pp pp pp", "vary": "cell" if tsl[0] == tsl[1] else None, "ts_list": tsl}


def compare(R, tag, S, exps, style, tri, sig, atol=1e-12):
    """every field of every snapshot against the expectations; False when the frame count is already wrong"""
    if S.nsnapshots != len(exps) or len(S.snapshots) != len(exps):
        R.fail(f"{tag}: {S.nsnapshots} snapshots for {len(exps)} frames", sig=dict(sig, clause="frames"))
        return False
    for f, (snap, exp) in enumerate(zip(S.snapshots, exps)):
        if snap.timestep != exp["timestep"] or snap.nparticle != exp["nparticle"]:
            R.fail(f"{tag} frame {f}: timestep/nparticle {snap.timestep}/{snap.nparticle} != {exp['timestep']}/{exp['nparticle']}",
                   sig=dict(sig, clause="frames"))
            continue
        if list(np.asarray(snap.particle_type)) != exp["particle_type"]:
            R.fail(f"{tag} frame {f}: types by id {list(snap.particle_type)} != {exp['particle_type']}", sig=dict(sig, clause="types"))
        pos = np.asarray(snap.positions, float)
        ok = pos.shape == exp["positions"].shape
        if ok:
            dev = np.abs(pos - exp["positions"])
            if style == "x" and not tri:
                # a wrapped coordinate exactly on a box face may be reported on either face (both are inside the box)
                lo_, hi_ = exp["boxbounds"][:, 0], exp["boxbounds"][:, 1]
                onface = (exp["positions"] == lo_) | (exp["positions"] == hi_)
                alt = np.minimum(np.abs(pos - lo_), np.abs(pos - hi_))
                dev = np.where(onface, alt, dev)
            ok = bool((dev <= atol).all())
        if not ok:
            clause = {"x": "wrap" if not tri else "positions", "xs": "scaled", "xu": "unwrapped"}[style]
            R.fail(f"{tag} frame {f}: positions by id differ", sig=dict(sig, clause=clause), exp=exp["positions"], obs=pos)
        for key in ("boxlength", "boxbounds", "hmatrix", "realbounds"):
            got = getattr(snap, key)
            want = exp[key]
            if want is None:
                if got is not None:
                    R.fail(f"{tag} frame {f}: {key} should be None for an orthogonal cell", sig=dict(sig, clause="cell_" + key))
                continue
            if got is None or np.asarray(got).shape != want.shape or not np.allclose(np.asarray(got, float), want, rtol=0, atol=atol):
                R.fail(f"{tag} frame {f}: {key} differs", sig=dict(sig, clause="cell_" + key), exp=want, obs=got)
    return True


def run(case):
    from PyMatterSim.reader.dump_reader import DumpReader
    from PyMatterSim.reader.lammps_reader_helper import read_lammps_wrapper
    from PyMatterSim.reader.reader_utils import DumpFileType

    R = Result()
    d = case["d"]
    tri = case["cell"]["tilts"] is not None
    sig = {"d": d, "style": case["style"], "cell": "tri" if tri else "orth"}
    text = ""
    exps = []
    for f in range(case["F"]):
        fr, exp = truth_frame(case, f)
        n = exp["nparticle"]
        order = case["order"]
        if order == "sorted":
            order = list(range(n))
        elif order == "reversed":
            order = list(range(n))[::-1]
        elif f % 2 == 1:
            order = order[::-1]  # different line order in odd frames
        text += frame_text(fr, d, case["style"], case["syntax"], case["flags"], case["extras"], order)
        exps.append(exp)
    with open("c01.dump", "w") as fh:
        fh.write(text)
    rd = DumpReader("c01.dump", ndim=d, filetype=DumpFileType.LAMMPS)
    rd.read_onefile()
    s1 = rd.snapshots
    s2 = read_lammps_wrapper("c01.dump", d)
    for tag, S in (("DumpReader", s1), ("wrapper", s2)):
        if not compare(R, tag, S, exps, case["style"], tri, sig):
            return R
    R.outcome([[s.timestep, s.particle_type, s.positions, s.hmatrix] for s in s1.snapshots])
    R.elem = sum(e["nparticle"] for e in exps)
    return R


# ============================================================================================ C01.scale
N_ALL = [10, 11, 99, 100, 101, 130, 257, 1000]
F_ALL = [1, 10, 12]
NF_LONG = [[10, 65], [11, 130], [3, 257]]  # many short frames (the frame loop is a size dimension too)
NF_QUICK = [[10, 12], [11, 10], [99, 1], [100, 12], [101, 10], [130, 12], [257, 10], [1000, 12], [1000, 1], [10, 65], [3, 257]]


def gen_scale(tier, seed):
    """enumerates SIZES (particles x frames) with one fixed value pattern per size"""
    if tier == "quick":
        for n, F in NF_QUICK:
            for d in (3, 2):
                for cell in ("orth", "tri"):
                    for k, style in enumerate(("x", "xs", "xu")):
                        for order in ("affine", "desc"):
                            aff = order == "affine"
                            yield {"d": d, "cell": cell, "style": style, "N": n, "F": F, "order": order, "E": 12 if aff else 0, "blanks": aff,
                                   "syntax": "sci" if (k + (d == 2) + aff) % 3 == 0 else "decimal", "vary": F > 1, "reread": F > 1 and n * F <= 2000}
        return
    for n, F in [[n, F] for n in N_ALL for F in F_ALL] + NF_LONG:
        for d in (3, 2):
            for cell in ("orth", "tri"):
                for style in ("x", "xs", "xu"):
                    for order in ("affine", "desc", "asc"):
                        for E in (0, 3, 12):
                            for syntax in ("decimal", "sci"):
                                yield {"d": d, "cell": cell, "style": style, "N": n, "F": F, "order": order, "E": E, "blanks": E == 3 or order == "affine",
                                       "syntax": syntax, "vary": F > 1 and not (order == "asc" and E == 0), "reread": F > 1 and n * F <= 2000}


def run_scale(case):
    from PyMatterSim.reader.dump_reader import DumpReader
    from PyMatterSim.reader.lammps_reader_helper import read_lammps_wrapper
    from PyMatterSim.reader.reader_utils import DumpFileType

    R = Result()
    d = case["d"]
    tri = case["cell"] == "tri"
    sig = {"d": d, "style": case["style"], "cell": case["cell"], "slice": "scale"}
    texts, exps = c01x.build(case)

    def read_both(frames_text):
        with open("c01.dump", "w") as fh:
            fh.write("".join(frames_text))
        # the documented default file type is the LAMMPS atomic dump: half of the cases rely on it
        rd = DumpReader("c01.dump", ndim=d) if case["order"] == "desc" else DumpReader("c01.dump", ndim=d, filetype=DumpFileType.LAMMPS)
        rd.read_onefile()
        return rd.snapshots, read_lammps_wrapper("c01.dump", d)

    s1, s2 = read_both(texts)
    for tag, S in (("DumpReader", s1), ("wrapper", s2)):
        if not compare(R, tag, S, exps, case["style"], tri, sig):
            return R
    R.elem = 2 * sum(e["nparticle"] for e in exps)
    if case["reread"]:
        # the same file name now holds the frames in reverse order (same length in bytes): a new input; the objects of the first read stay alive
        t1, t2 = read_both(texts[::-1])
        rs = dict(sig, reread=True)
        for tag, S in (("DumpReader (file re-written)", t1), ("wrapper (file re-written)", t2)):
            if not compare(R, tag, S, exps[::-1], case["style"], tri, rs):
                return R
        for tag, S in (("DumpReader (first result after a second read)", s1), ("wrapper (first result after a second read)", s2)):
            compare(R, tag, S, exps, case["style"], tri, rs)
        R.elem *= 3
    R.outcome([[int(s.timestep), int(s.nparticle), digest(np.ascontiguousarray(s.positions)), digest(np.ascontiguousarray(s.particle_type))]
               for s in s1.snapshots])
    R.nontrivial = max(e["nparticle"] for e in exps) >= 10 or len(exps) >= 10
    return R


# ============================================================================================ C01.mixed (round 4: L2 / L3 / L4)
def gen_mixed(tier, seed):
    for d in (3, 2):
        for cs in Y.CELL_SEQS:
            for ss in Y.STYLE_SEQS:
                for ns in Y.COUNT_SEQS:
                    for k, es in enumerate(Y.EXTRA_SEQS):
                        for syntax in ("decimal", "sci", "g"):
                            if tier == "quick" and (k + len(cs) + ns[0]) % 2 and syntax == "sci":
                                continue
                            yield {"d": d, "cells": cs, "styles": ss, "counts": ns, "extras": es, "syntax": syntax}
                    if ns[0] in (3, 1):
                        # lesson L9: the whole file dilated by 2**-33 (SI metres) / 2**27, exact in %.16e and repr notation
                        for c in ("2^-33", "2^27"):
                            for syntax in ("sci", "decimal"):
                                yield {"d": d, "cells": cs, "styles": ss, "counts": ns, "extras": Y.EXTRA_SEQS[0], "syntax": syntax, "dilate": c}


def run_mixed(case):
    from PyMatterSim.reader.dump_reader import DumpReader
    from PyMatterSim.reader.lammps_reader_helper import read_lammps_wrapper
    from PyMatterSim.reader.reader_utils import DumpFileType

    R = Result()
    d = case["d"]
    F = len(case["cells"])
    c = {"2^-33": 2.0**-33, "2^27": 2.0**27}.get(case.get("dilate"), 1.0)
    text, exps, per = "", [], []
    for f in range(F):
        cell = Y.cell_of_class(case["cells"][f], d)
        if c != 1.0:
            cell = {"lo": [x * c for x in cell["lo"]], "L": [x * c for x in cell["L"]], "tilts": None if cell["tilts"] is None else [x * c for x in cell["tilts"]]}
        style = case["styles"][f]
        n = case["counts"][f]
        fr, exp = truth_frame({"d": d, "cell": cell, "N": n, "style": style, "ts_list": [3, 40, 500]}, f)
        order = list(range(n))[::-1] if f % 2 == 0 else [(2 * i + 1) % n for i in range(n)] if n % 2 else list(range(n))
        syn = "decimal" if case["syntax"] == "g" else case["syntax"]
        t = frame_text(fr, d, style, syn, "pp pp pp", case["extras"][f], order)
        text += Y.to_g(t) if case["syntax"] == "g" else t
        exps.append(exp)
        per.append((style, cell["tilts"] is not None))
    with open("c01.dump", "w") as fh:
        fh.write(text)
    rd = DumpReader("c01.dump", ndim=d, filetype=DumpFileType.LAMMPS)
    rd.read_onefile()
    s1 = rd.snapshots
    s2 = read_lammps_wrapper("c01.dump", d)
    first = {"O": "orth", "P": "orth"}.get(case["cells"][0], "tri")
    sig = {"d": d, "slice": "mixed", "first_frame": first, "styles": "mixed" if len(set(case["styles"])) > 1 else case["styles"][0],
           "empty_frame": 0 in case["counts"][:F], "dilated": case.get("dilate")}
    for tag, S in (("DumpReader", s1), ("wrapper", s2)):
        if S.nsnapshots != F or len(S.snapshots) != F:
            R.fail(f"{tag}: {S.nsnapshots} snapshots for {F} frames (cells {case['cells']}, atoms per frame {case['counts'][:F]})", sig=dict(sig, clause="frames"))
            return R
        for f in range(F):
            # one frame at a time: the comparison rules (wrap on a face) depend on the frame's own style and cell kind
            one = type(S)(nsnapshots=1, snapshots=[S.snapshots[f]])
            compare(R, f"{tag} (frame {f} of a file with cells {case['cells']}, styles {case['styles'][:F]})", one, [exps[f]], per[f][0], per[f][1], sig, atol=1e-12 * c)
    R.outcome([[s.timestep, s.particle_type, s.positions, s.hmatrix] for s in s1.snapshots])
    R.elem = 2 * sum(e["nparticle"] for e in exps)
    R.nontrivial = len(set(map(tuple, (np.asarray(s.hmatrix).ravel() for s in s1.snapshots)))) > 1
    return R


# ============================================================================================ C01.dispatch (round 4: coverage gap, L1, L5)
def gen_dispatch(tier, seed):
    for d in (3, 2):
        cols = Y.dispatch_cols(d)
        for style in ("x", "xs", "xu"):
            for cell in ("orth", "orth0", "tri"):
                if tier == "quick" and cell == "orth0" and style != "xs":
                    continue  # the origin-0 cell matters for the scaled mapping; the other styles keep the shifted origin in the quick tier
                for n, order in orders(3):
                    if tier == "quick" and n == 3 and (order[0] == 0 or order == [2, 1, 0]):
                        continue
                    for types in Y.DISPATCH_TYPES[n]:
                        for F in (1, 3):
                            for mi, m in enumerate(Y.DISPATCH_MAPS):
                                for ci, c in enumerate(cols):
                                    if tier == "quick" and (mi + ci + F) % 2:
                                        continue
                                    yield {"d": d, "style": style, "cell": cell, "types": types, "order": order, "F": F, "map": m, "cols": c,
                                           "ndim_type": ["int", "int64", "int32", "intp"][(mi + ci + n + F) % 4], "cols_type": ["list", "tuple", "ndarray"][(mi + n) % 3],
                                           "path": bool((ci + n + F // 2) % 2), "seed": seed}


def run_dispatch(case):
    import pathlib

    from PyMatterSim.reader.dump_reader import DumpReader
    from PyMatterSim.reader.lammps_reader_helper import read_lammps_centertype_wrapper, read_lammps_vector_wrapper, read_lammps_wrapper
    from PyMatterSim.reader.reader_utils import DumpFileType

    R = Result()
    d = case["d"]
    tri = case["cell"] == "tri"
    nd = {"int": int, "int64": np.int64, "int32": np.int32, "intp": np.intp}[case["ndim_type"]](d)
    fname = pathlib.Path("c01d.dump") if case["path"] else "c01d.dump"
    m = {int(a): int(b) for a, b in case["map"]}
    cols = list(case["cols"])
    text, truth = Y.dispatch_frames(case)
    io19.put("c01d.dump", text)
    sig = {"d": d, "style": case["style"], "cell": "tri" if tri else "orth", "slice": "dispatch", "ndim": case["ndim_type"], "columns": case["cols_type"],
           "filename": "Path" if case["path"] else "str"}
    mk_m = lambda: dict(m)  # noqa: E731
    mk_c = {"list": lambda: list(cols), "tuple": lambda: tuple(cols), "ndarray": lambda: np.array(cols, dtype=np.int64)}[case["cols_type"]]
    # (label, expectation kind, constructor): every object is built first, then read in another order; all stay alive
    plan = [
        ("LAMMPS + moltypes + columnsids", "atomic", lambda a, b: DumpReader(fname, nd, DumpFileType.LAMMPS, moltypes=a, columnsids=b)),
        ("default file type + moltypes", "atomic", lambda a, b: DumpReader(fname, ndim=nd, moltypes=a)),
        ("default file type + columnsids", "atomic", lambda a, b: DumpReader(fname, ndim=nd, columnsids=b)),
    ]
    if not tri:
        plan += [
            ("LAMMPSCENTER(moltypes)", "center", lambda a, b: DumpReader(fname, nd, DumpFileType.LAMMPSCENTER, a)),
            ("LAMMPSCENTER + columnsids", "center", lambda a, b: DumpReader(fname, nd, filetype=DumpFileType.LAMMPSCENTER, moltypes=a, columnsids=b)),
            ("LAMMPSVECTOR(columnsids)", "vector", lambda a, b: DumpReader(fname, nd, DumpFileType.LAMMPSVECTOR, columnsids=b)),
            ("LAMMPSVECTOR + moltypes", "vector", lambda a, b: DumpReader(fname, nd, DumpFileType.LAMMPSVECTOR, a, b)),
        ]
    built = []
    for label, kind_, ctor in plan:
        a, b = mk_m(), mk_c()
        built.append((label, kind_, ctor(a, b), a, b))
    expect = {"atomic": truth, "center": Y.center_expect(truth, m), "vector": Y.vector_expect(truth, cols)}
    seq = built[1::2] + built[0::2]
    for label, kind_, rd, a, b in seq:
        rd.read_onefile()
    R.elem = 0
    for label, kind_, rd, a, b in built + [built[0]]:
        if rd is built[0][2] and R.elem:
            rd.read_onefile()  # the same object once more
            label += " (read_onefile called twice)"
        ks = dict(sig, mode=kind_, options="foreign" if ("+" in label) else "own")
        style = case["style"] if kind_ != "vector" else "xu"  # columns are returned verbatim
        compare(R, f"DumpReader[{label}]", rd.snapshots, expect[kind_], style, tri, ks)
        if a != m or [int(x) for x in b] != cols or type(b) is not type(mk_c()):
            R.fail(f"DumpReader[{label}]: the moltypes / columnsids argument was modified", sig=dict(ks, clause="input"))
        R.elem += sum(e["nparticle"] for e in expect[kind_])
    # the wrappers called directly with the same numpy-typed ndim / path / column container
    direct = [("read_lammps_wrapper", "atomic", read_lammps_wrapper(fname, nd))]
    if not tri:
        direct.append(("read_lammps_centertype_wrapper", "center", read_lammps_centertype_wrapper(fname, nd, mk_m())))
        direct.append(("read_lammps_vector_wrapper", "vector", read_lammps_vector_wrapper(fname, nd, mk_c())))
    for label, kind_, S in direct:
        compare(R, label, S, expect[kind_], case["style"] if kind_ != "vector" else "xu", tri, dict(sig, mode=kind_, options="direct"))
        R.elem += sum(e["nparticle"] for e in expect[kind_])
    R.outcome([[s.timestep, s.particle_type, s.positions] for lab, k, rd, a, b in built for s in rd.snapshots.snapshots])
    R.nontrivial = True
    return R


# ============================================================================================ C01.sequence (round 4: L6)
def gen_sequence(tier, seed):
    depth = 2 if tier == "quick" else 3
    nl = len(Y.SEQ_LETTERS)
    for mode in ("fresh", "reuse"):
        for Lw in range(1, depth + 1):
            for word in itertools.product(range(nl), repeat=Lw):
                if Lw == 3 and len(set(word)) == 1:
                    continue
                if mode == "reuse" and Lw == 1:
                    continue
                yield {"word": list(word), "mode": mode, "seed": seed}


_SEQ_FRESH = {}


def run_sequence(case):
    R = Result()
    seed = case["seed"]
    names = [Y.SEQ_LETTERS[k]["id"] for k in case["word"]]
    feat = {"slice": "sequence", "mode": case["mode"]}
    payload = X3.fresh_child(Y.seq_child, case, Y.SEQ_MODS)
    if "err" in payload:
        R.fail(f"call sequence {names} ({case['mode']} objects) raised {payload['err']}", sig=dict(feat, clause="exception"))
        return R
    for k in set(case["word"]):
        if (seed, k) not in _SEQ_FRESH:
            one = X3.fresh_child(Y.seq_child, {"word": [k], "mode": "fresh", "seed": seed}, Y.SEQ_MODS)
            if "err" in one:
                R.fail(f"single call {Y.SEQ_LETTERS[k]['id']} raised {one['err']}", sig=dict(feat, clause="exception"))
                return R
            _SEQ_FRESH[(seed, k)] = one["ok"]["now"][0]
    res = payload["ok"]
    states = set()
    R.elem = 0
    for pos, k in enumerate(case["word"]):
        lt = Y.SEQ_LETTERS[k]
        ref = _SEQ_FRESH[(seed, k)]
        for when in ("now", "end"):
            got = res[when][pos]
            if case["mode"] == "reuse" and when == "end":
                continue  # a re-used reader object hands out a new Snapshots per read; what the old attribute shows is not constrained
            if got != ref:
                R.fail(f"call #{pos + 1} ({lt['id']}: {lt['ft']} via {lt['via']}, file {lt['name']} <- {lt['content']}) of the sequence {names} "
                       + ("differs from" if when == "now" else "returned an object that was changed by the later calls; it no longer equals")
                       + " the same call made first in a fresh process",
                       sig=dict(feat, clause="stale" if when == "now" else "aliased", position="later" if pos else "first", filetype=lt["ft"]),
                       exp=ref[:2], obs=None if got is None else got[:2])
                break
        states.add(json.dumps(res["now"][pos], sort_keys=True))
        R.elem += sum(s["nparticle"] for s in ref[1:])
    R.states = len(case["word"]) + 1
    R.transitions = len(case["word"])
    R.outcome(sorted(states))
    R.nontrivial = True
    return R


def subs(tier, seed):
    return [
        Sub("C01.product", gen_product, run,
            rule="full product {2D,3D} x cells (3 orthogonal origins; triclinic: every sign pattern of (xy,xz,yz) in {-1,0,1}x{-.5,0,.5}x{-2,0,2} "
                 "x 2 origins) x {x,xs,xu} x all N! line orders (N<=3 quick, <=4 thorough; odd frames reversed) x F<=2 (quick) / 3 x "
                 "trailing columns {none,float,ix iy iz} x {decimal,%.16e} x header flags; every field of every snapshot compared",
            bounds={"Nmax": 3 if tier == "quick" else 4, "Fmax": 2 if tier == "quick" else 3}),
        Sub("C01.grid", gen_grid, run,
            rule="one particle at every fractional coordinate {0,1/4,1/2,3/4,1}^d (plus excursions {-1/4,5/4} on every axis combination for "
                 "wrapped style in orthogonal cells) x all cells x styles"),
        Sub("C01.vary", gen_vary, run, rule="three frames whose cell (size and origin), particle count or (triclinic cells, every sign pattern) tilt factors alone (t, -t, t/2) change from frame to frame"),
        Sub("C01.scale", gen_scale, run_scale,
            rule="SCALE slice - enumerates sizes, one fixed value pattern per size: N in {10,11,99,100,101,130,257,1000} x F in {1,10,12} (thorough: full "
                 "product + many-frame files (N,F) = (10,65),(11,130),(3,257); quick: 11 (N,F) pairs) x {2D,3D} x {orthogonal non-zero origin, triclinic} "
                 "x {x (one-box excursions),xs,xu} x line order {i->(a i+b) mod N with another a,b per frame, descending, ascending} x trailing columns "
                 "{0,3,12} x {decimal,%.16e} x LAMMPS end-of-line blanks; in every multi-frame file positions, types by id (1/2/3-digit labels), "
                 "particle count (N+{0,1,-1,3,0,-2,5}), edge lengths, tilts (signs too) and origin differ from frame to frame; timesteps up to 13 "
                 "digits across 2^31; small files are re-written frame-reversed under the same name (same byte size) and read again while the first "
                 "result is kept and re-compared; every field of every snapshot compared; non-trivial = some frame has >= 10 atoms or the file >= 10 frames",
            bounds={"Nmax": 1000, "Fmax": 257, "pairs": len(NF_QUICK) if tier == "quick" else len(N_ALL) * len(F_ALL) + len(NF_LONG)}),
        Sub("C01.mixed", gen_mixed, run_mixed,
            rule="frames that change CLASS inside one file (lesson L2): {2D,3D} x 8 cell-class words (orthogonal header first then triclinic, triclinic first "
                 "then orthogonal, a triclinic header with zero tilts first, two different orthogonal cells then a tilted one ...) x 6 style words (x / xs / xu "
                 "constant or rotating per frame) x 4 atom-count words ((3,3,3), first frame the smallest, an EMPTY frame in the middle, an empty FIRST frame) "
                 "x 3 trailing-column words (none / appearing / disappearing) x number syntax {repr, %.16e, %g-like whole numbers without decimal point; "
                 "quick: half of the %.16e files}; plus (lesson L9) every cell / style word with the whole file DILATED by 2**-33 and 2**27 (box bounds, tilts and "
                 "coordinates of order 1e-10 / 1e9, printed with %.16e and repr, tolerance scaled alike); every field of every snapshot compared (DumpReader "
                 "and wrapper); non-trivial = the cell matrix differs between frames",
            bounds={"F": 3, "cell_words": len(Y.CELL_SEQS), "style_words": len(Y.STYLE_SEQS), "count_words": len(Y.COUNT_SEQS)}),
        Sub("C01.dispatch", gen_dispatch, run_dispatch,
            rule="DumpReader DISPATCH (dump_reader.py L163-167) with foreign options (lesson L1): one file with 2 numeric trailing columns read by 7 reader objects "
                 "- LAMMPS + moltypes + columnsids, default file type + moltypes, default + columnsids, LAMMPSCENTER (positional moltypes), LAMMPSCENTER + "
                 "columnsids, LAMMPSVECTOR, LAMMPSVECTOR + moltypes - all built first, read in another order and kept alive, the first one read twice; "
                 "{2D,3D} x {x (one-box excursions),xs,xu} x {orthogonal, orthogonal origin 0 (quick: xs only), triclinic (atomic modes only)} x N<=3 all line orders (quick: "
                 "3 of 6 for N=3) x 1-3 type assignments x F {1,3} (cell, types by id and column values change per frame) x 5 type maps x 4 column lists "
                 "(quick: half of the map x list products); ndim as int / numpy.int64 / numpy.int32 / numpy.intp, columnsids as list / tuple / int64 ndarray, "
                 "file name as str / pathlib.Path (L5); the three wrappers are also called directly with the same argument forms; unwrapped coordinates lie "
                 "0, +2, -3, +4 whole cell vectors away (L7); oracle: atomic truth / selected atoms relabelled in id order / requested columns by id, every field; "
                 "arguments unchanged",
            bounds={"Nmax": 3, "Fmax": 3, "maps": len(Y.DISPATCH_MAPS), "column_lists": 4, "readers_per_case": 7}),
        Sub("C01.sequence", gen_sequence, run_sequence,
            rule="explicit-state search over CALL SEQUENCES (lesson L6): all words of length <= " + ("2" if tier == "quick" else "3") + " over 12 complete reads "
                 "(same file name and byte size and first frame / different later frame; same content / other name; same file read as LAMMPS, LAMMPSCENTER with two "
                 "maps, LAMMPSVECTOR with two column lists; 2D under the same name; same diagonal, N and timesteps / tilted; x vs xs; same first and last "
                 "timestep / one more frame; DumpReader and wrapper), each word in a forked child whose reader modules are re-imported, twice: a fresh reader "
                 "object per call / read_onefile() again on the SAME DumpReader object when the constructor arguments recur (file re-written in between); "
                 "oracle: every call returns bit for bit what the same call returns when made first in a fresh child, and the objects returned earlier are unchanged at the end",
            bounds={"depth": 2 if tier == "quick" else 3, "letters": len(Y.SEQ_LETTERS)}),
    ]
