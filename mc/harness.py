"""Common machinery of the bounded-exhaustive explorer (DESIGN.md section 2).

A property check is a list of `Sub` objects.  Each Sub owns
  * gen(tier, seed)  -> deterministic enumeration of JSON-able cases (the alphabet, complete)
  * run(case)        -> Result (violations, outcome digest, non-triviality, elementary counts)
The runner shards every enumeration over long-lived worker processes by `index mod workers`,
executes the REAL implementation from $VERIF_REPO (default /repo) on every case, and collects
counts measured on this run.
"""
from __future__ import annotations

import hashlib
import json
import os
import shutil
import sys
import tempfile
import time
import traceback

VERIF = os.path.dirname(os.path.dirname(os.path.abspath(__file__)))
REPO = os.path.abspath(os.environ.get("VERIF_REPO", "/repo"))
# Outputs (evidence, replays) always go to VERIF_OUT (default: this tree)
OUT = os.path.abspath(os.environ.get("VERIF_OUT", VERIF))
LEVEL = "model_checking"
HISTORY = 3  # executions of the same worker kept as replay history for state-dependent violations


# ------------------------------------------------------------------------------------------
def bind():
    """Bind the process to the implementation under test and own the nondeterminism."""
    for k in ("OMP_NUM_THREADS", "OPENBLAS_NUM_THREADS", "MKL_NUM_THREADS", "NUMEXPR_NUM_THREADS"):
        os.environ.setdefault(k, "1")
    if REPO not in sys.path[:1]:
        sys.path.insert(0, REPO)
    if VERIF not in sys.path:
        sys.path.insert(1, VERIF)
    import logging
    import warnings

    logging.disable(logging.CRITICAL)
    warnings.simplefilter("ignore")
    import PyMatterSim

    f = os.path.abspath(PyMatterSim.__file__)
    if not f.startswith(REPO + os.sep):
        print(f"HARNESS-ERROR: PyMatterSim imported from {f}, not from {REPO}")
        sys.exit(3)
    try:
        import numpy as np

        np.seterr(all="ignore")
    except Exception:
        pass


def set_freud_threads():
    try:
        import freud

        freud.parallel.set_num_threads(1)
    except Exception:
        pass


# ------------------------------------------------------------------------------------------
def jsonable(x):
    """Convert numpy containers to plain python, recursively (complex -> [re, im])."""
    import numpy as np

    if isinstance(x, dict):
        return {str(k): jsonable(v) for k, v in x.items()}
    if isinstance(x, (list, tuple)):
        return [jsonable(v) for v in x]
    if isinstance(x, np.ndarray):
        if np.iscomplexobj(x):
            return {"__complex__": True, "re": x.real.tolist(), "im": x.imag.tolist()}
        return x.tolist()
    if isinstance(x, (np.bool_,)):
        return bool(x)
    if isinstance(x, np.integer):
        return int(x)
    if isinstance(x, np.floating):
        return float(x)
    if isinstance(x, complex):
        return {"__complex__": True, "re": x.real, "im": x.imag}
    if isinstance(x, (set, frozenset)):
        return sorted(jsonable(v) for v in x)
    if isinstance(x, bytes):
        return x.decode("latin1")
    return x


def canon(case) -> str:
    return json.dumps(jsonable(case), sort_keys=True, separators=(",", ":"))


def digest(obj) -> str:
    import numpy as np

    if isinstance(obj, np.ndarray):
        b = np.ascontiguousarray(obj).tobytes() + str(obj.shape).encode() + str(obj.dtype).encode()
    elif isinstance(obj, bytes):
        b = obj
    else:
        b = canon(obj).encode()
    return hashlib.sha1(b).hexdigest()[:16]


def rdigest(obj, nd=9) -> str:
    """Digest of a float-valued observable rounded to nd significant decimals (outcome counting)."""
    import numpy as np

    def rnd(x):
        if isinstance(x, dict):
            return {k: rnd(v) for k, v in sorted(x.items())}
        if isinstance(x, (list, tuple)):
            return [rnd(v) for v in x]
        a = np.asarray(x)
        if a.dtype.kind in "fc":
            return np.round(a, nd).tolist() if a.dtype.kind == "f" else [np.round(a.real, nd).tolist(), np.round(a.imag, nd).tolist()]
        if a.dtype.kind in "iub":
            return a.tolist()
        return str(x)

    return digest(rnd(obj))


# ------------------------------------------------------------------------------------------
class Result:
    """What one execution (one case) produced."""

    __slots__ = ("viol", "out", "nontrivial", "screened", "elem", "states", "transitions", "notes")

    def __init__(self):
        self.viol = []  # list of dict(sub?, msg, sig, exp, obs)
        self.out = None  # digest of the observed outcome
        self.nontrivial = True
        self.screened = False
        self.elem = 1  # elementary comparisons (grid nodes, rows, states of an inner BFS)
        self.states = None  # inner explicit-state search: distinct states
        self.transitions = None
        self.notes = None

    def fail(self, msg, sig=None, exp=None, obs=None, sub=None):
        if len(self.viol) < 5:
            self.viol.append(
                {"sub": sub, "msg": str(msg)[:600], "sig": jsonable(sig or {}), "exp": _short(exp), "obs": _short(obs)}
            )
        else:
            self.viol.append(None)

    def outcome(self, obj, nd=9):
        self.out = rdigest(obj, nd)

    def screen(self):
        self.screened = True
        return self


def _short(x, lim=2000):
    if x is None:
        return None
    s = canon(x)
    if len(s) > lim:
        return s[:lim] + "...(truncated)"
    return json.loads(s)


class Sub:
    def __init__(self, sid, gen, run, rule, exhaustive=True, bounds=None):
        self.id = sid
        self.gen = gen
        self.run = run
        self.rule = rule
        self.exhaustive = exhaustive  # the enumeration is a complete finite space (no cap)
        self.bounds = bounds or {}


# ------------------------------------------------------------------------------------------
def _worker(args):
    modname, tier, seed, wid, nw, only = args
    cov = None
    if os.environ.get("VERIF_COVERAGE"):  # diagnostic only (tools/anchor_coverage.py): which anchored lines/branches the alphabets reach
        import coverage

        cov = coverage.Coverage(
            data_file=os.path.join(os.environ["VERIF_COVERAGE"], f"cov.{modname}.{wid}"), include=[REPO + "/PyMatterSim/*"], branch=True
        )
        cov.start()
    bind()
    set_freud_threads()
    scratch = tempfile.mkdtemp(prefix=f"vf_{modname}_{wid}_")
    os.chdir(scratch)
    try:
        mod = __import__(f"checks.{modname}", fromlist=["subs"])
        subs = mod.subs(tier, seed)
        out = {}
        prev = []  # the last executions of this worker, across sub-checks (for history-dependent violations)
        first = []  # ... and its first two (a stale cache is usually filled by the first call)
        for sub in subs:
            if only and not sub.id.startswith(only):
                continue
            st = dict(
                evals=0, total=0, digests=set(), nontriv=set(), outcomes=set(), screened=0, elem=0, viol=[], nviol=0,
                samples=[], states=0, transitions=0, t=0.0,
            )
            t0 = time.time()
            for idx, case in enumerate(sub.gen(tier, seed)):
                st["total"] += 1
                if idx % nw != wid:
                    continue
                cd = digest(case)
                try:
                    r = sub.run(case)
                except Exception as e:  # any exception on a valid input is a violation
                    r = Result()
                    tb = traceback.extract_tb(e.__traceback__)
                    where = ""
                    for fr in reversed(tb):
                        if fr.filename.startswith(REPO):
                            where = f"{os.path.relpath(fr.filename, REPO)}:{fr.name}"
                            break
                    if not where and tb:
                        where = f"{os.path.basename(tb[-1].filename)}:{tb[-1].lineno}"
                    r.fail(f"exception {type(e).__name__}: {e} @ {where}", sig={"exception": type(e).__name__, "where": where})
                    r.nontrivial = False
                if r.screened:
                    st["screened"] += 1
                    continue
                st["evals"] += 1
                st["elem"] += r.elem
                st["digests"].add(cd)
                if r.nontrivial:
                    st["nontriv"].add(cd)
                if r.out is not None:
                    st["outcomes"].add(r.out)
                if r.states:
                    st["states"] += r.states
                    st["transitions"] += r.transitions or 0
                if len(st["samples"]) < 2 and wid == 0:
                    st["samples"].append(_short(case, 1500))
                if r.viol:
                    st["nviol"] += 1
                    if len(st["viol"]) < 40:
                        for v in r.viol:
                            if v is None:
                                continue
                            v = dict(v)
                            v["sub"] = v.get("sub") or sub.id
                            v["case"] = jsonable(case)
                            v["runner"] = sub.id
                            seen_h, hist = set(), []
                            for rid, c in first + prev:
                                kk = rid + "|" + digest(c)
                                if kk not in seen_h:
                                    seen_h.add(kk)
                                    hist.append({"runner": rid, "case": jsonable(c)})
                            v["history"] = hist
                            st["viol"].append(v)
                prev = (prev + [(sub.id, case)])[-HISTORY:]
                if len(first) < 2:
                    first.append((sub.id, case))
            st["t"] = time.time() - t0
            out[sub.id] = st
        return out
    finally:
        if cov is not None:
            cov.stop()
            cov.save()
        os.chdir("/")
        shutil.rmtree(scratch, ignore_errors=True)


def load_known():
    p = os.path.join(VERIF, "known_findings.json")
    if not os.path.exists(p):
        return []
    return json.load(open(p))


def match_known(v, known):
    for k in known:
        if k.get("status") != "known":
            continue
        if k.get("property") and not v["sub"].startswith(k["property"]):
            continue
        if k.get("sub") and k["sub"] != v["sub"]:
            continue
        sig = v.get("sig") or {}
        if all(sig.get(a) == b for a, b in (k.get("match") or {}).items()):
            return k
    return None


def sigkey(v):
    return v["sub"] + "|" + canon(v.get("sig") or {})


def repo_head():
    import subprocess

    try:
        return subprocess.run(["git", "-C", REPO, "rev-parse", "HEAD"], capture_output=True, text=True).stdout.strip()
    except Exception:
        return "?"


def write_replay(pid, modname, tier, seed, v):
    os.makedirs(os.path.join(OUT, "replays"), exist_ok=True)
    body = {
        "property": pid,
        "module": modname,
        "sub": v["sub"],
        "runner": v["runner"],
        "tier": tier,
        "seed": seed,
        "input": v["case"],
        "history": v.get("history") or [],
        "expected": v.get("exp"),
        "observed": v.get("obs"),
        "message": v["msg"],
        "signature": v.get("sig") or {},
        "repo_head": repo_head(),
        "created_by": "mc/harness.py",
    }
    h = hashlib.sha1(canon({k: body[k] for k in ("sub", "input", "signature")}).encode()).hexdigest()[:12]
    path = os.path.join(OUT, "replays", f"{pid}-{h}.json")
    with open(path, "w") as f:
        json.dump(body, f, indent=1, sort_keys=True)
    return path


def replay_once(path, with_history=None):
    """Re-execute one stored case without the explorer.  Returns list of violation messages.
    with_history: None = as recorded in the file (key `history_needed`), True/False = force."""
    body = json.load(open(path))
    if with_history is None:
        with_history = bool(body.get("history_needed"))
    bind()
    set_freud_threads()
    mod = __import__(f"checks.{body['module']}", fromlist=["subs"])
    subs = {s.id: s for s in mod.subs(body["tier"], body["seed"])}
    sub = subs[body["runner"]]
    scratch = tempfile.mkdtemp(prefix="vf_replay_")
    cwd = os.getcwd()
    os.chdir(scratch)
    try:
        try:
            if with_history:
                for h in body.get("history") or []:
                    try:
                        subs[h["runner"]].run(h["case"])
                    except Exception:
                        pass
            r = sub.run(body["input"])
            msgs = [v["msg"] for v in r.viol if v]
        except Exception as e:
            msgs = [f"exception {type(e).__name__}: {e}"]
    finally:
        os.chdir(cwd)
        shutil.rmtree(scratch, ignore_errors=True)
    return msgs


def run_property(pid, tier, seed, workers, only=None, quiet=False):
    import multiprocessing as mp

    t0 = time.time()
    modname = pid.lower()
    ctx = mp.get_context("fork")
    with ctx.Pool(workers) as pool:
        parts = pool.map(_worker, [(modname, tier, seed, w, workers, only) for w in range(workers)], chunksize=1)
    bind()
    mod = __import__(f"checks.{modname}", fromlist=["subs"])
    subs = [s for s in mod.subs(tier, seed) if not only or s.id.startswith(only)]
    known = load_known()
    per_sub = {}
    all_v = []
    tot = dict(evals=0, states=0, nontriv=0, outcomes=0, screened=0, elem=0, inner_states=0, inner_trans=0, nviol=0)
    samples = []
    exhaustive = True
    vacuous = []
    for sub in subs:
        agg = dict(evals=0, digests=set(), nontriv=set(), outcomes=set(), screened=0, elem=0, nviol=0, states=0, transitions=0, t=0.0, total=0)
        for p in parts:
            st = p.get(sub.id)
            if not st:
                continue
            agg["evals"] += st["evals"]
            agg["digests"] |= st["digests"]
            agg["nontriv"] |= st["nontriv"]
            agg["outcomes"] |= st["outcomes"]
            agg["screened"] += st["screened"]
            agg["elem"] += st["elem"]
            agg["nviol"] += st["nviol"]
            agg["states"] += st["states"]
            agg["transitions"] += st["transitions"]
            agg["t"] = max(agg["t"], st["t"])
            agg["total"] = max(agg["total"], st["total"])
            all_v.extend(st["viol"])
            for s in st["samples"]:
                if len(samples) < 6:
                    samples.append({"sub": sub.id, "case": s})
        per_sub[sub.id] = {
            "enumerated": agg["total"],
            "executions": agg["evals"],
            "distinct_inputs": len(agg["digests"]),
            "distinct_nontrivial": len(agg["nontriv"]),
            "distinct_outcomes": len(agg["outcomes"]),
            "screened_out": agg["screened"],
            "elementary_comparisons": agg["elem"],
            "inner_states": agg["states"],
            "inner_transitions": agg["transitions"],
            "cases_with_violation": agg["nviol"],
            "exhaustive": bool(sub.exhaustive),
            "rule": sub.rule,
            "bounds": sub.bounds,
            "wall_s_slowest_worker": round(agg["t"], 2),
        }
        exhaustive = exhaustive and bool(sub.exhaustive)
        tot["evals"] += agg["evals"]
        tot["states"] += len(agg["digests"])
        tot["nontriv"] += len(agg["nontriv"])
        tot["outcomes"] += len(agg["outcomes"])
        tot["screened"] += agg["screened"]
        tot["elem"] += agg["elem"]
        tot["inner_states"] += agg["states"]
        tot["inner_trans"] += agg["transitions"]
        tot["nviol"] += agg["nviol"]
        n = agg["evals"] + agg["screened"]
        if agg["evals"] == 0:
            vacuous.append(f"{sub.id}: no case executed")
        elif n and agg["screened"] / n > 0.25:
            vacuous.append(f"{sub.id}: {agg['screened']}/{n} cases screened out")
        elif agg["evals"] >= 20 and len(agg["outcomes"]) == 1 and not getattr(sub, "single_outcome_ok", False):
            vacuous.append(f"{sub.id}: one outcome from {agg['evals']} executions")

    # ---- violations: dedupe by signature, known-findings, double replay --------------------
    by_sig = {}
    for v in all_v:
        by_sig.setdefault(sigkey(v), []).append(v)
    lines = []
    nreport = 0
    nknown = 0
    harness_error = None
    unreproduced = []
    flaky = []
    nreproduced = 0
    known_printed = set()
    for key in sorted(by_sig):
        vs = by_sig[key]
        v = min(vs, key=lambda x: len(canon(x["case"])))
        k = match_known(v, known)
        if k is not None:
            nknown += 1
            if k["what"] not in known_printed:
                known_printed.add(k["what"])
                lines.append(f"KNOWN-FINDING: property={pid} {k['what']}")
            continue
        if nreport >= 10:
            nreport += 1
            continue
        path = write_replay(pid, modname, tier, seed, v)
        # the same case must fail the same way in two fresh processes
        import subprocess

        def _twice():
            o = []
            for _ in range(2):
                pr = subprocess.run(
                    [sys.executable, "-B", os.path.join(VERIF, "mc", "cli.py"), "--replay", path, "--json"],
                    capture_output=True, text=True, cwd=VERIF,
                )
                o.append(pr.stdout.strip().splitlines()[-1] if pr.stdout.strip() else f"rc={pr.returncode} {pr.stderr[-300:]}")
            return o

        obs = _twice()
        hist_note = ""
        if obs[0] == obs[1] == "[]" and v.get("history"):
            # not reproducible from a fresh state: replay again after the executions that preceded it in the
            # same worker (state carried between calls is itself a violation of every property: the result of
            # an analysis must depend on its inputs only)
            body = json.load(open(path))
            body["history_needed"] = True
            with open(path, "w") as f:
                json.dump(body, f, indent=1, sort_keys=True)
            obs = _twice()
            hist_note = " [history-dependent: reproduces only after the preceding executions recorded in the replay file]"
        if obs[0] != obs[1]:
            # this one counterexample does not replay identically twice (e.g. behaviour keyed on object addresses): it is not
            # reported as a VIOLATION; the run is a harness error only if no other counterexample reproduces deterministically
            flaky.append(f"FLAKY-REPLAY: {path} ({v['sub']}) differs between two fresh processes: {str(obs)[:300]}")
            continue
        elif obs[0] == "[]":
            unreproduced.append(f"UNREPRODUCED: {path} ({v['sub']}) fails inside the explorer but not when replayed alone or after its recorded history")
            continue
        nreproduced += 1
        nreport += 1
        lines.append(f"VIOLATION property={pid} replay={path}")
        if not quiet:
            lines.append(f"  sub={v['sub']} sig={canon(v.get('sig'))} :: {v['msg'][:300]}{hist_note}")
    wall = time.time() - t0

    cov = {
        "states": max(1, tot["states"]),
        "transitions": max(1, tot["evals"]),
        "traces_validated_against_impl": tot["evals"],
        "samples": samples or [{"note": "no case executed"}],
        "evaluations": tot["evals"],
        "distinct_nontrivial": tot["nontriv"],
        "rule": "; ".join(f"{s.id}: {s.rule}" for s in subs)[:6000],
        "exhaustive": exhaustive,
        "distinct_outcomes": tot["outcomes"],
        "screened_out": tot["screened"],
        "elementary_comparisons": tot["elem"],
        "inner_search_states": tot["inner_states"],
        "inner_search_transitions": tot["inner_trans"],
        "per_sub": per_sub,
        "workers": workers,
        "repo": REPO,
        "repo_head": repo_head(),
        "explanation": "states = distinct canonical inputs/histories enumerated and executed on the real implementation; "
        "transitions = implementation executions; every execution is compared with the reference model "
        "(no separate model: the explored traces are implementation traces)",
        "known_findings_matched": nknown,
        "vacuity_warnings": vacuous,
    }
    ev = {
        "property_id": pid,
        "tier": tier,
        "seed": int(seed),
        "level": LEVEL,
        "coverage": cov,
        "assumptions": getattr(mod, "ASSUMPTIONS", []),
        "wall_s": round(wall, 2),
        "violations": nreport,
    }
    if not only:
        os.makedirs(os.path.join(OUT, "evidence"), exist_ok=True)
        with open(os.path.join(OUT, "evidence", f"{pid}.json"), "w") as f:
            json.dump(ev, f, indent=1, sort_keys=True)
    for ln in lines:
        print(ln)
    print(
        f"[{pid} {tier} seed={seed}] subs={len(subs)} executions={tot['evals']} distinct_inputs={tot['states']} "
        f"nontrivial={tot['nontriv']} outcomes={tot['outcomes']} screened={tot['screened']} elementary={tot['elem']} "
        f"violations={nreport} known={nknown} wall={wall:.1f}s"
    )
    if not quiet:
        for sid, ps in per_sub.items():
            print(
                f"   {sid:<34} exec={ps['executions']:<7} distinct={ps['distinct_inputs']:<7} nontriv={ps['distinct_nontrivial']:<7} "
                f"outcomes={ps['distinct_outcomes']:<7} screened={ps['screened_out']:<5} elem={ps['elementary_comparisons']:<9} "
                f"viol={ps['cases_with_violation']:<5} t={ps['wall_s_slowest_worker']}s"
            )
    for w in vacuous:
        print(f"VACUOUS? {w}")
    for u in unreproduced + flaky:
        print(u)
    if harness_error or ((unreproduced or flaky) and not nreproduced):
        print(harness_error or "NONDETERMINISM: no violation of this run could be reproduced deterministically in a fresh process")
        return 3
    return 1 if nreproduced else 0
