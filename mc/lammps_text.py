"""Independent LAMMPS text encoders (dump files) implementing the LAMMPS conventions
(https://docs.lammps.org/Howto_triclinic.html, dump atom/custom)."""
from __future__ import annotations


def fmt(x, syntax="decimal"):
    x = float(x)
    if syntax == "sci":
        return "%.16e" % x
    return repr(x)


def frame_text(fr, d, style, syntax="decimal", flags="pp pp pp", extras="none", order=None, zcol=False):
    """fr: dict(ts, types[list by id], lo[d], L[d], tilts (xy,xz,yz) or None (orthogonal header),
    coords: per id the numbers to PRINT in the coordinate columns (already in the style's convention))."""
    n = len(fr["types"])
    lo = list(fr["lo"]) + [-0.5] * (3 - d)
    L = list(fr["L"]) + [1.0] * (3 - d)
    hi = [a + b for a, b in zip(lo, L)]
    lines = ["ITEM: TIMESTEP", str(int(fr["ts"])), "ITEM: NUMBER OF ATOMS", str(n)]
    fl = (" " + flags) if flags else ""
    if fr.get("tilts") is None:
        lines.append("ITEM: BOX BOUNDS" + fl)
        for a in range(3):
            lines.append(f"{fmt(lo[a], syntax)} {fmt(hi[a], syntax)}")
    else:
        xy, xz, yz = fr["tilts"]
        lines.append("ITEM: BOX BOUNDS xy xz yz" + fl)
        xlo_b = lo[0] + min(0.0, xy, xz, xy + xz)
        xhi_b = hi[0] + max(0.0, xy, xz, xy + xz)
        ylo_b = lo[1] + min(0.0, yz)
        yhi_b = hi[1] + max(0.0, yz)
        lines.append(f"{fmt(xlo_b, syntax)} {fmt(xhi_b, syntax)} {fmt(xy, syntax)}")
        lines.append(f"{fmt(ylo_b, syntax)} {fmt(yhi_b, syntax)} {fmt(xz, syntax)}")
        lines.append(f"{fmt(lo[2], syntax)} {fmt(hi[2], syntax)} {fmt(yz, syntax)}")
    names = {"x": ["x", "y", "z"], "xs": ["xs", "ys", "zs"], "xu": ["xu", "yu", "zu"]}[style][:d]
    ex = {"none": [], "float": ["c_pe"], "image": ["ix", "iy", "iz"]}[extras]
    lines.append("ITEM: ATOMS id type " + " ".join(names + ex))
    order = list(order) if order is not None else list(range(n))
    for i in order:
        c = fr["coords"][i]
        row = [str(i + 1), str(int(fr["types"][i]))] + [fmt(v, syntax) for v in c[:d]]
        if extras == "float":
            row.append(fmt(-1.25 * (i + 1), syntax))
        elif extras == "image":
            row += [str((i % 3) - 1), "0", str(i % 2)]
        lines.append(" ".join(row))
    return "\n".join(lines) + "\n"


def bounds_of(fr, d):
    """(boxbounds as printed [d,2], realbounds [d,2] or None) for a frame dict."""
    lo = list(fr["lo"]) + [-0.5] * (3 - d)
    L = list(fr["L"]) + [1.0] * (3 - d)
    hi = [a + b for a, b in zip(lo, L)]
    if fr.get("tilts") is None:
        return [[lo[a], hi[a]] for a in range(d)], None
    xy, xz, yz = fr["tilts"]
    b = [
        [lo[0] + min(0.0, xy, xz, xy + xz), hi[0] + max(0.0, xy, xz, xy + xz)],
        [lo[1] + min(0.0, yz), hi[1] + max(0.0, yz)],
        [lo[2], hi[2]],
    ]
    return b[:d], [[lo[a], hi[a]] for a in range(d)]
