"""Reference pair potentials for C12 (and C11) + the structural walk behind C12's cutoff argument.

Part 1 - the three documented potentials s(r) (docs/hessian.md), written once, generically (they work on floats and
on mc.ref.hyperdual.HD numbers); derivatives come from hyper-dual evaluation, not from hand-derived formulas:

    lennard_jones       s(r) = 4 eps [ (sigma/r)^12 - (sigma/r)^6 ]
    inverse_power_law   s(r) = A eps (sigma/r)^n
    harmonic_hertz      s(r) = eps/alpha (1 - r/sigma)^alpha          (r < sigma; r_c = sigma, s'(r_c) = 0)

Part 2 - `closed_form_structure(source)`: an abstract interpretation of PairInteractions.lennard_jones /
inverse_power_law / harmonic_hertz that establishes (or fails to establish - never an error) that every returned
quantity is a GENERALISED POLYNOMIAL  sum_k c_k  r^a_k  r_c^b_k  sigma^c_k  eps^d_k  A^e_k  (Hertz: u^a_k with
u = 1 - r/sigma)  with few terms, real exponents (affine in the exponent parameter n / alpha) and coefficients c_k
that depend on n / alpha and numeric literals only.  Together with the support of the documented derivative this
gives, per variable, the number T of distinct exponents of (implementation - reference).  A generalised polynomial
with T terms has at most T-1 positive zeros (Descartes / Laguerre; real powers form a Chebyshev system on (0,inf)),
and tensor grids are unisolvent for tensor products of such systems; so agreement on a full Cartesian grid with at
least T distinct positive nodes per variable is identity in all those variables - for the enumerated exponent value.
For LJ and integer n this is the Laurent-polynomial argument of DESIGN.md; the same argument covers real n and the
Hertz form in u.  What stays bounded: the dependence on the exponent n / alpha itself (only the enumerated values).
"""
from __future__ import annotations

import ast
from fractions import Fraction

MODELS = ("lj", "ipl", "hertz")


# ------------------------------------------------------------------------------------------ part 1
def s_lj(r, eps, sigma):
    q = sigma / r
    return 4.0 * eps * (q ** 12 - q ** 6)


def s_ipl(r, eps, sigma, n, A):
    return A * eps * (sigma / r) ** n


def s_hertz(r, eps, sigma, alpha):
    return eps / alpha * (1.0 - r / sigma) ** alpha


def potential(model, r, eps, sigma, n=None, A=None, alpha=None):
    if model == "lj":
        return s_lj(r, eps, sigma)
    if model == "ipl":
        return s_ipl(r, eps, sigma, n, A)
    if model == "hertz":
        return s_hertz(r, eps, sigma, alpha)
    raise ValueError(model)


def triple(model, r, eps, sigma, r_c, shift, n=None, A=None, alpha=None):
    """[s'(r), s'(r_c) if shift else 0, s''(r)] of the documented potential, by hyper-dual differentiation"""
    from mc.ref.hyperdual import derivs

    f = lambda x: potential(model, x, eps, sigma, n=n, A=A, alpha=alpha)
    _, s1, s2 = derivs(f, r)
    s1c = derivs(f, r_c)[1] if shift else 0.0
    return [s1, s1c, s2]


# ------------------------------------------------------------------------------------------ part 2
VARS = ("r", "rc", "sigma", "eps", "A", "u")
_ZERO = (Fraction(0), Fraction(0))


class Structure(Exception):
    pass


def _mono(**kw):
    return tuple((Fraction(kw[v][0]), Fraction(kw[v][1])) if v in kw else _ZERO for v in VARS)


_ONE = frozenset([_mono()])


def _mul(t1, t2):
    return tuple((a[0] + b[0], a[1] + b[1]) for a, b in zip(t1, t2))


def _powm(t, e):
    """monomial t to the power e = (a, b) ~ a + b*p"""
    out = []
    for (a, b) in t:
        if b != 0 and e[1] != 0:
            raise Structure("exponent quadratic in the exponent parameter")
        out.append((a * e[0], a * e[1] + b * e[0]))
    return tuple(out)


def _self_attr(node):
    if isinstance(node, ast.Attribute) and isinstance(node.value, ast.Name) and node.value.id == "self":
        return node.attr
    return None


class _Walker:
    def __init__(self, pexp, plin):
        self.pexp = pexp  # name of the exponent parameter (n / alpha) or None
        self.plin = plin  # names of parameters that are ordinary variables (A)
        self.env = {}

    # exponent expressions: a + b*p
    def lin(self, node):
        if isinstance(node, ast.Constant) and isinstance(node.value, (int, float)) and not isinstance(node.value, bool):
            return (Fraction(node.value), Fraction(0))
        if isinstance(node, ast.Name) and node.id == self.pexp:
            return (Fraction(0), Fraction(1))
        if isinstance(node, ast.UnaryOp) and isinstance(node.op, ast.USub):
            a, b = self.lin(node.operand)
            return (-a, -b)
        if isinstance(node, ast.BinOp) and isinstance(node.op, (ast.Add, ast.Sub)):
            l, r = self.lin(node.left), self.lin(node.right)
            s = 1 if isinstance(node.op, ast.Add) else -1
            return (l[0] + s * r[0], l[1] + s * r[1])
        raise Structure("exponent expression %s" % ast.dump(node)[:60])

    def val(self, node):
        """support (frozenset of monomials) of an expression"""
        if isinstance(node, ast.Constant):
            if isinstance(node.value, (int, float)) and not isinstance(node.value, bool):
                return _ONE if node.value != 0 else frozenset()
            raise Structure("constant %r" % (node.value,))
        at = _self_attr(node)
        if at is not None:
            key = {"r": "r", "r_c": "rc", "sigma": "sigma", "epsilon": "eps"}.get(at)
            if key is None:
                raise Structure("self.%s" % at)
            return frozenset([_mono(**{key: (1, 0)})])
        if isinstance(node, ast.Name):
            if node.id in self.env:
                return self.env[node.id]
            if node.id == self.pexp:
                return _ONE  # a coefficient that depends on the exponent parameter only
            if node.id in self.plin:
                return frozenset([_mono(A=(1, 0))])
            raise Structure("name %s" % node.id)
        if isinstance(node, ast.UnaryOp) and isinstance(node.op, (ast.USub, ast.UAdd)):
            return self.val(node.operand)
        if isinstance(node, ast.BinOp):
            if isinstance(node.op, (ast.Add, ast.Sub)):
                return self.val(node.left) | self.val(node.right)
            if isinstance(node.op, ast.Mult):
                a, b = self.val(node.left), self.val(node.right)
                return frozenset(_mul(x, y) for x in a for y in b)
            if isinstance(node.op, ast.Div):
                a, b = self.val(node.left), self.val(node.right)
                if len(b) != 1:
                    raise Structure("division by a non-monomial")
                inv = _powm(next(iter(b)), (Fraction(-1), Fraction(0)))
                return frozenset(_mul(x, inv) for x in a)
            if isinstance(node.op, ast.Pow):
                a, e = self.val(node.left), self.lin(node.right)
                if len(a) == 1:
                    return frozenset([_powm(next(iter(a)), e)])
                if e[1] == 0 and e[0].denominator == 1 and 0 <= e[0] <= 8:
                    out = _ONE
                    for _ in range(int(e[0])):
                        out = frozenset(_mul(x, y) for x in out for y in a)
                    return out
                raise Structure("non-monomial to a non-literal power")
        raise Structure("node %s" % type(node).__name__)


def _is_u(node):
    """1 - self.r / self.sigma"""
    return (isinstance(node, ast.BinOp) and isinstance(node.op, ast.Sub) and isinstance(node.left, ast.Constant)
            and node.left.value == 1 and isinstance(node.right, ast.BinOp) and isinstance(node.right.op, ast.Div)
            and _self_attr(node.right.left) == "r" and _self_attr(node.right.right) == "sigma")


def _walk_method(fn, pexp, plin):
    w = _Walker(pexp, plin)
    ret = None

    def assign(st, env_extra=None):
        if not (isinstance(st, ast.Assign) and len(st.targets) == 1 and isinstance(st.targets[0], ast.Name)):
            raise Structure("statement %s" % type(st).__name__)
        name = st.targets[0].id
        if _is_u(st.value):
            return name, frozenset([_mono(u=(1, 0))])
        return name, w.val(st.value)

    branches = {}
    for st in fn.body:
        if isinstance(st, ast.Expr) and isinstance(st.value, ast.Constant) and isinstance(st.value.value, str):
            continue
        if ret is not None:
            raise Structure("statement after return")
        if isinstance(st, ast.Assign):
            k, v = assign(st)
            w.env[k] = v
        elif isinstance(st, ast.If):
            if _self_attr(st.test) != "shift" or len(st.body) != 1 or len(st.orelse) != 1:
                raise Structure("if statement")
            k1, v1 = assign(st.body[0])
            k2, v2 = assign(st.orelse[0])
            if k1 != k2:
                raise Structure("branches assign different names")
            branches[k1] = (v1, v2)
            w.env[k1] = v1 | v2
        elif isinstance(st, ast.Return):
            if not (isinstance(st.value, ast.List) and len(st.value.elts) == 3 and all(isinstance(e, ast.Name) for e in st.value.elts)):
                raise Structure("return is not a list of three names")
            ret = [e.id for e in st.value.elts]
        else:
            raise Structure("statement %s" % type(st).__name__)
    if ret is None:
        raise Structure("no return")
    out = {}
    for pos, name in zip(("s1", "s1rc", "s2"), ret):
        if name in branches:
            out[pos] = branches[name][0]
            out[pos + "_noshift"] = branches[name][1]
        else:
            out[pos] = w.env[name]
    return out


def _to_scaled(support):
    """(r, rc, sigma, ...) -> (x = r/sigma, y = rc/sigma, sigma, ...): r^a rc^b sigma^c = x^a y^b sigma^(a+b+c)"""
    out = set()
    for t in support:
        d = dict(zip(VARS, t))
        s = (d["sigma"][0] + d["r"][0] + d["rc"][0], d["sigma"][1] + d["r"][1] + d["rc"][1])
        out.add(tuple(s if v == "sigma" else d[v] for v in VARS))
    return frozenset(out)


def _m(x=None, y=None, sigma=None, eps=None, A=None, u=None):
    kw = {k: v for k, v in (("r", x), ("rc", y), ("sigma", sigma), ("eps", eps), ("A", A), ("u", u)) if v is not None}
    return _mono(**kw)


# supports of the DOCUMENTED derivatives in the scaled variables (x, y, sigma, eps, A, u); exponents (a, b) = a + b*p
REF_SUPPORT = {
    "lj": {
        "s1": frozenset([_m(x=(-13, 0), sigma=(-1, 0), eps=(1, 0)), _m(x=(-7, 0), sigma=(-1, 0), eps=(1, 0))]),
        "s1rc": frozenset([_m(y=(-13, 0), sigma=(-1, 0), eps=(1, 0)), _m(y=(-7, 0), sigma=(-1, 0), eps=(1, 0))]),
        "s2": frozenset([_m(x=(-14, 0), sigma=(-2, 0), eps=(1, 0)), _m(x=(-8, 0), sigma=(-2, 0), eps=(1, 0))]),
    },
    "ipl": {
        "s1": frozenset([_m(x=(-1, -1), sigma=(-1, 0), eps=(1, 0), A=(1, 0))]),
        "s1rc": frozenset([_m(y=(-1, -1), sigma=(-1, 0), eps=(1, 0), A=(1, 0))]),
        "s2": frozenset([_m(x=(-2, -1), sigma=(-2, 0), eps=(1, 0), A=(1, 0))]),
    },
    "hertz": {
        "s1": frozenset([_m(sigma=(-1, 0), eps=(1, 0), u=(-1, 1))]),
        "s1rc": frozenset(),
        "s2": frozenset([_m(sigma=(-2, 0), eps=(1, 0), u=(-2, 1))]),
    },
}
SCALED = ("x", "y", "sigma", "eps", "A", "u")


def closed_form_structure(source):
    """{model: {"ok": bool, "why": str, "need": {scaled variable: nodes needed}, "terms": {...}}}; never raises"""
    res = {m: {"ok": False, "why": "", "need": {}, "terms": {}} for m in MODELS}
    try:
        tree = ast.parse(source)
        cls = next(n for n in tree.body if isinstance(n, ast.ClassDef) and n.name == "PairInteractions")
        fns = {n.name: n for n in cls.body if isinstance(n, ast.FunctionDef)}
    except Exception as e:
        for m in MODELS:
            res[m]["why"] = "%s: %s" % (type(e).__name__, e)
        return res
    spec = {"lj": ("lennard_jones", None, ()), "ipl": ("inverse_power_law", "n", ("A",)), "hertz": ("harmonic_hertz", "alpha", ())}
    for m, (fname, pexp, plin) in spec.items():
        try:
            if fname not in fns:
                raise Structure("method %s missing" % fname)
            sup = _walk_method(fns[fname], pexp, plin)
            need = {v: 1 for v in SCALED}
            for q in ("s1", "s1rc", "s2"):
                impl = _to_scaled(sup[q])
                if m == "hertz" and any(t[VARS.index("r")] != _ZERO for t in impl):
                    raise Structure("Hertz form mixes r and u")
                if m != "hertz" and any(t[VARS.index("u")] != _ZERO for t in impl):
                    raise Structure("u outside the Hertz form")
                union = impl | REF_SUPPORT[m][q]
                res[m]["terms"][q] = len(union)
                for i, v in enumerate(SCALED):
                    need[v] = max(need[v], len({t[i] for t in union}))
                if q + "_noshift" in sup and len(sup[q + "_noshift"]) != 0:
                    raise Structure("no-shift branch is not the literal 0")
            res[m]["need"] = need
            res[m]["ok"] = True
        except Structure as e:
            res[m]["why"] = str(e)
        except Exception as e:
            res[m]["why"] = "%s: %s" % (type(e).__name__, e)
    return res
