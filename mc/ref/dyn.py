"""Reference models for C06 (relaxation functions, four-point S(q)) and C14 (time correlation).

Deliberately naive: explicit loops over lags, time origins, particles and axes; math.cos on scalars;
a literal transcription of the documented definitions.  Nothing here calls the functions under test.
"""
from __future__ import annotations

import math
from fractions import Fraction

import numpy as np

from .base import minimg

CUT_MARGIN = 1e-9


# ------------------------------------------------------------------------------------------ helpers
def knearest(pos, H, ppp, k):
    """k nearest OTHER particles of every particle (minimum image, ties broken by index).
    Only used to produce an *input* neighbour file, so ties need no screening."""
    pos = np.asarray(pos, float)
    n = len(pos)
    out = []
    for i in range(n):
        v = minimg(pos - pos[i], H, ppp)
        r = [(float(np.dot(v[j], v[j])), j) for j in range(n) if j != i]
        r.sort()
        out.append([j for _, j in r[:k]])
    return out


def wrap(pos, L):
    """Coordinates folded into [0, L) per axis (what a dump with x y z columns would contain)."""
    pos = np.asarray(pos, float)
    L = np.asarray(L, float)
    return pos - np.floor(pos / L) * L


def alpha2_prefactor(d):
    return {3: 3.0 / 5.0, 2: 1.0 / 2.0}[d]


# ------------------------------------------------------------------- displacement of one frame pair
def displacement(xs, t0, t1, nl=None):
    """Per-particle displacement between frames t0 < t1 of the UNWRAPPED trajectory xs; when neighbour
    lists are given, made cage-relative with the list `nl` (of the origin frame, chosen by the caller)."""
    a = xs[t0]
    b = xs[t1]
    n = len(a)
    d = len(a[0])
    dr = [[float(b[i][c]) - float(a[i][c]) for c in range(d)] for i in range(n)]
    if nl is None:
        return dr
    out = []
    for i in range(n):
        nb = nl[i]
        row = []
        for c in range(d):
            m = 0.0
            for j in nb:
                m += dr[j][c]
            row.append(dr[i][c] - m / len(nb))
        out.append(row)
    return out


def ref_relaxation(xs, sigma, a, fast, qconst, times, sel=None, nls=None, log=False):
    """Rows (t, isf, Qt, X4_Qt, msd, alpha2) for lag k = 1..T-1.

    xs     list of T frames (N x d) of unwrapped coordinates
    sigma  per-particle diameter
    sel    None | list of T boolean masks (linear: the mask of the origin frame is used) | for log the mask of frame 0
    nls    None | list of T neighbour lists (list per particle of ids); the list of the ORIGIN frame is used
    log    single origin (frame 0), X4 identically 0
    Returns rows, min_margin (distance of any squared displacement to its squared cutoff), nsel.
    """
    T = len(xs)
    N = len(sigma)
    d = len(xs[0][0])
    cd = alpha2_prefactor(d)
    rows = []
    margin = float("inf")
    nsel_all = set()
    for k in range(1, T):
        origins = [0] if log else list(range(0, T - k))
        s_isf = 0.0
        s_q = 0.0
        s_q2 = 0.0
        s_r2 = 0.0
        s_r4 = 0.0
        for t0 in origins:
            dr = displacement(xs, t0, t0 + k, None if nls is None else nls[t0])
            if sel is None:
                members = list(range(N))
            else:
                members = [i for i in range(N) if bool(sel[t0][i])]
            nsel_all.add(len(members))
            c_sum = 0.0
            q_cnt = 0
            r2 = 0.0
            r4 = 0.0
            for i in members:
                qi = qconst / sigma[i]
                d2 = 0.0
                for c in range(d):
                    c_sum += math.cos(qi * dr[i][c])
                    d2 += dr[i][c] * dr[i][c]
                cut2 = (a * sigma[i]) ** 2
                margin = min(margin, abs(d2 - cut2))
                if (d2 > cut2) if fast else (d2 < cut2):
                    q_cnt += 1
                r2 += d2
                r4 += d2 * d2
            nm = len(members)
            Q = q_cnt / nm
            s_isf += c_sum / (nm * d)
            s_q += Q
            s_q2 += Q * Q
            s_r2 += r2 / nm
            s_r4 += r4 / nm
        no = len(origins)
        isf = s_isf / no
        q = s_q / no
        q2 = s_q2 / no
        r2 = s_r2 / no
        r4 = s_r4 / no
        x4 = 0.0 if log else nm * (q2 - q * q)
        alpha2 = (cd * r4 / (r2 * r2) - 1.0) if r2 != 0.0 else float("nan")
        rows.append([times[k], isf, q, x4, r2, alpha2])
    return np.array(rows, float).reshape(-1, 6), margin, nsel_all


def max_displacement(xs):
    """Largest |component| of any displacement between any two frames (for the L/2 domain clause)."""
    m = 0.0
    T = len(xs)
    for t0 in range(T):
        for t1 in range(t0 + 1, T):
            m = max(m, float(np.abs(np.asarray(xs[t1], float) - np.asarray(xs[t0], float)).max()))
    return m


# ------------------------------------------------------------------------------------- S4(q)
def qset(L, qrange, d):
    """Documented default wave-vector set: integer vectors in [-n/2, n/2)^d (n = int(2 qrange / min(2pi/L))),
    non-zero, with integer modulus."""
    L = np.asarray(L, float)
    n = int(qrange * 2.0 / (2 * math.pi / L).min())
    nh = int(n / 2)
    out = []
    rng = range(-nh, nh)
    import itertools

    for v in itertools.product(rng, repeat=d):
        s = sum(x * x for x in v)
        if s == 0:
            continue
        if math.isqrt(s) ** 2 != s:
            continue
        out.append(v)
    return out


def ref_sq4(xs, pos_sq, L, sigma, a, fast, k, qvecs, sel=None, nls=None):
    """Mean over origins t0 = 0..T-1-k of S(q) of the mobile (slow / fast over lag k) subset at frame t0.

    xs      unwrapped trajectory (mobility)
    pos_sq  coordinates used in the Fourier sum (any periodic image gives the same value)
    Returns None if a mobile subset is empty (outside the domain), else
    (list of (key, |q|, mean S) per distinct |q| (exact rational grouping), min cutoff margin, subset sizes)
    """
    T = len(xs)
    N = len(sigma)
    d = len(L)
    margin = float("inf")
    per_q = [0.0] * len(qvecs)
    sizes = []
    origins = list(range(0, T - k))
    for t0 in origins:
        dr = displacement(xs, t0, t0 + k, None if nls is None else nls[t0])
        mob = []
        for i in range(N):
            d2 = sum(x * x for x in dr[i])
            cut2 = (a * sigma[i]) ** 2
            margin = min(margin, abs(d2 - cut2))
            m = (d2 > cut2) if fast else (d2 < cut2)
            if sel is not None:
                m = m and bool(sel[t0][i])
            if m:
                mob.append(i)
        if not mob:
            return None
        sizes.append(len(mob))
        for iq, v in enumerate(qvecs):
            re = 0.0
            im = 0.0
            for i in mob:
                th = 0.0
                for c in range(d):
                    th += (2 * math.pi * v[c] / L[c]) * float(pos_sq[t0][i][c])
                re += math.cos(th)
                im -= math.sin(th)
            per_q[iq] += (re * re + im * im) / len(mob)
    per_q = [x / len(origins) for x in per_q]
    groups = {}
    for iq, v in enumerate(qvecs):
        key = sum(Fraction(int(v[c]) ** 2) / Fraction(L[c]).limit_denominator(1 << 30) ** 2 for c in range(d))
        groups.setdefault(key, []).append(iq)
    out = []
    for key in sorted(groups):
        idx = groups[key]
        out.append((key, 2 * math.pi * math.sqrt(float(key)), sum(per_q[i] for i in idx) / len(idx), len(idx)))
    return out, margin, sizes


# ------------------------------------------------------------------------------- time correlation
def _prod(x1, x0):
    """Re of (value at the later time) x conj(value at the earlier time), summed over one particle's
    components: scalar product for scalars/vectors, trace of the matrix product for tensors."""
    x1 = np.asarray(x1)
    x0 = np.asarray(x0)
    if x1.ndim == 0:
        return (complex(x1) * complex(x0).conjugate()).real
    if x1.ndim == 1:
        s = 0.0
        for c in range(len(x1)):
            s += (complex(x1[c]) * complex(x0[c]).conjugate()).real
        return s
    s = 0.0
    n = x1.shape[0]
    for a_ in range(n):
        for b_ in range(n):
            s += (complex(x1[a_, b_]) * complex(x0[b_, a_]).conjugate()).real
    return s


def ref_time_corr(x, steps, dt, y=None):
    """x: array (T, N[, d[, d]]).  Even spacing (exactly one distinct step difference): all origins;
    otherwise origin 0 only.  Returns (t, C/C(0), C0, linear?).
    y (default x) supplies the earlier-time factor; passing the transposed tensors turns the trace of the
    matrix product into the element-wise (Frobenius) product."""
    x = np.asarray(x)
    y = x if y is None else np.asarray(y)
    T = x.shape[0]
    N = x.shape[1]
    diffs = set(int(steps[i + 1]) - int(steps[i]) for i in range(T - 1))
    linear = len(diffs) == 1
    C = []
    for k in range(T):
        origins = list(range(T - k)) if linear else [0]
        acc = 0.0
        for t0 in origins:
            for i in range(N):
                acc += _prod(x[t0 + k, i], y[t0, i])
        C.append(acc / len(origins))
    t = [(int(s) - int(steps[0])) * dt for s in steps]
    c0 = C[0]
    with np.errstate(all="ignore"):
        Cn = np.array(C, float) / c0 if c0 != 0 else np.full(T, np.nan)
    return np.array(t, float), Cn, c0, linear
