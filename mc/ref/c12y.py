"""Round-4 alphabets of C12: decoy values for the InteractionParams fields of the OTHER models (L1), explicit zeros for numeric parameters (L8),
mixed scalar types as the Hessian code produces them (r a numpy float64, epsilon / sigma / r_c elements of an integer or float32 matrix) (L5).
No library call here; reference derivatives come from mc.ref.pairpot.triple."""
from __future__ import annotations

import numpy as np

NAN = float("nan")

# what the fields that do NOT belong to the requested model carry.  'default': the fields are not given at all (dataclass defaults 0);
# 'huge': a power with this exponent overflows / a prefactor of this size swamps everything - harmless only if the field is never touched
DECOY_SETS = {
    "default": {},
    "zero_float": {"ipl_n": 0.0, "ipl_A": 0.0, "harmonic_hertz_alpha": 0.0},
    "negative": {"ipl_n": -3.0, "ipl_A": -1.0, "harmonic_hertz_alpha": 0.5},
    "huge": {"ipl_n": 1e300, "ipl_A": 1e300, "harmonic_hertz_alpha": 1e300},
    "nan": {"ipl_n": NAN, "ipl_A": NAN, "harmonic_hertz_alpha": NAN},
}
OWN_FIELDS = {"lj": (), "ipl": ("ipl_n", "ipl_A"), "hertz": ("harmonic_hertz_alpha",)}


def decoy_kw(model, name):
    return {k: v for k, v in DECOY_SETS[name].items() if k not in OWN_FIELDS[model]}


# matrix-element forms: (type of r, type of epsilon / sigma / r_c, tolerance)
MATRIX_FORMS = {"m_int64": (np.float64, np.int64, 1e-9), "m_int32": (np.float64, np.int32, 1e-9), "m_float32": (np.float64, np.float32, 2e-6),
                "m_pyint": (float, int, 1e-9), "r32_m_int64": (np.float32, np.int64, 2e-6)}

ZEROS = [0, 0.0]
