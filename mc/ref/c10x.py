"""Vectorised references for the *scale* and *call-sequence* slices of C10 (2D bond-orientational order).  Geometry, ragged
neighbour lists / weights, the file parser and the correlation references are shared with C09 (mc/ref/c09x.py); nothing here calls
the library."""
from __future__ import annotations

import numpy as np

from mc.ref.c09x import (box_edges, cells_for, flat_bonds, frames_for, minimg_rows, parse_nfile, ragged_lists, ragged_weights,  # noqa: F401
                         ref_spatial, ref_time_corr, tie_margin_allpairs, truncate)


def ref_psi(pos, H, ppp, nl, l, weights=None):
    """psi_l(i) = mean_j u_ij^l  or  sum_j A_ij u_ij^l / sum_j |A_ij|,  u = (x + iy)/r (de Moivre, no atan2)"""
    I, J, vec, cn = flat_bonds(pos, H, ppp, nl)
    n = len(nl)
    u = (vec[:, 0] + 1j * vec[:, 1]) / np.hypot(vec[:, 0], vec[:, 1])
    ul = np.ones(len(u), dtype=np.complex128)
    for _ in range(l):
        ul = ul * u
    if weights is None:
        wf = np.ones(len(u))
        den = cn.astype(float)
    else:
        wf = np.array([w for row in weights for w in row], float)
        den = np.bincount(I, weights=np.abs(wf), minlength=n)
    out = np.zeros(n, dtype=np.complex128)
    np.add.at(out, I, wf * ul)
    return out / den


def ref_window_means(series, w):
    """means over frames n .. n+w-1 for every start n = 0 .. F-w (cumulative sums are avoided: plain slices)"""
    x = np.asarray(series)
    return np.array([x[n:n + w].mean(axis=0) for n in range(x.shape[0] - w + 1)])


def ref_time_average(series, w, average_complex):
    """rows n = 0 .. F-w: mean over frames n .. n+w-1 of the complex value, or mean modulus times exp(i mean principal phase);
    second result: mask of the entries whose window stays 1e-6 away from the branch cut and from zero (always true for the complex mode)"""
    x = np.asarray(series)
    if average_complex:
        return ref_window_means(x, w), np.ones((x.shape[0] - w + 1, x.shape[1]), bool)
    ph = np.arctan2(x.imag, x.real)
    mod = np.abs(x)
    out = ref_window_means(mod, w) * np.exp(1j * ref_window_means(ph, w))
    ok = np.array([(mod[n:n + w].min(axis=0) > 1e-6) & ((np.pi - np.abs(ph[n:n + w])).min(axis=0) > 1e-6) for n in range(x.shape[0] - w + 1)])
    return out, ok
