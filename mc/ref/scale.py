"""Reference helpers for the *scale* slices: the small-scope alphabets cannot see regime changes that depend on SIZE (blocked /
chunked loops, narrow integer accumulators, padded tables), so every property also runs a short, fixed list of larger inputs whose
sizes straddle the usual thresholds (64, 127/128, 255/256, 65 535).  References here are vectorised numpy, still independent of the
library (no library routine is called)."""
from __future__ import annotations

import numpy as np

from mc import alphabets as A
from mc.ref.base import shell_volumes


def dense_points(seed, n, d, L, tag):
    """n deterministic generic points in the orthogonal box L (hash table; a new table per `tag`)"""
    return np.array(A.generic_points(seed, n, d, tag=tag)) * np.asarray(L, float)


def pair_dist(pos, H, ppp):
    """all i<j minimum-image vectors/distances (half-cell convention on fractional coordinates), vectorised"""
    pos = np.asarray(pos, float)
    n = len(pos)
    iu, ju = np.triu_indices(n, 1)
    dr = pos[ju] - pos[iu]
    H = np.asarray(H, float)
    s = np.linalg.solve(H.T, dr.T).T
    s = s - np.floor(s + 0.5) * np.asarray(ppp)
    v = s @ H
    return iu, ju, v, np.sqrt((v * v).sum(axis=1))


def weighted_hist(pos, H, ppp, w, weights_ij=None, tol=1e-9):
    """(counts, weighted sums, ambiguous?) of i<j pairs per bin k = floor(r/w), nb = int(Lmin/2/w)"""
    H = np.asarray(H, float)
    nb = int(np.diag(H).min() / 2.0 / w)
    iu, ju, v, r = pair_dist(pos, H, ppp)
    x = r / w
    k = np.floor(x).astype(int)
    amb = bool(np.any((np.abs(x - np.round(x)) < tol) & (np.round(x) <= nb)))
    ok = k < nb
    cnt = np.bincount(k[ok], minlength=nb).astype(float)
    ws = None
    if weights_ij is not None:
        ws = np.bincount(k[ok], weights=np.asarray(weights_ij(iu, ju), float)[ok], minlength=nb)
    return cnt, ws, amb, nb


def gr_norm(cnt, N_a, N_b, V, w, d, same):
    """g_ab from the number of unordered a-b pairs per bin: V/(N_a N_b) x ordered pairs / shell"""
    shell, e = shell_volumes(len(cnt), w, d)
    fac = 2.0 if same else 1.0
    return fac * V * cnt / (N_a * N_b) / shell, e[1:] - w / 2.0
