"""Alphabets of the strengthened C12 slices (argument types, arrays of distances, edge exponents, mixed call sequences).
No library call here; the reference derivatives come from mc.ref.pairpot.triple (hyper-dual differentiation)."""
from __future__ import annotations

import itertools

from mc.ref.c02x import forked  # noqa: F401

# ---------------------------------------------------------------- integer-valued arguments (also used as floats)
INT_R = [2, 3, 7]
INT_SIGMA = [1, 2, 3]
INT_RC = [4, 8]
INT_EPS = [1, 2]
INT_N = [4, 6, 12]
INT_A = [1, 3]
INT_ALPHA = [2, 3]
NUM_FORMS = ["pyint", "np.int64", "np.int32", "np.float64", "np.float32"]


def int_tuples(model):
    """(r, sigma, r_c, eps, extra); Hertz: r_c = sigma (documented), both sides of sigma and r = sigma itself (integer alpha)"""
    if model == "lj":
        for r, s, c, e in itertools.product(INT_R, INT_SIGMA, INT_RC, INT_EPS):
            yield r, s, c, e, {}
    elif model == "ipl":
        for r, s, c, e, n, A in itertools.product(INT_R, INT_SIGMA, INT_RC, INT_EPS, INT_N, INT_A):
            yield r, s, c, e, {"n": n, "A": A}
    else:
        for r, s, e, al in itertools.product(INT_R, [3, 8], INT_EPS, INT_ALPHA):
            yield r, s, s, e, {"alpha": al}  # includes r = sigma = r_c = 3 (contact exactly at the cutoff)


# ---------------------------------------------------------------- arrays of distances
GOLD = 0.6180339887498949


def x_pattern(n, lo, hi):
    """n reduced distances r/sigma in [lo, hi] (Weyl sequence; first = lo, last = hi): one fixed pattern per size"""
    x = [lo + (hi - lo) * ((i * GOLD) % 1.0) for i in range(n)]
    x[0] = lo
    if n > 1:
        x[-1] = hi
    return x


SHAPES_Q = [[1], [64], [65], [257], [5, 13]]
SHAPES_T = SHAPES_Q + [[2], [63], [127], [128], [129], [255], [256], [1025], [4097], [64, 2]]

# ---------------------------------------------------------------- edge exponents (zero / negative powers inside the closed forms)
EDGE_N = [-2, -1, -1.0, 0, 0.0, 0.5, 1, 1.0, 2]
EDGE_ALPHA = [1, 1.0, 1.25, 1.5, 2, 2.0]

# ---------------------------------------------------------------- mixed-model call sequences
# every letter uses the SAME (r, eps, sigma, r_c, shift) unless it says otherwise, so that a result memoised under a key
# without the model / the exponent / the prefactor is returned for the wrong model
MIX_BASE = {"x": 1.1, "eps": 1.0, "sigma": 1.0, "y": 2.5, "shift": True}
MIX_LETTERS = [
    {"model": "lj"},
    {"model": "ipl", "n": 10, "A": 1.0},
    {"model": "ipl", "n": 12, "A": 1.0},
    {"model": "ipl", "n": 10, "A": 2.5},
    {"model": "hertz", "alpha": 3},
    {"model": "hertz", "alpha": 2},
    {"model": "lj", "eps": 1.5},
    {"model": "ipl", "n": 10, "A": 1.0, "x": 1.3},
    {"model": "hertz", "alpha": 3, "shift": False},
    {"model": "lj", "y": 1.0},                          # same (r, eps, sigma, r_c, shift) as the Hertz letters
    {"model": "ipl", "n": 10, "A": 1.0, "y": 1.0},
]
# letters that can be evaluated on ONE PairInteractions object (r = 1.1 sigma, r_c = sigma): only model / exponent / prefactor vary
SAME_OBJECT = [9, 10, 4, 5, "ipl12", "iplA"]


_EXTRA = {"ipl12": {"model": "ipl", "n": 12, "A": 1.0, "y": 1.0}, "iplA": {"model": "ipl", "n": 10, "A": 2.5, "y": 1.0}}


def mix_point(k):
    lt = _EXTRA[k] if isinstance(k, str) else MIX_LETTERS[k]
    p = dict(MIX_BASE)
    p.update({f: v for f, v in lt.items() if f in MIX_BASE})
    p["model"] = lt["model"]
    p["n"], p["A"], p["alpha"] = lt.get("n"), lt.get("A"), lt.get("alpha")
    if p["model"] == "hertz":
        p["y"] = 1.0  # documented: r_c = sigma
    return p
