"""Round-4 helpers of C07 (symmetry): multi-cell shift generators (particles several boxes away), asymmetric species-pair parameter
tables and per-bond weights (parameters that no symmetric choice exercises), JSON transport for the call-sequence search.

The generator machinery extends mc/ref/symm.py (which stays untouched): names starting with M / G are handled here, everything else is
delegated.  Nothing here calls an analysis routine of the library."""
from __future__ import annotations

import numpy as np

from mc.ref import symm as S


# ------------------------------------------------------------------------------ generators
# M<p><+|-><k><n>   particle slot p in {0,m,l} shifted by +/- n whole cell vectors k in EVERY frame (n = 2, 3, 4: the particle ends up
#                   several boxes away - unwrapped `xu yu zu` columns are passed through unfolded by the dump reader)
# G<p><+|-><k><n>   the same in the last frame only (an image jump by several boxes inside a wrapped trajectory)
BIG_DIL = {"Dm33": 2.0 ** -33, "Dp27": 2.0 ** 27}  # exact dilations to an absolute scale of ~1e-10 / ~1e8 (SI metres / huge units)


def kind_of(name):
    return "shift" if name[0] in "MG" else S.kind_of(name)


def applicable(cfg, name):
    if name[0] in "MG":
        return bool(cfg["ppp"][int(name[3])])
    return S.applicable(cfg, name)


def apply_gen(cfg, el, name, seed):
    if name[0] not in "MG" and name not in BIG_DIL:
        return S.apply_gen(cfg, el, name, seed)
    c = S.copy_cfg(cfg)
    e = {"perm": list(el["perm"]), "smap": dict(el["smap"]), "scale": el["scale"], "parity": el["parity"], "axes": list(el["axes"])}
    if name in BIG_DIL:
        f = BIG_DIL[name]
        c["frames"] = [x * f for x in c["frames"]]
        c["H"] = c["H"] * f
        c["lo"] = c["lo"] * f
        e["scale"] *= f
        return c, e
    i = S.slot(len(c["types"]), name[1])
    sgn = 1.0 if name[2] == "+" else -1.0
    vec = sgn * int(name[4]) * c["H"][int(name[3])]
    fr = range(len(c["frames"])) if name[0] == "M" else [len(c["frames"]) - 1]
    for f in fr:
        c["frames"][f][i] = c["frames"][f][i] + vec
    return c, e


def apply_word(cfg, word, seed):
    el = S.identity(cfg)
    for g in word:
        assert applicable(cfg, g), (word, g)
        cfg, el = apply_gen(cfg, el, g, seed)
    return cfg, el


def bfs(cfg, gens, depth, seed):
    """as mc.ref.symm.bfs, with the extended generator set"""
    root = S.state_key(cfg, S.identity(cfg))
    seen = {root: [(), 0]}
    order = []
    frontier = [((), cfg, S.identity(cfg))]
    ntrans = 0
    for _ in range(depth):
        nxt = []
        for word, c, e in frontier:
            for g in gens:
                if not applicable(c, g):
                    continue
                c2, e2 = apply_gen(c, e, g, seed)
                ntrans += 1
                key = S.state_key(c2, e2)
                if key in seen:
                    seen[key][1] += 1
                    continue
                w2 = word + (g,)
                seen[key] = [w2, 1]
                order.append(key)
                nxt.append((w2, c2, e2))
        frontier = nxt
    return [(list(seen[k][0]), seen[k][1]) for k in order], ntrans


def multi_generators(cfg, tier, shift=True, frameshift=False):
    """multi-cell shifts: a different particle, axis, sign and multiple each (+2 a of the first, -3 of the last cell vector for the last
    particle, thorough: +4 of the middle / first axis for the middle particle); one several-box jump in the last frame only"""
    d = cfg["d"]
    if not any(cfg["ppp"]):
        return []
    g = []
    if shift:
        g += ["M0+02", f"Ml-{d - 1}3"]
        if tier == "thorough":
            g.append(f"Mm+{1 if d == 3 else 0}4")
    if frameshift and len(cfg["frames"]) > 1:
        g.append(f"G0-{d - 1}3")
    return g


def generators(cfg, tier, **kw):
    base = S.generators(cfg, tier, **kw)
    extra = multi_generators(cfg, tier, shift=kw.get("shift", True), frameshift=kw.get("frameshift", False))
    # keep the kinds together (the order only decides which of two equal states keeps its word)
    if kw.get("dil"):
        base = base + list(BIG_DIL)
    out = []
    done = False
    for x in base:
        if not done and S.kind_of(x) not in ("trans", "shift"):
            out += extra
            done = True
        out.append(x)
    if not done:
        out += extra
    return out


# ------------------------------------------------------------ asymmetric species-pair parameters
ANTI = np.array([[0.0, 1.0, -1.0], [-1.0, 0.0, 1.0], [1.0, -1.0, 0.0]])


def asym_sigmas(sym):
    """Gaussian widths of S2 per ORDERED species pair: sigma[a, b] != sigma[b, a] (the width used for centre a and partner b)"""
    return np.asarray(sym, float) + 0.04 * ANTI[: len(sym), : len(sym)]


def asym_rcut(cfg, sym, margin=1e-4):
    """Cutoff matrix with r_cut[a, b] != r_cut[b, a] (the documented layout [[A-A, A-B], [B-A, B-B]]): the first candidate amplitude for
    which every pair distance of every frame of the base keeps a margin from the cutoff of its ordered species pair and for which at least
    one unlike pair lies between its two cutoffs (so that the asymmetry decides a membership).  Returns (matrix, number of deciding pairs)."""
    K = int(max(cfg["types"]))
    ty = np.asarray(cfg["types"]) - 1
    best = None
    for amp in (0.2, 0.15, 0.25, 0.1, 0.3, 0.12, 0.18, 0.22, 0.08, 0.35):
        M = np.asarray(sym, float)[:K, :K] + amp * ANTI[:K, :K]
        ok = True
        deciding = 0
        for f in range(len(cfg["frames"])):
            st = S.pair_stats(cfg, f, cuts=[M[np.ix_(ty, ty)]])
            if st["cutgap"][0].min() < margin:
                ok = False
                break
            sets = st["cutsets"][0]
            deciding += sum(1 for i in range(len(ty)) for j in sets[i] if j != i and i not in sets[j])
        if ok and deciding > 0:
            return M, deciding
        if ok and best is None:
            best = (M, 0)
    if best is None:
        raise RuntimeError("no admissible asymmetric cutoff matrix")
    return best


def bond_weights(nl):
    """unequal, asymmetric positive weights per (base particle, neighbour slot) for a base neighbour list (one frame)"""
    return [[0.3 + ((5 * b + 3 * k + b * k) % 7) / 4.0 for k in range(len(nb))] for b, nb in enumerate(nl)]


def map_weights(w, perm):
    """weights of the base (per base particle, in the order of its neighbour list) -> rows of the image"""
    return [list(w[perm[j]]) for j in range(len(perm))]


# --------------------------------------------------------------------------------- JSON transport
def to_json(v):
    if isinstance(v, dict):
        return {str(k): to_json(x) for k, x in v.items()}
    if isinstance(v, (list, tuple)):
        return [to_json(x) for x in v]
    if isinstance(v, np.ndarray):
        if np.iscomplexobj(v):
            return {"re": v.real.tolist(), "im": v.imag.tolist()}
        return v.tolist()
    if isinstance(v, (np.floating, np.integer, np.bool_)):
        return v.item()
    return v


def same_json(a, b):
    """bit-for-bit equality of two transported results (NaN == NaN)"""
    if isinstance(a, dict) and isinstance(b, dict):
        return a.keys() == b.keys() and all(same_json(a[k], b[k]) for k in a)
    if isinstance(a, list) and isinstance(b, list):
        if len(a) != len(b):
            return False
        try:
            x, y = np.asarray(a, float), np.asarray(b, float)
            return x.shape == y.shape and bool(np.array_equal(x, y, equal_nan=True))
        except (ValueError, TypeError):
            return all(same_json(p, q) for p, q in zip(a, b))
    if isinstance(a, float) and isinstance(b, float):
        return a == b or (a != a and b != b)
    return a == b


def first_difference(a, b, path=""):
    if isinstance(a, dict) and isinstance(b, dict):
        for k in a:
            if k not in b:
                return path + "/" + k + " missing"
            d = first_difference(a[k], b[k], path + "/" + k)
            if d:
                return d
        return None
    return None if same_json(a, b) else (path or "/")


SEQ_MODS = ("PyMatterSim.utils.funcs", "PyMatterSim.utils.pbc", "PyMatterSim.utils.wavevector", "PyMatterSim.utils.spherical_harmonics",
            "PyMatterSim.neighbors.read_neighbors", "PyMatterSim.neighbors.calculate_neighbors", "PyMatterSim.utils.coarse_graining",
            "PyMatterSim.utils.geometry", "PyMatterSim.dynamic.time_corr", "PyMatterSim.static.gr", "PyMatterSim.static.sq",
            "PyMatterSim.static.boo", "PyMatterSim.static.geometric", "PyMatterSim.static.pairentropy", "PyMatterSim.static.vector",
            "PyMatterSim.static.hessians", "PyMatterSim.dynamic.dynamics")
