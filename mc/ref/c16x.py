"""Deterministic large inputs and a vectorised Gaussian-blurring reference for the C16 *scale* slice (strengthening wave 3).

spatial_average and time_average are still compared with the loop transcriptions of mc/ref/cgorder.py (fast enough at these sizes); the
blurring reference is vectorised over (grid point, particle) pairs.  Nothing here calls the routines under test; inputs come from
integer formulas / the hash table mc.alphabets.jitter (no random sampling): one fixed value pattern per size.
"""
from __future__ import annotations

import itertools
import math

import numpy as np

from mc.ref.base import minimg


def lists(N, t, kind, wide=30):
    """harness-written neighbour lists (distinct other ids) with unequal coordination numbers, different for every frame t:
    first / last  only particle 0 / N-1 attains the maximum (4), the others 1..3
    formula       cn = (3 i + t) mod 5  (0..4: isolated particles occur)
    wide          particle 0 lists `wide` neighbours (30 = the default Nmax of spatial_average), the others 0..3
    one           particle 0 has exactly one neighbour, all others 3"""
    cmax = min(4, N - 1)
    out = []
    for i in range(N):
        low = 1 + (i + t) % max(1, cmax - 1)
        if kind == "first":
            cn = cmax if i == 0 else low
        elif kind == "last":
            cn = cmax if i == N - 1 else low
        elif kind == "formula":
            cn = (3 * i + t) % (cmax + 1)
        elif kind == "wide":
            cn = min(wide, N - 1) if i == 0 else (i + t) % 4
        elif kind == "one":
            cn = 1 if i == 0 else min(3, N - 1)
        else:
            raise ValueError(kind)
        cn = min(cn, N - 1)
        start = 1 + (5 * t + 2 * i) % (N - cn) if N - cn > 0 else 1
        out.append([(i + start + j) % N for j in range(cn)])
    return out


def values(shape, cplx, salt=0):
    """dyadic generic-looking numbers from an integer formula; the value of particle 0 is never 0 (padding mistakes show)"""
    idx = np.indices(shape)
    acc = np.zeros(shape, dtype=np.int64) + 17 + salt
    for a, ix in enumerate(idx):
        acc = acc * 31 + (ix + 1) * (7 + 4 * a) + (ix * ix) % (5 + a)
    # integer mixing (multiplicative hash modulo 2^31) so that the values are irregular along every axis
    acc = (acc * 1103515245 + 12345) % (1 << 31)
    acc = ((acc >> 11) * 40503 + (acc & 2047) * 977) % (1 << 31)
    x = ((acc % 509) - 254) / 32.0 + 0.015625
    if not cplx:
        return x
    y = (((acc // 509) % 251) - 125) / 64.0
    return x + 1j * y


def grid(bounds, ngrids):
    """Cartesian product of the per-axis equally spaced points spanning [lo, hi] (n = 1: the lower bound), x slowest -> (G, d)"""
    axes = []
    for (lo, hi), n in zip(bounds, ngrids):
        axes.append([float(lo)] if n == 1 else [float(lo) + k * (float(hi) - float(lo)) / (n - 1) for k in range(n)])
    return np.array(list(itertools.product(*axes)), float)


def blur(points, positions, H, ppp, cond, sigma, cut):
    """sum over particles with minimum-image distance r < cut of exp(-r^2/2s^2)/sqrt(2 pi s^2) cond_j at every point.
    -> values (G, ...), min | r - cut |, number of contributing (point, particle) pairs, the raw differences (for tie screening)"""
    points = np.asarray(points, float)
    positions = np.asarray(positions, float)
    G, N = len(points), len(positions)
    diff = (points[:, None, :] - positions[None, :, :]).reshape(G * N, -1)
    rv = minimg(diff, H, ppp)
    r = np.sqrt((rv * rv).sum(axis=1)).reshape(G, N)
    w = np.where(r < cut, np.exp(-r * r / (2.0 * sigma * sigma)) / math.sqrt(2.0 * math.pi * sigma * sigma), 0.0)
    cond = np.asarray(cond, float)
    vals = np.tensordot(w, cond, axes=(1, 0))
    return vals, float(np.abs(r - cut).min()), int((r < cut).sum()), diff
