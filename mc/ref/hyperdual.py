"""Hyper-dual numbers: second-order forward-mode automatic differentiation (reference oracle for C11, C12).

A hyper-dual number is  x = a + b e1 + c e2 + d e1 e2  with  e1^2 = e2^2 = 0,  e1 e2 != 0.  For an analytic f,

    f(x) = f(a) + f'(a) b e1 + f'(a) c e2 + ( f'(a) d + f''(a) b c ) e1 e2          (exact, no truncation error)

so seeding  x = HD(r, 1, 1, 0)  gives  f(x).b = f'(r)  and  f(x).d = f''(r);  seeding two different coordinates
(x_p = HD(v_p, 1, 0, 0), x_q = HD(v_q, 0, 1, 0), the others HD(v, 0, 0, 0)) gives  .d = d2 f / dx_p dx_q  (and for
p == q the seed HD(v_p, 1, 1, 0) gives the pure second derivative).

Supported: + - * / (all mixed with python/numpy real scalars), unary -, +, ** with a real exponent (any real p;
integral p of either int or float type are handled without log so negative bases work), ** with a hyper-dual exponent
(positive real part of the base required), real ** hyper-dual, sqrt, exp, log, abs; comparisons act on the real part.

Deliberately plain python floats (no numpy arrays inside): the checks need exactness of the *rule*, not speed.
Nothing here imports the library under test.
"""
from __future__ import annotations

import math
from numbers import Real

__all__ = ["HD", "var", "const", "sqrt", "exp", "log", "derivs", "grad_hess"]


class HD:
    """hyper-dual number (a, b, c, d) = value, e1-part, e2-part, e1e2-part"""
    __slots__ = ("a", "b", "c", "d")

    def __init__(self, a, b=0.0, c=0.0, d=0.0):
        self.a = float(a)
        self.b = float(b)
        self.c = float(c)
        self.d = float(d)

    # ------------------------------------------------------------------ helpers
    @staticmethod
    def _w(o):
        if isinstance(o, HD):
            return o
        if isinstance(o, Real) or hasattr(o, "__float__"):
            return HD(float(o))
        raise TypeError("HD: unsupported operand %r" % type(o))

    def chain(self, f, f1, f2):
        """compose with a scalar function whose value / first / second derivative at self.a are f, f1, f2"""
        return HD(f, f1 * self.b, f1 * self.c, f1 * self.d + f2 * self.b * self.c)

    def __repr__(self):
        return "HD(%r, %r, %r, %r)" % (self.a, self.b, self.c, self.d)

    def __float__(self):
        return self.a

    # ------------------------------------------------------------------ ring operations
    def __pos__(self):
        return self

    def __neg__(self):
        return HD(-self.a, -self.b, -self.c, -self.d)

    def __add__(self, o):
        o = HD._w(o)
        return HD(self.a + o.a, self.b + o.b, self.c + o.c, self.d + o.d)

    __radd__ = __add__

    def __sub__(self, o):
        o = HD._w(o)
        return HD(self.a - o.a, self.b - o.b, self.c - o.c, self.d - o.d)

    def __rsub__(self, o):
        o = HD._w(o)
        return HD(o.a - self.a, o.b - self.b, o.c - self.c, o.d - self.d)

    def __mul__(self, o):
        o = HD._w(o)
        return HD(self.a * o.a,
                  self.a * o.b + self.b * o.a,
                  self.a * o.c + self.c * o.a,
                  self.a * o.d + self.b * o.c + self.c * o.b + self.d * o.a)

    __rmul__ = __mul__

    def reciprocal(self):
        a = self.a
        return self.chain(1.0 / a, -1.0 / (a * a), 2.0 / (a * a * a))

    def __truediv__(self, o):
        if isinstance(o, HD):
            return self * o.reciprocal()
        o = float(o)
        return HD(self.a / o, self.b / o, self.c / o, self.d / o)

    def __rtruediv__(self, o):
        return HD._w(o) * self.reciprocal()

    # ------------------------------------------------------------------ powers
    def __pow__(self, p):
        if isinstance(p, HD):
            if p.b == 0.0 and p.c == 0.0 and p.d == 0.0:
                return self ** p.a
            # x**y = exp(y log x), base must have a positive real part
            return exp(p * log(self))
        p = float(p)
        a = self.a
        if p == 0.0:
            return HD(1.0)
        if p == 1.0:
            return self
        if p == 2.0:
            return self * self
        # a**(p-1), a**(p-2) written as powers (not divisions of a**p) so that a == 0 with p >= 2 stays finite
        f = a ** p
        f1 = p * a ** (p - 1.0)
        f2 = p * (p - 1.0) * a ** (p - 2.0) if p != 1.0 else 0.0
        return self.chain(f, f1, f2)

    def __rpow__(self, base):
        # real ** HD
        base = float(base)
        return exp(self * math.log(base))

    def sqrt(self):
        s = math.sqrt(self.a)
        return self.chain(s, 0.5 / s, -0.25 / (s * self.a))

    def exp(self):
        e = math.exp(self.a)
        return self.chain(e, e, e)

    def log(self):
        a = self.a
        return self.chain(math.log(a), 1.0 / a, -1.0 / (a * a))

    def __abs__(self):
        return self if self.a >= 0 else -self

    # ------------------------------------------------------------------ comparisons on the real part
    def __lt__(self, o):
        return self.a < float(o)

    def __le__(self, o):
        return self.a <= float(o)

    def __gt__(self, o):
        return self.a > float(o)

    def __ge__(self, o):
        return self.a >= float(o)

    def __eq__(self, o):
        if isinstance(o, HD):
            return (self.a, self.b, self.c, self.d) == (o.a, o.b, o.c, o.d)
        return False

    def __hash__(self):
        return hash((self.a, self.b, self.c, self.d))


# ---------------------------------------------------------------------- module-level functions (accept floats too)
def sqrt(x):
    return x.sqrt() if isinstance(x, HD) else math.sqrt(x)


def exp(x):
    return x.exp() if isinstance(x, HD) else math.exp(x)


def log(x):
    return x.log() if isinstance(x, HD) else math.log(x)


def var(x):
    """the seed for d/dx and d2/dx2 of a function of one variable"""
    return HD(x, 1.0, 1.0, 0.0)


def const(x):
    return HD(x)


def derivs(f, x):
    """(f(x), f'(x), f''(x)) of a one-variable function written with the operations above"""
    y = HD._w(f(var(x)))
    return y.a, y.b, y.d


def grad_hess(f, v):
    """value, gradient (list) and Hessian (nested list) of f(list of HD) at the point v (sequence of floats);
    n(n+1)/2 evaluations of f"""
    n = len(v)
    g = [0.0] * n
    H = [[0.0] * n for _ in range(n)]
    val = None
    for p in range(n):
        for q in range(p, n):
            x = [HD(v[k], 1.0 if k == p else 0.0, 1.0 if k == q else 0.0, 0.0) for k in range(n)]
            y = HD._w(f(x))
            val = y.a
            H[p][q] = H[q][p] = y.d
            if q == p:
                g[p] = y.b
    return val, g, H
