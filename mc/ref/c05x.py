"""Reference helpers for the C05 *scale* slice (neighbour lists of 64 .. 1000 particles through the file).

Vectorised numpy, independent of the library: the distance table follows the C02 half-cell convention (fractional
coordinates by `solve`, floor(s + 1/2) per periodic axis), neighbour ranks come from one stable argsort per row.  At
this size some rank / cutoff decision is always close to its boundary somewhere, so margins are evaluated PER
PARTICLE (row): a row whose decisions all have a margin >= 1e-9 is compared exactly, the others only for grammar.
"""
from __future__ import annotations

import numpy as np

from mc import alphabets as A

MARGIN = 1e-9


# ------------------------------------------------------------------------------------------- inputs
def scale_box(d):
    """orthogonal edge lengths whose shortest edge is y (not x)"""
    return [10.0, 8.0, 9.0][:d]


def scale_cell(d, cell):
    L = scale_box(d)
    if cell == "orthp":
        return A.hmat_tri(L, [0.0] if d == 2 else [0.0, 0.0, 0.0])
    if cell == "tri+":
        return A.hmat_tri(L, [1.5] if d == 2 else [1.5, 1.0, -2.0])
    if cell == "tri-":
        return A.hmat_tri(L, [-2.0] if d == 2 else [-1.5, -1.0, 1.0])
    raise ValueError(cell)


def scale_points(seed, n, d, tag, ncluster=0, edge=0.4):
    """n deterministic generic points (hash table `tag`) in the box scale_box(d); the first `ncluster` of them are
    compressed into a cube of edge `edge` that straddles the box corner (so cluster pairs cross the periodic faces)."""
    L = np.array(scale_box(d))
    u = np.array(A.generic_points(seed, n, d, tag=tag))
    pos = u * L
    if ncluster:
        c = np.array([A.jitter(seed, f"{tag}_c", a, 0.05) for a in range(d)])
        pos[:ncluster] = c + (u[:ncluster] - 0.5) * edge
    return pos


def species(n, pattern, ncluster):
    """K = 3 species patterns: 'mix' 60/20/20 %, 'single3' = species 3 has exactly one member (inside the cluster)."""
    if pattern == "mix":
        return [1 if i % 5 < 3 else (2 if i % 5 == 3 else 3) for i in range(n)]
    t = [1 + (i % 2) for i in range(n)]
    t[max(ncluster // 2, 1)] = 3
    return t


def type_matrix(rc):
    """asymmetric 3 x 3 matrix of cutoffs around rc (row = centre species, column = neighbour species)"""
    return [[rc, 0.6 * rc, 1.3 * rc], [0.8 * rc, 1.1 * rc, 0.5 * rc], [1.2 * rc, 0.7 * rc, 0.9 * rc]]


# ------------------------------------------------------------------------------------------- distances and ranks
def dist_table(pos, H, ppp):
    """(D, tie): n x n minimum-image distances (half-cell convention) and, per row, the smallest distance of a periodic
    fractional displacement component to a half-integer (rint tie)."""
    pos = np.asarray(pos, float)
    H = np.asarray(H, float)
    n, d = pos.shape
    dr = (pos[None, :, :] - pos[:, None, :]).reshape(n * n, d)   # row i: r_j - r_i
    s = np.linalg.solve(H.T, dr.T).T
    per = np.asarray(ppp).astype(bool)
    if per.any():
        x = s[:, per] - 0.5
        tie = np.abs(x - np.round(x)).reshape(n, n, -1)
        tie[np.arange(n), np.arange(n), :] = 1.0
        tie = tie.min(axis=(1, 2))
    else:
        tie = np.ones(n)
    s = s - np.floor(s + 0.5) * np.asarray(ppp, float)
    v = s @ H
    D = np.sqrt((v * v).sum(axis=1)).reshape(n, n)
    return D, tie


def ranks(D):
    """order[i] = the other particles by increasing distance from i (self removed), sd[i] = their distances"""
    n = len(D)
    Dx = D.copy()
    Dx[np.arange(n), np.arange(n)] = -1.0
    order = np.argsort(Dx, axis=1, kind="stable")
    if not np.array_equal(order[:, 0], np.arange(n)):
        raise AssertionError("self is not first")
    order = order[:, 1:]
    sd = np.take_along_axis(D, order, axis=1)
    return order, sd


def nn_reference(D, N, tie=None):
    """(lists n x N, clean[n]) - clean: gaps between the first N+1 ranked distances and the self distance >= MARGIN"""
    n = len(D)
    order, sd = ranks(D)
    gaps = np.diff(sd, axis=1)
    k = min(N, n - 2)
    clean = sd[:, 0] >= MARGIN
    if k > 0:
        clean &= gaps[:, :k].min(axis=1) >= MARGIN
    if tie is not None:
        clean &= tie >= MARGIN
    return order[:, :N], clean


def cut_reference(D, thr, tie=None):
    """(lists (ragged), clean[n]) for thresholds thr (scalar or n x n, row = centre): members D <= thr, nearest first;
    clean: every |D - thr| >= MARGIN and the gaps among the members' distances >= MARGIN"""
    n = len(D)
    thr = np.broadcast_to(np.asarray(thr, float), (n, n))
    order, sd = ranks(D)
    thr_o = np.take_along_axis(thr, order, axis=1)
    member = sd <= thr_o
    clean = (np.abs(sd - thr_o).min(axis=1) >= MARGIN) & (sd[:, 0] >= MARGIN)
    lists = []
    for i in range(n):
        m = member[i]
        lists.append(order[i, m].tolist())
        dm = sd[i, m]
        if len(dm) > 1 and np.diff(dm).min() < MARGIN:
            clean[i] = False
    if tie is not None:
        clean &= tie >= MARGIN
    return lists, clean


def type_thresholds(types, Rm):
    t = np.asarray(types) - 1
    return np.asarray(Rm, float)[t[:, None], t[None, :]]


# ------------------------------------------------------------------------------------------- reading back
def padded(lists, n):
    """(cn[n], V[n, max cn]) from per-particle value lists"""
    cn = np.array([len(l) for l in lists], dtype=int)
    V = np.zeros((n, int(cn.max()) if n else 0))
    for i, l in enumerate(lists):
        V[i, : len(l)] = l
    return cn, V


def ref_read(cn, V, Nmax, is_nl):
    """What read_neighbors must return: column 0 = cn capped at Nmax, then the first min(cn, Nmax) listed values (ids - 1
    for neighbour lists, verbatim otherwise), zero padded to the largest capped cn."""
    cap = np.minimum(cn, Nmax)
    w = int(cap.max()) if len(cap) else 0
    out = np.zeros((len(cn), 1 + w))
    out[:, 0] = cap
    keep = np.arange(w)[None, :] < cap[:, None]
    out[:, 1:] = np.where(keep, V[:, :w] - (1.0 if is_nl else 0.0), 0.0)
    return out
