"""Reference models for C05 (neighbour lists through the file) and C20 (Voronoi wrapper output).

Deliberately naive: full distance tables by the C02 contract (base.minimg), full sorts, a line tokenizer that shares
nothing with the library's reader, and a periodic Voronoi tessellation built with scipy.spatial on the 3^d replicated
images (independent of freud / voro++).
"""
from __future__ import annotations

import itertools
import math

import numpy as np

from mc.ref.base import frac_tie_margin, pair_table

INF = float("inf")


# =========================================================================== C05: who is a neighbour
def dist_table(pos, H, ppp):
    """n x n table of minimum-image distances (C02 contract)."""
    return pair_table(np.asarray(pos, float), np.asarray(H, float), list(ppp))[1]


def others_sorted(D, i):
    """All particles but i, by increasing distance from i (ties by id - only used when ties are screened)."""
    n = D.shape[0]
    return sorted((j for j in range(n) if j != i), key=lambda j: (D[i, j], j))


def rank_margin(D):
    """Smallest gap between two consecutive sorted distances in any row (self excluded)."""
    m = INF
    n = D.shape[0]
    for i in range(n):
        d = sorted(D[i, j] for j in range(n) if j != i)
        for a, b in zip(d, d[1:]):
            m = min(m, b - a)
    return m


def self_margin(D):
    """Smallest distance between two different particles (the implementation drops 'the first' as self)."""
    n = D.shape[0]
    return min((D[i, j] for i in range(n) for j in range(n) if i != j), default=INF)


def cut_margin(D, thr):
    """Smallest |r_ij - threshold_ij| over ordered pairs; thr scalar or n x n."""
    n = D.shape[0]
    thr = np.broadcast_to(np.asarray(thr, float), (n, n))
    return min((abs(D[i, j] - thr[i, j]) for i in range(n) for j in range(n) if i != j), default=INF)


def geometry_margin(pos, H, ppp):
    """Distance of any pair displacement to a half-cell tie (matters in triclinic cells only)."""
    pos = np.asarray(pos, float)
    m = INF
    for i in range(len(pos)):
        m = min(m, frac_tie_margin(np.delete(pos - pos[i], i, axis=0), H, ppp))
    return m


def ref_nnearest(D, N):
    return [others_sorted(D, i)[:N] for i in range(D.shape[0])]


def ref_cutoff(D, rc):
    return [[j for j in others_sorted(D, i) if D[i, j] <= rc] for i in range(D.shape[0])]


def type_thresholds(types, Rm):
    """thr[i, j] = R[type_i, type_j]  (row = the centre's type, column = the neighbour's type)."""
    n = len(types)
    Rm = np.asarray(Rm, float)
    thr = np.zeros((n, n))
    for i in range(n):
        for j in range(n):
            thr[i, j] = Rm[types[i] - 1][types[j] - 1]
    return thr


def ref_cutoff_type(D, types, Rm):
    thr = type_thresholds(types, Rm)
    return [[j for j in others_sorted(D, i) if D[i, j] <= thr[i, j]] for i in range(D.shape[0])]


def pair_distances(D):
    n = D.shape[0]
    return sorted({float(D[i, j]) for i in range(n) for j in range(i + 1, n)})


def midpoint_cutoffs(D):
    """One r_cut below every pair distance, one between each two consecutive distinct pair distances, one above all:
    every coordination pattern a global cutoff can produce on this configuration."""
    d = pair_distances(D)
    if not d:
        return [1.0]
    return [0.5 * d[0]] + [0.5 * (a + b) for a, b in zip(d, d[1:])] + [d[-1] + 0.5]


# =========================================================================== C05: the file, tokenised independently
def parse_listfile(text):
    """Split a neighbour-format text into frames.  A line whose first token is not an integer opens a frame.
    Returns (frames, problems); frame = dict(header=[tokens], start=char offset of the header line,
    rows=[(id, cn, [value tokens])])."""
    frames, problems = [], []
    off = 0
    for ln in text.splitlines(keepends=True):
        tok = ln.split()
        start = off
        off += len(ln)
        if not tok:
            problems.append(f"blank line at offset {start}")
            continue
        try:
            pid = int(tok[0])
        except ValueError:
            frames.append({"header": tok, "start": start, "rows": []})
            continue
        if not frames:
            problems.append("data row before any header")
            continue
        try:
            cn = int(tok[1])
        except (ValueError, IndexError):
            problems.append(f"row without integer cn at offset {start}")
            continue
        frames[-1]["rows"].append((pid, cn, tok[2:]))
    if text and not text.endswith("\n"):
        problems.append("file does not end with a newline")
    return frames, problems


def frame_lists(frame, n, as_float=False):
    """Per particle id (0-based) the listed values of one parsed frame, plus grammar problems."""
    problems = []
    lists = [None] * n
    for pid, cn, vals in frame["rows"]:
        if not 1 <= pid <= n:
            problems.append(f"id {pid} outside 1..{n}")
            continue
        if lists[pid - 1] is not None:
            problems.append(f"id {pid} listed twice")
        if cn != len(vals):
            problems.append(f"id {pid}: cn {cn} but {len(vals)} values listed")
        try:
            lists[pid - 1] = [float(v) for v in vals] if as_float else [int(v) for v in vals]
        except ValueError:
            problems.append(f"id {pid}: non-numeric value")
            lists[pid - 1] = []
    for i in range(n):
        if lists[i] is None:
            problems.append(f"id {i + 1} missing")
            lists[i] = []
    if len(frame["rows"]) != n:
        problems.append(f"{len(frame['rows'])} rows for {n} particles")
    return lists, problems


def ref_read(lists, n, Nmax, is_nl):
    """What read_neighbors must return for one frame: column 0 = coordination number capped at Nmax, then the first
    min(cn, Nmax) listed values (ids shifted to zero-based for neighbour lists, verbatim for weights), zero padded to
    the largest (capped) coordination number."""
    cap = [min(len(l), Nmax) for l in lists]
    width = max(cap) if cap else 0
    out = np.zeros((n, 1 + width))
    for i in range(n):
        out[i, 0] = cap[i]
        for k in range(cap[i]):
            out[i, 1 + k] = lists[i][k] - 1 if is_nl else lists[i][k]
    return out


def nmax_alphabet(frames_lists):
    """{1, m-1, m, m+1 for every frame's largest cn m, 200}, positive values only."""
    s = {1, 200}
    for lists in frames_lists:
        m = max((len(l) for l in lists), default=0)
        s.update({m - 1, m, m + 1})
    return sorted(x for x in s if x >= 1)


# =========================================================================== C20: periodic Voronoi by scipy
def _polygon(V, normal):
    """(area, shortest edge) of a planar convex polygon given by unordered vertices V (k x 3) in the plane with the given normal."""
    c = V.mean(axis=0)
    nrm = normal / np.linalg.norm(normal)
    a = np.array([1.0, 0.0, 0.0]) if abs(nrm[0]) < 0.9 else np.array([0.0, 1.0, 0.0])
    e1 = np.cross(nrm, a)
    e1 /= np.linalg.norm(e1)
    e2 = np.cross(nrm, e1)
    x = (V - c) @ e1
    y = (V - c) @ e2
    order = np.argsort(np.arctan2(y, x))
    x, y = x[order], y[order]
    area = 0.5 * abs(float(np.sum(x * np.roll(y, -1) - y * np.roll(x, -1))))
    edge = float(np.min(np.hypot(x - np.roll(x, -1), y - np.roll(y, -1))))
    return area, edge


def periodic_voronoi(pos, L):
    """Tessellation of the periodic orthogonal box with edge lengths L (any origin: only differences matter).
    Returns nb[i] = list of (j, size) over all faces of cell i (j = owner of the image across the face, self images
    allowed; size = edge length in 2D, face area in 3D), vols[i] (area / volume), ok (False if a cell is unbounded),
    min_edge (3D: shortest Voronoi edge on any face of a central cell = distance to a degenerate vertex; 2D: inf)."""
    from scipy.spatial import ConvexHull, Voronoi

    pos = np.asarray(pos, float)
    N, d = pos.shape
    L = np.asarray(L, float)
    imgs = list(itertools.product([-1, 0, 1], repeat=d))
    pts = np.vstack([pos + np.array(im) * L for im in imgs])
    owner = np.tile(np.arange(N), len(imgs))
    c0 = imgs.index(tuple([0] * d)) * N
    vor = Voronoi(pts)
    nb = [[] for _ in range(N)]
    ok = True
    min_edge = INF
    for (p, q), verts in zip(vor.ridge_points, vor.ridge_vertices):
        for a, b in ((p, q), (q, p)):
            if c0 <= a < c0 + N:
                if -1 in verts:
                    ok = False
                    continue
                V = vor.vertices[verts]
                if d == 2:
                    w = float(np.linalg.norm(V[0] - V[1]))
                else:
                    w, e = _polygon(V, pts[b] - pts[a])
                    min_edge = min(min_edge, e)
                nb[a - c0].append((int(owner[b]), w))
    vols = []
    for i in range(N):
        reg = vor.regions[vor.point_region[c0 + i]]
        if -1 in reg or not reg:
            ok = False
            vols.append(float("nan"))
        else:
            vols.append(float(ConvexHull(vor.vertices[reg]).volume))
    return nb, vols, ok, min_edge


def periodic_volumes(pos, L):
    """Cell areas / volumes only (same construction as periodic_voronoi, without the faces)."""
    from scipy.spatial import ConvexHull, Voronoi

    pos = np.asarray(pos, float)
    N, d = pos.shape
    L = np.asarray(L, float)
    imgs = list(itertools.product([-1, 0, 1], repeat=d))
    pts = np.vstack([pos + np.array(im) * L for im in imgs])
    c0 = imgs.index(tuple([0] * d)) * N
    vor = Voronoi(pts)
    return np.array([ConvexHull(vor.vertices[vor.regions[vor.point_region[c0 + i]]]).volume for i in range(N)])


def voronoi_min_face(nb):
    return min((w for l in nb for (_, w) in l), default=INF)


def ref_volume_matrix(pos, L, d, deltar):
    """Raw volume-response matrix read off the docstring/anchors: A[i, d*j + a] = (dV_i / d r_{j,a}) / V_i by central
    differences of step deltar for j != i; the self block from translation invariance (each row sums to zero over
    every displaced coordinate)."""
    pos = np.asarray(pos, float)
    N = len(pos)
    V0 = periodic_volumes(pos, L)
    A = np.zeros((N, N * d))
    for j in range(N):
        for a in range(d):
            p = pos.copy()
            p[j, a] += deltar
            Vp = periodic_volumes(p, L)
            p[j, a] -= 2 * deltar
            Vm = periodic_volumes(p, L)
            col = (Vp - Vm) / (2 * deltar)
            for i in range(N):
                if i != j:
                    A[i, d * j + a] = col[i]
    for i in range(N):
        for a in range(d):
            A[i, d * i + a] = -sum(A[i, d * j + a] for j in range(N) if j != i)
    return A / V0[:, None]
