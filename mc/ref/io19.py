"""Helpers of the C19 check (writer -> reader loop, auxiliary readers, HOOMD frame conversion, LAMMPS log).

Everything here is an independent *encoder* or *tokenizer* (it never calls the code under test):
  * dump text with trailing columns, built on the C01 encoder (mc.lammps_text.frame_text);
  * a small LAMMPS-data-file header tokenizer following the read_data rules;
  * duck-typed HOOMD/GSD frames, trajectories and a DCD reader, plus stub `gsd`/`mdtraj` module objects that are
    registered in sys.modules of the *harness process only* (the libraries are not installed; nothing is written
    to the repository);
  * a LAMMPS log text builder (classic 'Step ...' / 'Loop time of ...' thermo sections with noise between them).
"""
from __future__ import annotations

import os
import sys
import types

import numpy as np

from mc.alphabets import jitter
from mc.lammps_text import fmt, frame_text


# ------------------------------------------------------------------------------------- scratch files
def put(path, text):
    """Write a scratch file (in the worker cwd).  No O_TRUNC: re-writing an existing file through open(path, 'w') costs ~4 ms on
    the ext4 scratch volume (truncate-then-rewrite flush); writing over it and cutting it to length does not."""
    b = text.encode("utf-8")
    fd = os.open(path, os.O_WRONLY | os.O_CREAT, 0o644)
    try:
        os.write(fd, b)
        os.ftruncate(fd, len(b))
    finally:
        os.close(fd)


# ------------------------------------------------------------------------------------- dump text
def split_frame(text):
    """(9 header lines, atom lines) of ONE frame produced by frame_text."""
    lines = text.split("\n")
    assert lines[-1] == ""
    return lines[:9], lines[9:-1]


def with_columns(text, names, values, syntax="decimal"):
    """Append trailing columns to one frame text: names -> ATOMS line, values[id0] (list) -> the atom's line."""
    head, atoms = split_frame(text)
    head[8] = head[8] + "".join(" " + n for n in names)
    out = []
    for ln in atoms:
        i = int(ln.split()[0]) - 1
        out.append(ln + "".join(" " + (v if isinstance(v, str) else fmt(v, syntax)) for v in values[i]))
    return "\n".join(head + out) + "\n"


def atom_lines(fr, d, style, order, values=None, syntax="decimal"):
    """Only the atom lines (id type coords [extra columns]) of a frame, in the given line order."""
    text = frame_text(fr, d, style, syntax, "pp pp pp", "none", order)
    if values is not None:
        text = with_columns(text, [], values, syntax)
    return "\n".join(split_frame(text)[1]) + "\n"


def extra_value(seed, f, i, c):
    """Distinct dyadic numbers per (frame, atom id, column); the seed picks the table."""
    base = (1 + f) * 64 + (i + 1) * 8 + c + 1
    sgn = -1.0 if (i + c + f) % 3 == 0 else 1.0
    return sgn * (base / 8.0 + round(jitter(seed, f"x{f}_{i}", c, 0.4) * 1024) / 8192.0)


# ------------------------------------------------------------------------------- LAMMPS data header
def parse_data_header(text):
    """Tokenizer for the header part of a LAMMPS data file (read_data rules): the first line is a title, blank lines
    and '#' comments are skipped, a header line is `<values> <keyword(s)>`, the first line that is not a header line
    is a section keyword; the section keyword is followed by exactly one blank line.
    Returns dict(counts, bounds, section, section_comment, blank_after_section, rest, unknown)."""
    lines = text.split("\n")
    trailing_newline = lines[-1] == ""
    if trailing_newline:
        lines = lines[:-1]
    res = {"title": lines[0] if lines else None, "counts": {}, "bounds": {}, "section": None, "unknown": [], "blank_after_section": None,
           "rest": None, "ends_with_newline": trailing_newline}
    kw2 = {("atom", "types"): "atom types", ("bond", "types"): "bond types"}
    kw1 = {"atoms": "atoms", "bonds": "bonds"}
    k = 1
    while k < len(lines):
        raw = lines[k]
        body = raw.split("#", 1)[0].split()
        if not body:
            k += 1
            continue
        if len(body) == 4 and (body[2], body[3]) in (("xlo", "xhi"), ("ylo", "yhi"), ("zlo", "zhi")):
            res["bounds"][body[2][0]] = (float(body[0]), float(body[1]), body[0], body[1])
        elif len(body) == 3 and (body[1], body[2]) in kw2:
            res["counts"][kw2[(body[1], body[2])]] = int(body[0])
        elif len(body) == 2 and body[1] in kw1:
            res["counts"][kw1[body[1]]] = int(body[0])
        elif body[0][0].isalpha():
            res["section"] = " ".join(body)
            res["section_comment"] = raw.split("#", 1)[1].strip() if "#" in raw else None
            res["blank_after_section"] = k + 1 < len(lines) and lines[k + 1].strip() == ""
            res["rest"] = lines[k + 2:]
            break
        else:
            res["unknown"].append(raw)
        k += 1
    return res


# ------------------------------------------------------------------------------------ HOOMD ducks
class _NS:
    """attribute bag (gsd.hoomd.ConfigurationData / ParticleData stand-in)"""

    def __init__(self, **kw):
        self.__dict__.update(kw)


class DuckFrame:
    """Stand-in for gsd.hoomd.Frame: .configuration.{step,dimensions,box}, .particles.{N,typeid,position,types}."""

    def __init__(self, step, dimensions, box, typeid, position):
        self.configuration = _NS(step=step, dimensions=dimensions, box=np.array(box, dtype=np.float32))
        self.particles = _NS(N=len(typeid), typeid=np.array(typeid, dtype=np.uint32), position=np.array(position, dtype=np.float32).reshape(len(typeid), 3),
                             types=["A", "B", "C"])


class DuckTrajectory:
    """Stand-in for gsd.hoomd.HOOMDTrajectory: len(), integer indexing, iteration, close().  Nothing else."""

    def __init__(self, frames, name=None):
        self._frames = list(frames)
        self.name = name
        self.closed = False

    def __len__(self):
        return len(self._frames)

    def __getitem__(self, k):
        if not isinstance(k, (int, np.integer)):
            raise TypeError("DuckTrajectory supports integer indices only")
        return self._frames[k]

    def __iter__(self):
        return iter(list(self._frames))

    def close(self):
        self.closed = True


class DuckDCD:
    """Stand-in for mdtraj.formats.DCDTrajectoryFile: read() -> (xyz[F,N,3] float32, cell_lengths, cell_angles), close()."""

    def __init__(self, xyz, lengths=None, name=None):
        self._xyz = np.array(xyz, dtype=np.float32)
        self._lengths = lengths
        self.name = name
        self.closed = False
        self.reads = 0

    def read(self, n_frames=None, stride=None, atom_indices=None):
        self.reads += 1
        F = self._xyz.shape[0]
        L = np.array(self._lengths if self._lengths is not None else np.ones((F, 3)), dtype=np.float32).reshape(F, 3)
        return self._xyz.copy(), L, np.full((F, 3), 90.0, dtype=np.float32)

    def close(self):
        self.closed = True


class StubRegistry:
    """File name -> duck object tables consulted by the stub modules."""

    def __init__(self):
        self.gsd = {}
        self.dcd = {}
        self.opened = []


REGISTRY = StubRegistry()


def install_stubs():
    """Register stub `gsd`, `gsd.hoomd`, `mdtraj`, `mdtraj.formats` modules in THIS process (they are not installed).
    The wrappers of the library do `import gsd, gsd.hoomd` / `from mdtraj.formats import DCDTrajectoryFile` at call time."""
    if getattr(sys.modules.get("gsd"), "__c19_stub__", False):
        return REGISTRY
    for name in ("gsd", "mdtraj"):
        if name in sys.modules and not getattr(sys.modules[name], "__c19_stub__", False):
            raise RuntimeError(f"a real {name} is importable; the C19 stubs must not shadow it")
    gsd = types.ModuleType("gsd")
    hoomd = types.ModuleType("gsd.hoomd")
    gsd.__c19_stub__ = True
    hoomd.__c19_stub__ = True

    def _open(name, mode="r"):
        REGISTRY.opened.append(("gsd", name, mode))
        if name not in REGISTRY.gsd:
            raise FileNotFoundError(name)
        return REGISTRY.gsd[name]

    hoomd.open = _open
    gsd.hoomd = hoomd
    md = types.ModuleType("mdtraj")
    fm = types.ModuleType("mdtraj.formats")
    md.__c19_stub__ = True
    fm.__c19_stub__ = True

    def _dcd(name, mode="r", force_overwrite=True):
        REGISTRY.opened.append(("dcd", name, mode))
        if name not in REGISTRY.dcd:
            raise FileNotFoundError(name)
        return REGISTRY.dcd[name]

    fm.DCDTrajectoryFile = _dcd
    md.formats = fm
    sys.modules["gsd"] = gsd
    sys.modules["gsd.hoomd"] = hoomd
    sys.modules["mdtraj"] = md
    sys.modules["mdtraj.formats"] = fm
    return REGISTRY


# ---------------------------------------------------------------------------------------- log text
THERMO_NAMES = [
    ["Step", "Temp", "E_pair", "Press"],
    ["Step", "c_msd[4]", "v_frac", "TotEng"],
    ["Step", "PotEng", "Volume", "Lx"],
]

NOISE = {
    "none": "",
    "blank": "\n",
    "blank2": "\n\n",
    "text": "run 1000\nPer MPI rank memory allocation (min/avg/max) = 3.101 | 3.101 | 3.101 Mbytes\n",
    "warn": "WARNING: Using 'neigh_modify every 1 delay 0 check yes' setting during minimization (src/min.cpp:187)\n",
    "stepword": "  Time step     : 0.005\nWARNING: Step size changed; Loop time of the next run will differ (src/x.cpp:1)\n",
    "numeric": "4000 atoms in group mobile\n\n100 settings made for type\n",
    "quoted": "print \"run done\"\nrun done\n",
    "post": None,  # filled below: the timing breakdown LAMMPS prints after every run
}

LOOP_TAIL = (
    "Loop time of {t} on 4 procs for {n} steps with 4000 atoms\n"
)
POST_LOOP = (
    "\nPerformance: 61763.062 tau/day, 142.970 timesteps/s\n99.6% CPU use with 4 MPI tasks x no OpenMP threads\n\n"
    "MPI task timing breakdown:\nSection |  min time  |  avg time  |  max time  |%varavg| %total\n"
    "---------------------------------------------------------------\n"
    "Pair    | 0.48  | 0.52 | 0.56 |   3.4 | 74.78\nNeigh   | 0.07 | 0.07 | 0.08 |   1.0 | 10.57\n\n"
    "Nlocal:    1000 ave 1009 max 987 min\nHistogram: 1 0 0 0 0 0 1 0 1 1\n"
    "Total # of neighbors = 151513\nAve neighs/atom = 37.8783\nNeighbor list builds = 5\nDangerous builds = 0\n"
)


NOISE["post"] = POST_LOOP


def thermo_value(seed, k, r, c, layout):
    """Value printed in section k, row r, column c (column 0 is the step).  Returns (text, float)."""
    if c == 0:
        v = 1000 * k + 100 * r
        return str(v), float(v)
    kind = (k + r + c + layout) % 5
    j = round(jitter(seed, f"th{k}_{r}", c, 0.45) * 2**20)
    if kind == 0:
        v = float(j) / 2**10
        s = repr(v)
    elif kind == 1:
        v = -abs(float(j)) / 2**16 - (k + 1)
        s = "%.8g" % v
    elif kind == 2:
        v = float((k + 1) * (r + 2) * (c + 3))
        s = str(int(v))  # an integer-looking thermo entry (E_mol 0, atoms count ...)
    elif kind == 3:
        v = float(j) * 1e-9
        s = "%.10e" % v
    else:
        v = 1.0e5 * (c + k) + r + float(j) / 2**21
        s = "%.7f" % v
    return s, float(s)


def section_text(seed, k, R, C, layout):
    """One complete thermo section number k (0-based position in the log) with R rows and C columns.
    layout 0: classic LAMMPS (names separated by one blank + trailing blank, right-aligned values + trailing blank);
    layout 1: single blanks, no trailing blanks.  Returns (text, names, rows as floats)."""
    names = THERMO_NAMES[k % len(THERMO_NAMES)][:C]
    rows, lines = [], []
    for r in range(R):
        cells = [thermo_value(seed, k, r, c, layout) for c in range(C)]
        rows.append([v for (_, v) in cells])
        if layout == 0:
            lines.append("".join("%8s " % cells[0][0] if c == 0 else "%14s " % cells[c][0] for c in range(C)))
        else:
            lines.append(" ".join(s for (s, _) in cells))
    head = " ".join(names) + (" " if layout == 0 else "")
    text = head + "\n" + "".join(ln + "\n" for ln in lines)
    text += LOOP_TAIL.format(t="0.%d" % (7 + k), n=100 * R)
    return text, names, rows


def incomplete_text(seed, k, rows, cut):
    """Header + `rows` rows of a section that never got its 'Loop time of' line.  cut=True: the file stops in the
    middle of the last row (no newline)."""
    text, names, vals = section_text(seed, k, rows, 3, 1)
    body = text.split("\n")[: 1 + rows]
    out = "\n".join(body) + "\n"
    if cut:
        out = out[:-4]
    return out
