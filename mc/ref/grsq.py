"""Reference models for g(r) (C03), S(q) (C04) and their conditional variants (C13).
Double loops over ordered pairs / direct Fourier sums; interval oracle for histogram bins."""
from __future__ import annotations

import itertools
import math

import numpy as np

from .base import minimg, shell_volumes

EDGE_TOL = 1e-9


def pair_bins(pos, H, ppp, w, nb):
    """For every unordered pair (i<j): (i, j, r, k, ambiguous_other_bin or None)."""
    pos = np.asarray(pos, float)
    out = []
    n = len(pos)
    for i in range(n - 1):
        v = minimg(pos[i + 1:] - pos[i], H, ppp)
        r = np.linalg.norm(v, axis=1)
        for jj, rr in enumerate(r):
            x = rr / w
            k = int(math.floor(x))
            amb = None
            if abs(x - round(x)) * w < EDGE_TOL:
                kk = int(round(x))  # edge index: bins kk-1 and kk
                k, amb = kk - 1, kk
            out.append((i, i + 1 + jj, rr, k, amb))
    return out


def ref_gr(frames, H, types, ppp, w, boxlength=None):
    """Returns (columns, r, lo, hi): per column lower/upper bound arrays of the normalised g."""
    # H: one cell or one per frame (same edge lengths, tilts may change); types: one list or one per frame (same composition)
    Hf = [np.asarray(h, float) for h in H] if np.ndim(H) == 3 else [np.asarray(H, float)] * len(frames)
    H = Hf[0]
    tf = [np.asarray(t) for t in types] if np.ndim(types[0]) > 0 else [np.asarray(types)] * len(frames)
    types = tf[0]
    d = H.shape[0]
    L = np.diag(H) if boxlength is None else np.asarray(boxlength, float)
    V = float(np.prod(L))
    nb = int(L.min() / 2.0 / w)
    N = len(types)
    tl = sorted(set(types.tolist()))
    K = len(tl)
    cols = ["gr"]
    if 1 < K <= 5:
        cols += [f"gr{a}{b}" for a in tl for b in tl if a <= b]
    lo = {c: np.zeros(nb) for c in cols}
    hi = {c: np.zeros(nb) for c in cols}
    for pos, Hc, tc in zip(frames, Hf, tf):
        for (i, j, rr, k, amb) in pair_bins(pos, Hc, ppp, w, nb):
            a, b = sorted((int(tc[i]), int(tc[j])))
            names = ["gr"] + ([f"gr{a}{b}"] if 1 < K <= 5 else [])
            for c in names:
                if amb is None:
                    if 0 <= k < nb:
                        lo[c][k] += 1
                        hi[c][k] += 1
                else:
                    for kk in (k, amb):
                        if 0 <= kk < nb:
                            hi[c][kk] += 1
    shell, e = shell_volumes(nb, w, d)
    F = len(frames)
    Na = {t: int((types == t).sum()) for t in tl}
    norm = {"gr": 2.0 * V / (N * N) / F / shell}
    for c in cols[1:]:
        a, b = int(c[2]), int(c[3])
        if a == b:
            norm[c] = 2.0 * V / (Na[a] * Na[a]) / F / shell  # unordered pairs x2 = ordered pairs
        else:
            norm[c] = V / (Na[a] * Na[b]) / F / shell  # unordered a-b pairs = ordered (a,b) pairs
    r = e[1:] - w / 2
    return cols, r, {c: lo[c] * norm[c] for c in cols}, {c: hi[c] * norm[c] for c in cols}, norm


def ref_cond_gr(pos, H, ppp, w, cond, kind, boxlength=None):
    """Weighted pair histogram: returns r, gr (lo,hi), gA (value, ambiguous mask), gA_norm or None."""
    H = np.asarray(H, float)
    d = H.shape[0]
    L = np.diag(H) if boxlength is None else np.asarray(boxlength, float)
    V = float(np.prod(L))
    nb = int(L.min() / 2.0 / w)
    N = len(pos)
    cond = np.asarray(cond)
    glo = np.zeros(nb)
    ghi = np.zeros(nb)
    gA = np.zeros(nb)
    amb_mask = np.zeros(nb, bool)
    for (i, j, rr, k, amb) in pair_bins(pos, H, ppp, w, nb):
        if kind == "bool":
            wgt = float(bool(cond[i]) and bool(cond[j]))
        elif kind in ("float", "complex"):
            wgt = float((cond[j] * np.conj(cond[i])).real)
        elif kind == "vector":
            wgt = float(np.sum(cond[j] * np.conj(cond[i])).real)
        elif kind == "tensor":
            wgt = float(np.trace(cond[i] @ cond[j]).real)
        else:
            raise ValueError(kind)
        if amb is None:
            if 0 <= k < nb:
                glo[k] += 1
                ghi[k] += 1
                gA[k] += wgt
        else:
            for kk in (k, amb):
                if 0 <= kk < nb:
                    ghi[kk] += 1
                    amb_mask[kk] = True
    shell, e = shell_volumes(nb, w, d)
    NA = int(np.sum(cond.astype(bool))) if kind == "bool" else N
    r = e[1:] - w / 2
    ng = 2.0 * V / (N * N) / shell
    nA = 2.0 * V / (NA * NA) / shell if NA else np.full(nb, np.nan)
    out = {"r": r, "gr_lo": glo * ng, "gr_hi": ghi * ng, "gA": gA * nA, "amb": amb_mask}
    if kind == "float":
        m1 = float(np.mean(cond)) ** 2
        m2 = float(np.mean(np.square(cond)))
        out["gA_norm"] = (out["gA"] - m1) / (m2 - m1) if m2 != m1 else None
    return out


# ------------------------------------------------------------------------------------------
def ref_sq(frames, L, types, qint):
    """Per-wave-vector reference S_ab(q): dict col -> array over qint rows (unrounded)."""
    L = np.asarray(L, float)
    types = np.asarray(types)
    q = np.asarray(qint, float) * (2 * math.pi / L)
    N = len(types)
    tl = sorted(set(types.tolist()))
    K = len(tl)
    per = []
    for pos in frames:
        pos = np.asarray(pos, float)
        rho = {}
        for t in tl:
            ph = q @ pos[types == t].T
            rho[t] = (np.cos(ph) - 1j * np.sin(ph)).sum(axis=1)
        per.append(rho)
    Na = {t: int((types == t).sum()) for t in tl}
    vals = {"Sq": np.mean([np.abs(sum(r.values())) ** 2 for r in per], axis=0) / N}
    if 1 < K <= 5:
        for a in tl:
            for b in tl:
                if a <= b:
                    vals[f"Sq{a}{b}"] = np.mean([(r[a] * np.conj(r[b])).real for r in per], axis=0) / math.sqrt(Na[a] * Na[b])
    return vals, np.linalg.norm(q, axis=1)


def group_q(qn, tol=1e-9):
    """Cluster |q| values: returns list of (mean |q|, index array); None if a cluster straddles a 6-decimal
    rounding boundary (such inputs are screened out)."""
    order = np.argsort(qn, kind="stable")
    groups = []
    cur = [order[0]]
    for i in order[1:]:
        if qn[i] - qn[cur[-1]] < tol:
            cur.append(i)
        else:
            groups.append(cur)
            cur = [i]
    groups.append(cur)
    out = []
    for g in groups:
        ks = set(np.round(qn[g], 6).tolist())
        if len(ks) != 1:
            return None
        # distance to the rounding boundary
        x = qn[g] * 1e6
        if np.min(np.abs(x - np.floor(x) - 0.5)) < 1e-3:
            return None
        out.append((ks.pop(), np.array(g)))
    keys = [k for k, _ in out]
    if len(set(keys)) != len(keys):
        return None
    return out


def default_qset(L, qrange, onlypositive, d):
    """Independent enumeration of the documented default wave-vector set (half-open range reading)."""
    L = np.asarray(L, float)
    n = int(qrange * 2.0 / (2 * math.pi / L).min())
    nh = int(n / 2)
    out = []
    for v in itertools.product(range(-nh, nh), repeat=d):
        if not any(v):
            continue
        s = sum(x * x for x in v)
        if math.isqrt(s) ** 2 != s:
            continue
        out.append(v)
    return out


def ref_cond_sq(pos, L, qint, cond, kind):
    L = np.asarray(L, float)
    q = np.asarray(qint, float) * (2 * math.pi / L)
    pos = np.asarray(pos, float)
    cond = np.asarray(cond)
    ph = q @ pos.T  # (nq, N)
    e = np.cos(ph) - 1j * np.sin(ph)
    N = len(pos)
    if kind == "bool":
        sel = cond.astype(bool)
        amp = e[:, sel].sum(axis=1)
        return np.abs(amp) ** 2 / sel.sum(), None
    if kind in ("float", "complex"):
        amp = (e * cond[None, :]).sum(axis=1)
        return np.abs(amp) ** 2 / N, amp
    if kind == "vector":
        amp = e @ cond  # (nq, dim)
        return (np.abs(amp) ** 2).sum(axis=1) / N, amp
    raise ValueError(kind)
