"""Round-4 helpers of C06 (relaxation functions): triclinic cells that change class from frame to frame, input given as periodic images
several boxes away, storage forms of the input arrays, the dyadic tie alphabet.

Nothing here calls the routines under test.  All numbers are dyadic (multiples of 2^-20) so that wrapping by whole cell vectors and every
displacement are exact in binary floating point."""
from __future__ import annotations

import dataclasses

import numpy as np

from mc import alphabets as A

TWO20 = float(1 << 20)


def qz(x):
    return round(x * TWO20) / TWO20


# ------------------------------------------------------------------------------------------ triclinic slice
TRI_L = [3.75, 2.0]
TRI_TILT = 1.875  # = Lx / 2, the largest tilt of a reduced cell
TRI_BASE = [[0.5, 1.0], [3.2, 0.15]]
# joint events of two particles over the letters [0, +b ex, -s ey, -b ex]: particle 0 can go back and forth along x (so that the displacement
# between two LATER frames is large while the one from frame 0 stays small), particle 1 crosses the y face
TRI_EVENTS = [[3, 0], [1, 2], [1, 0], [2, 1], [0, 3]]


def tri_letters(seed):
    s = qz(0.2 + A.jitter(seed, "c06s", 0, 0.01))
    b = qz(0.9 + A.jitter(seed, "c06b", 0, 0.02))
    return [[0.0, 0.0], [b, 0.0], [0.0, -s], [-b, 0.0]]


def tri_base(seed):
    return [[qz(TRI_BASE[i][c] + A.jitter(seed, f"c06ptri{i}", c, 0.03)) for c in range(2)] for i in range(2)]


def hmat2(L, xy):
    return np.array([[L[0], 0.0], [xy, L[1]]])


def cell_seq(name, T, L=TRI_L, tilt=TRI_TILT):
    """per-frame cells (rows = cell vectors) of a 2D trajectory; the edge lengths never change, only the CLASS of the cell does
    const  the same tilted cell in every frame
    to     frame 0 tilted, all later frames orthogonal
    ot     frame 0 orthogonal, all later frames tilted
    tt     tilt +t in even frames, -t in odd frames
    late   orthogonal except for the last frame"""
    out = []
    for t in range(T):
        if name == "const":
            xy = tilt
        elif name == "to":
            xy = tilt if t == 0 else 0.0
        elif name == "ot":
            xy = 0.0 if t == 0 else tilt
        elif name == "tt":
            xy = tilt if t % 2 == 0 else -tilt
        elif name == "late":
            xy = tilt if (t == T - 1 and T > 1) else 0.0
        else:
            raise ValueError(name)
        out.append(hmat2(L, xy))
    return out


def wrap_cell(x, H):
    """fold positions into the cell spanned by the rows of H (lower-triangular, dyadic entries): returns (wrapped, integer image vectors n)
    with wrapped = x - n H.  Done axis by axis from the last axis down so that only exact operations occur."""
    x = np.array(x, float)
    d = x.shape[1]
    n = np.zeros(x.shape, dtype=int)
    for c in range(d - 1, -1, -1):
        k = np.floor(x[:, c] / H[c, c]).astype(int)
        n[:, c] = k
        x = x - k[:, None] * H[c][None, :]
    return x, n


def x_domain(xs, Hs, margin=1e-6):
    """Is the wrapped trajectory (frame t folded into cell Hs[t]) inside the domain of the wrapped == unwrapped clause for a reduction with the
    cell of the ORIGIN frame?  For every pair t0 < t1 and every particle:
      (a) the images are consistent: n(t1) H(t1) - n(t0) H(t0) is a lattice vector of H(t0) (always true for a constant cell; with changing
          cells a particle may only have crossed faces whose cell vector did not change),
      (b) every fractional coordinate of the true displacement with respect to H(t0) is inside (-1/2, 1/2) with a margin,
      (c) no Cartesian component of the true displacement reaches half the box length (the literal clause)."""
    T = len(xs)
    ns = [wrap_cell(xs[t], Hs[t])[1] for t in range(T)]
    for t0 in range(T):
        Hinv = np.linalg.inv(Hs[t0])
        Lh = np.diag(Hs[t0]) / 2.0
        for t1 in range(t0 + 1, T):
            v = ns[t1] @ Hs[t1] - ns[t0] @ Hs[t0]
            f = v @ Hinv
            if np.abs(f - np.round(f)).max() > 1e-9:
                return False
            dr = np.asarray(xs[t1], float) - np.asarray(xs[t0], float)
            s = dr @ Hinv
            if np.abs(s).max() > 0.5 - margin:
                return False
            if (np.abs(dr) > Lh[None, :] * (1.0 - margin)).any():
                return False
    return True


# ------------------------------------------------------------------------------------------ images several boxes away
IMG_N = [0, 2, -3, 4]


def image_offsets(T, N, d, ppp):
    """integer box multiples n[t, i, c] from {0, +2, -3, +4}, different per frame, particle and axis, zero on non-periodic axes"""
    n = np.zeros((T, N, d), dtype=int)
    for t in range(T):
        for i in range(N):
            for c in range(d):
                if ppp[c]:
                    n[t, i, c] = IMG_N[(t + 2 * i + 3 * c + t * i) % 4]
    return n


# ------------------------------------------------------------------------------------------ dyadic ties
TIE_H = 0.5
TIE_DIAM = {1: 1.0, 2: 2.0}  # with a = 0.5: cutoffs 0.5 and 1.0, squared 0.25 and 1.0 - all exact


def tie_letters(d):
    """steps {0, +h ex, -h ey, +2h ex (, +h ez)} with h = 1/2: |step| equals the cutoff a*sigma of species 1 (h) / species 2 (2h) bit for bit"""
    z = [0.0] * d
    out = [list(z)]
    for c, v in ((0, TIE_H), (1, -TIE_H), (0, 2 * TIE_H)):
        e = list(z)
        e[c] = v
        out.append(e)
    if d == 3:
        e = list(z)
        e[2] = TIE_H
        out.append(e)
    return out


# ------------------------------------------------------------------------------------------ storage forms
FORMS = ["f32", "fortran", "strided", "types_i32", "int_diam", "ppp_bool", "ppp_i32", "cond_u8", "cond_int"]


def restore(snaps, form):
    """the same Snapshots with the position / type arrays stored differently (values unchanged: the coordinates are multiples of 2^-20 below
    16, exactly representable in float32)"""
    from PyMatterSim.reader.reader_utils import Snapshots

    out = []
    for s in snaps.snapshots:
        p = s.positions
        if form == "f32":
            q = p.astype(np.float32)
            assert np.array_equal(q.astype(np.float64), p)
            s = dataclasses.replace(s, positions=q)
        elif form == "fortran":
            s = dataclasses.replace(s, positions=np.asfortranarray(p))
        elif form == "strided":
            big = np.zeros((p.shape[0], 2 * p.shape[1]))
            big[:, ::2] = p
            big[:, 1::2] = -7.5
            s = dataclasses.replace(s, positions=big[:, ::2])
        elif form == "types_i32":
            s = dataclasses.replace(s, particle_type=s.particle_type.astype(np.int32))
        out.append(s)
    return Snapshots(snaps.nsnapshots, out)
