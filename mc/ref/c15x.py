"""Deterministic large inputs and the vectorised parts of the reference for the C15 *scale* slice (strengthening wave 3).

The real-space measures and the single-frame decomposition are still compared with the loop transcriptions in mc/ref/hessvec.py (they are
fast enough at N = 257); only the per-frame transforms of the long series and their time correlation are vectorised here (numpy
reductions over (frame, wave vector) tables, a transcription of docs/vectors.md + the C14 model).  Nothing here calls the routines
under test.  Inputs come from the hash table mc.alphabets.jitter or from integer formulas (no random sampling): one fixed value
pattern per size.
"""
from __future__ import annotations

import itertools
import math

import numpy as np

from mc import alphabets as A


def garray(seed, tag, shape, amp=1.0):
    """deterministic generic numbers in [-amp, amp] (multiples of 2^-20 amp-scaled) of the given shape"""
    out = np.zeros(shape)
    for idx in itertools.product(*[range(s) for s in shape]):
        out[idx] = A.jitter(seed, f"{tag}{idx[:-1]}", idx[-1], amp)
    return out


def ragged_lists(N, t, kind, wide=70):
    """harness-written neighbour lists with unequal coordination numbers (distinct other ids, >= 1 each):
    first / last: only particle 0 / N-1 attains the maximum (4), the others 1..3; formula: 1 + (3i+t) mod 4;
    wide: particle 0 lists `wide` neighbours, the others 1..3;  one: particle 0 has exactly ONE neighbour and all others 3."""
    cmax = min(4, N - 1)
    out = []
    for i in range(N):
        low = 1 + (i + t) % max(1, cmax - 1)
        if kind == "first":
            cn = cmax if i == 0 else low
        elif kind == "last":
            cn = cmax if i == N - 1 else low
        elif kind == "formula":
            cn = 1 + (3 * i + t) % cmax
        elif kind == "wide":
            cn = min(wide, N - 1) if i == 0 else low
        elif kind == "one":
            cn = 1 if i == 0 else min(3, N - 1)
        else:
            raise ValueError(kind)
        cn = min(cn, N - 1)
        start = 1 + (5 * t + 2 * i) % (N - cn) if N - cn > 0 else 1
        out.append([(i + start + j) % N for j in range(cn)])
    return out


# ------------------------------------------------------------------------------------------ Fourier space
def qlist(d, n):
    """the n non-zero integer vectors of smallest modulus (ties by lexicographic order) - deterministic, contains equal-|q| shells"""
    R = 1
    while (2 * R + 1) ** d - 1 < n:
        R += 1
    R += 1
    vs = [v for v in itertools.product(range(-R, R + 1), repeat=d) if any(v)]
    vs.sort(key=lambda v: (sum(x * x for x in v), v))
    return [list(v) for v in vs[:n]]


def decomposition(pos, L, qint, v):
    """dict q, qn, F, FL, FT, S, SL, ST with FFT_c(q) = N^-1/2 sum_i v_ic exp(-i q.r_i), q = 2 pi n / L"""
    pos = np.asarray(pos, float)
    v = np.asarray(v, float)
    q = 2.0 * math.pi * np.asarray(qint, float) / np.asarray(L, float)[None, :]
    ph = np.exp(-1j * (q @ pos.T))  # (nq, N)
    F = (ph @ v) / math.sqrt(len(pos))
    qn = np.sqrt((q * q).sum(axis=1))
    qh = q / qn[:, None]
    FL = qh * (qh * F).sum(axis=1)[:, None]
    FT = F - FL
    return {"q": q, "qn": qn, "F": F, "FL": FL, "FT": FT, "S": (np.abs(F) ** 2).sum(axis=1), "SL": (np.abs(FL) ** 2).sum(axis=1),
            "ST": (np.abs(FT) ** 2).sum(axis=1)}


def timecorr(x, even):
    """x (T, nq, d) complex -> unnormalised C (T, nq): even spacing: all origins; otherwise origin 0 only"""
    x = np.asarray(x)
    T = x.shape[0]
    C = np.zeros((T, x.shape[1]))
    if even:
        for k in range(T):
            C[k] = (x[k:] * np.conj(x[: T - k])).sum(axis=2).real.mean(axis=0)
    else:
        C = (x * np.conj(x[:1])).sum(axis=2).real
    return C


def group_means(keys, cols):
    """mean of every column over the rows with equal key -> (sorted keys, (ngroups, ncols))"""
    uniq, inv = np.unique(np.asarray(keys, float), return_inverse=True)
    cnt = np.bincount(inv).astype(float)
    return uniq, np.column_stack([np.bincount(inv, weights=np.asarray(c, float)) / cnt for c in cols])


def mode_matrix(rows, cols):
    """deterministic dense (rows x cols) matrix of dyadic numbers in [-1.7, 1.7] (integer formula, no two columns proportional)"""
    r = np.arange(rows)[:, None]
    c = np.arange(cols)[None, :]
    return (((r * 37 + c * 101 + r * c * 13 + (r * r) % 7) % 211) - 105) / 64.0
