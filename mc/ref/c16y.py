"""Helpers for strengthening round 4 of C16 (coarse graining): storage types / argument forms, exact zeros, call sequences.

Nothing here computes an expected value with the routines under test: `seq_eval` only TRANSPORTS library calls into a forked child
(mc/ref/c03x.py: fresh_child); the oracle of C16.sequence is 'the same call made first in a fresh child', and that single call is what
C16.spatial / C16.blur / C16.window compare with the definition.  All numbers come from integer formulas / mc.alphabets (no sampling).
"""
from __future__ import annotations

import os

import numpy as np

from mc import alphabets as A
from mc.ref.base import mk_snap, write_neighbor_file

SEQ_MODS = ("PyMatterSim.utils.funcs", "PyMatterSim.utils.pbc", "PyMatterSim.neighbors.read_neighbors", "PyMatterSim.utils.coarse_graining")

# ------------------------------------------------------------------------------------------------ storage types (L5)
NP_DTYPES = {"float64": np.float64, "float32": np.float32, "complex64": np.complex64, "complex128": np.complex128, "int64": np.int64,
             "int32": np.int32, "uint8": np.uint8, "uint16": np.uint16, "bool": np.bool_}
INTEGER_LIKE = ("int64", "int32", "uint8", "uint16", "bool")


def int_values(shape, dt, salt=0):
    """small integer-valued pattern, irregular along every axis; non-negative for uint8 / bool (0/1 indicator); quarter-integers for
    float32 (every sum of <= 8 of them is exact in single precision), Gaussian quarter-integers for complex64"""
    idx = np.indices(shape)
    acc = np.zeros(shape, dtype=np.int64) + 3 + salt
    for a, ix in enumerate(idx):
        acc = acc * 7 + (ix + 1) * (3 + 2 * a) + (ix * ix) % (4 + a)
    acc = (acc * 1103515245 + 12345) % (1 << 31)
    acc = (acc >> 9) % 1009
    if dt == "bool":
        return (acc % 2).astype(bool)
    if dt in ("uint8", "uint16"):      # e.g. a cluster label / a small count
        return (acc % 4).astype(NP_DTYPES[dt])
    if dt in ("int64", "int32"):
        return ((acc % 7) - 3).astype(NP_DTYPES[dt])
    if dt == "float32":
        return (((acc % 33) - 16) / 4.0).astype(np.float32)
    if dt == "complex64":
        return ((((acc % 33) - 16) / 4.0) + 1j * ((((acc // 33) % 17) - 8) / 4.0)).astype(np.complex64)
    if dt == "complex128":
        return (((acc % 33) - 16) / 4.0) + 1j * ((((acc // 33) % 17) - 8) / 4.0)
    return ((acc % 33) - 16) / 4.0


FORM_TOPOS4 = [
    [[], [], [], []],                    # nobody has a neighbour (the table read from the file has the cn column only)
    [[1, 2, 3], [0], [], [2, 0]],        # ragged 3/1/0/2
    [[3], [3], [3], [0, 1, 2]],          # the maximum at the last particle only
    [[1], [2], [3], [0]],                # everybody exactly one
]


# ------------------------------------------------------------------------------------------------ exact zeros (L4)
ZBOX = {"lo": [-1.5, 2.0, 0.5], "L": [7.5, 3.75, 15.0]}    # L / 3 and L / 5 are exact: grids of 2, 4, 6 points have dyadic nodes
ZGRIDS = {2: [[4, 4], [4, 6], [6, 4], [2, 4]], 3: [[4, 4, 4], [6, 4, 2]]}
ZCUTS = {"in": 2.7, "out": 40.0}                           # 2.7^2 is not dyadic: no node-node distance can equal the cutoff
ZPLACE = ["corner", "face_hi", "generic"]
ZCOND = ["zero_on_node", "zero_generic", "zero_component", "nonzero"]


def zero_blur_input(seed, d, ng, place, condkind, rank):
    """3 particles: P0 EXACTLY on grid node (1, 1[, 1]) (distance 0 to it), P1 on the lower corner / the upper x face / generic, P2
    generic; condition values with exact zeros (whole value of one particle, or one component)"""
    lo = np.array(ZBOX["lo"][:d])
    L = np.array(ZBOX["L"][:d])
    g = np.array(A.generic_points(seed, 3, d, tag=f"c16z{d}"))
    pos = lo + g * L
    pos[0] = lo + L / (np.array(ng) - 1)
    if place == "corner":
        pos[1] = lo
    elif place == "face_hi":
        pos[1, 0] = lo[0] + L[0]
    shape = (1, 3) + (d,) * rank
    cond = int_values(shape, "float64", salt=5) + 0.375          # never zero: multiples of 1/4 plus 3/8
    if condkind == "zero_on_node":
        cond[0, 0] = 0.0
    elif condkind == "zero_generic":
        cond[0, 2] = 0.0
    elif condkind == "zero_component" and rank:
        cond[0, :, 0] = 0.0
        cond[0, 0] = 0.0
    elif condkind == "zero_component":
        cond[0, 1] = 0.0
    return lo, L, pos, cond


ZVALS = [0.0, 1.0, -1.5]
ZVECS = [[0.0, 0.0], [1.0, 0.0], [0.0, -2.0]]


# ------------------------------------------------------------------------------------------------ C16.sequence (L6)
# Letters are complete argument tuples.  Named objects ('x', 'snaps', 'cond') are shared between the letters of a word when the word is
# run with share = True: the live array / Snapshots object is then EDITED IN PLACE to the content the letter needs (a cache keyed by
# id() or by shape sees a collision); with share = False every letter builds fresh objects.
SEQ_TOPOS = {
    "T0": [[[1, 2, 3], [0], [], [2, 0]], [[3], [3], [3], [0, 1, 2]]],
    "T1": [[[2, 3, 1], [2], [], [1, 0]], [[1], [0], [1], [2, 0, 1]]],     # same coordination numbers, other members / order
}
SEQ_BOX = {0: {"lo": [-1.5, 2.0, 0.5], "L": [4.0, 5.0, 6.0]}, 1: {"lo": [1.0, -2.5, 3.0], "L": [5.0, 4.0, 7.0]}}


def seq_letters():
    L = []
    # spatial_average: same file NAME throughout
    L.append({"id": "s0", "fn": "spatial", "x": "X0", "rank": 1, "topo": "T0", "Nmax": None})
    L.append({"id": "s1", "fn": "spatial", "x": "X0", "rank": 1, "topo": "T1", "Nmax": None})     # same name, same cn, other content
    L.append({"id": "s2", "fn": "spatial", "x": "X1", "rank": 1, "topo": "T0", "Nmax": None})     # same shape, other values
    L.append({"id": "s3", "fn": "spatial", "x": "X0", "rank": 0, "topo": "T0", "Nmax": None})     # scalar after vector
    L.append({"id": "s4", "fn": "spatial", "x": "X0", "rank": 1, "topo": "T0", "Nmax": 2})        # truncating maximum
    # gaussian_blurring
    L.append({"id": "b0", "fn": "blur", "d": 2, "box": 0, "ng": [3, 4], "sigma": 0.5, "ppp": [1, 1], "cut": 2.5, "cond": "C0"})
    L.append({"id": "b1", "fn": "blur", "d": 2, "box": 1, "ng": [3, 4], "sigma": 0.5, "ppp": [1, 1], "cut": 2.5, "cond": "C0"})   # other box
    L.append({"id": "b2", "fn": "blur", "d": 2, "box": 0, "ng": [3, 4], "sigma": 0.5, "ppp": [1, 0], "cut": 2.5, "cond": "C0"})   # other mask
    L.append({"id": "b3", "fn": "blur", "d": 3, "box": 0, "ng": [3, 4, 2], "defaults": True, "cond": "C0"})                       # 3D, defaults
    L.append({"id": "b4", "fn": "blur", "d": 2, "box": 0, "ng": [3, 4], "defaults": True, "cond": "C0"})                          # 2D, defaults
    L.append({"id": "b5", "fn": "blur", "d": 2, "box": 0, "ng": [4, 3], "sigma": 2.0, "ppp": [1, 1], "cut": 2.5, "cond": "C1"})   # same count
    # time_average
    L.append({"id": "w0", "fn": "window", "dstep": 100, "dt": 0.002, "period": 0.4, "x": "W0"})     # window 2
    L.append({"id": "w1", "fn": "window", "dstep": 100, "dt": 0.001, "period": 0.4, "x": "W0"})     # same snapshots, dt halves: window 4
    L.append({"id": "w2", "fn": "window", "dstep": 50, "dt": 0.002, "period": 0.4, "x": "W1"})      # same T, other spacing: window 4
    return L


SEQ_LETTERS = seq_letters()
SEQ_NP = 4
SEQ_T = 6


def _x_content(name, rank):
    if name.startswith("X"):
        return int_values((2, SEQ_NP) + (3,) * rank, "float64", salt=int(name[1]) * 11)
    return int_values((SEQ_T, 3), "complex128", salt=int(name[1]) * 7)


def _blur_content(seed, lt):
    d = lt["d"]
    lo = np.array(SEQ_BOX[lt["box"]]["lo"][:d])
    L = np.array(SEQ_BOX[lt["box"]]["L"][:d])
    pos = lo + np.array(A.generic_points(seed, 3, d, tag=f"c16q{d}{lt['box']}")) * L
    cond = int_values((1, 3), "float64", salt=int(lt["cond"][1]) * 13) + 0.5
    return lo, L, pos, cond


def _edit_snap(snaps, lo, L, pos):
    sn = snaps.snapshots[0]
    sn.positions[...] = pos
    sn.boxlength[...] = L
    sn.boxbounds[...] = np.column_stack((lo, lo + L))
    sn.hmatrix[...] = np.diag(L)


def seq_call(seed, lt, live, share):
    from PyMatterSim.reader.reader_utils import Snapshots
    from PyMatterSim.utils.coarse_graining import gaussian_blurring, spatial_average, time_average

    def obj(key, content):
        """the named live object brought to `content` (edited in place when shared and alive)"""
        if share and key in live and live[key].shape == content.shape:
            live[key][...] = content
        else:
            live[key] = np.array(content)
        return live[key]

    if lt["fn"] == "spatial":
        x = obj(("x", lt["rank"]), _x_content(lt["x"], lt["rank"]))
        write_neighbor_file("nl_c16q.dat", SEQ_TOPOS[lt["topo"]])
        kw = {} if lt["Nmax"] is None else {"Nmax": lt["Nmax"]}
        res = np.asarray(spatial_average(x, "nl_c16q.dat", **kw))
        os.remove("nl_c16q.dat")
        return [res.tolist()]
    if lt["fn"] == "blur":
        lo, L, pos, cond = _blur_content(seed, lt)
        d = lt["d"]
        key = ("snaps", d)
        if share and key in live:
            _edit_snap(live[key], lo, L, pos)
        else:
            live[key] = Snapshots(1, [mk_snap(pos, np.diag(L), [1] * 3, lo=lo, ts=0)])
        c = obj(("cond",), cond)
        if lt.get("defaults"):
            gp, gv = gaussian_blurring(live[key], c, np.array(lt["ng"]))
        else:
            gp, gv = gaussian_blurring(live[key], c, np.array(lt["ng"]), lt["sigma"], np.array(lt["ppp"]), lt["cut"])
        return [np.asarray(gp).tolist(), np.asarray(gv).tolist()]
    x = obj(("w",), _x_content(lt["x"], 0))
    key = ("wsnaps", lt["dstep"]) if not share else ("wsnaps",)
    pos = [[1.0 + 0.5 * i, 2.0] for i in range(3)]
    if share and key in live:
        # the same Snapshots object: its frames are replaced by frames with the other spacing (the list is edited in place)
        live[key].snapshots[:] = [mk_snap(pos, np.diag([4.0, 4.0]), [1] * 3, ts=1000 + lt["dstep"] * t) for t in range(SEQ_T)]
    else:
        live[key] = Snapshots(SEQ_T, [mk_snap(pos, np.diag([4.0, 4.0]), [1] * 3, ts=1000 + lt["dstep"] * t) for t in range(SEQ_T)])
    res, mid = time_average(live[key], x, lt["period"], lt["dt"])
    res = np.asarray(res)
    return [res.real.tolist(), res.imag.tolist(), np.asarray(mid).tolist()]


def seq_eval(case):
    live = {}
    return [seq_call(case["seed"], SEQ_LETTERS[k], live, case["share"]) for k in case["word"]]
