"""Helpers for strengthening round 4 of C20 (freud Voronoi wrapper): storage forms, strain / face inputs and the call-sequence search.

Nothing here computes an expected value with the routines under test: `seq_eval` only TRANSPORTS calls of the library into a forked
child (mc/ref/c03x.py: fresh_child) and returns what they wrote / returned; the oracle of C20.sequence is 'the same call made first in a
fresh child', and that single call is what C20.files / C20.volmatrix compare with the scipy tessellation.
"""
from __future__ import annotations

import gc
import os

import numpy as np

from mc import alphabets as A
from mc.ref.base import mk_snap

SEQ_MODS = ("PyMatterSim.neighbors.read_neighbors", "PyMatterSim.neighbors.freud_neighbors")

UNWRAP = [0, 2, -3, 4]      # (L7) whole box lengths by which particles are displaced in the `unwrap` slice

# ---------------------------------------------------------------------------------------------- storage forms (L5)
FORMS = ["pos_fortran", "pos_noncontiguous", "pos_float32", "box_fortran", "types_int32"]


def f32(x):
    """values rounded to single precision, returned as python floats (so that float64 and float32 storage hold the SAME numbers)"""
    return np.asarray(x, dtype=np.float32).astype(float).tolist()


def with_form(snaps, form):
    """the same trajectory with the arrays of every frame stored differently (values unchanged)"""
    from PyMatterSim.reader.reader_utils import Snapshots

    new = []
    for sn in snaps.snapshots:
        pos, ty, L, bb, H = sn.positions, sn.particle_type, sn.boxlength, sn.boxbounds, sn.hmatrix
        n, d = pos.shape
        if form == "pos_fortran":
            pos = np.asfortranarray(pos)
        elif form == "pos_noncontiguous":
            wide = np.full((n, 2 * d), 7.5)
            wide[:, ::2] = pos
            pos = wide[:, ::2]
        elif form == "pos_float32":
            pos = pos.astype(np.float32)
        elif form == "box_fortran":
            bb = np.asfortranarray(bb)
            H = np.asfortranarray(H)
            wide = np.full(2 * d, -3.0)
            wide[::2] = L
            L = wide[::2]
        elif form == "types_int32":
            ty = ty.astype(np.int32)
        else:
            raise ValueError(form)
        new.append(type(sn)(sn.timestep, sn.nparticle, ty, pos, L, bb, sn.realbounds, H))
    return Snapshots(len(new), new)


# ---------------------------------------------------------------------------------------------- strain sequences (L2 / seed c20_a6)
# per-frame edge lengths of F = 3 trajectories: only SOME edges change between consecutive frames (uniaxial strain along every axis,
# biaxial with the last axis fixed), the change happens late (frames 0 and 1 share the box), the box returns to the first one, every
# edge changes.  All numbers dyadic.
STRAIN = {
    2: {
        "x_only": [[4.0, 6.0], [5.0, 6.0], [5.5, 6.0]],
        "y_only": [[4.0, 6.0], [4.0, 5.0], [4.0, 4.5]],
        "late": [[4.0, 6.0], [4.0, 6.0], [4.0, 5.0]],
        "return": [[4.0, 6.0], [5.0, 6.0], [4.0, 6.0]],
        "mixed": [[4.0, 6.0], [5.0, 6.0], [5.0, 5.0]],
        "all": [[4.0, 6.0], [5.0, 5.0], [4.5, 6.5]],
    },
    3: {
        "x_only": [[4.0, 6.0, 5.0], [5.0, 6.0, 5.0], [5.5, 6.0, 5.0]],
        "z_only": [[4.0, 6.0, 5.0], [4.0, 6.0, 4.0], [4.0, 6.0, 4.5]],
        "xy_only": [[4.0, 6.0, 5.0], [5.0, 5.0, 5.0], [4.5, 5.5, 5.0]],
        "late": [[4.0, 6.0, 5.0], [4.0, 6.0, 5.0], [4.0, 5.0, 5.0]],
        "return": [[4.0, 6.0, 5.0], [4.0, 6.0, 4.0], [4.0, 6.0, 5.0]],
        "all": [[4.0, 6.0, 5.0], [5.0, 5.0, 4.0], [4.5, 6.5, 4.5]],
    },
}
# origin per frame: constant ones and sequences whose FIRST / a LATER frame is the centred box (bounds sum to zero: no shift)
STRAIN_ORIGINS = [["123", "123", "123"], ["centred", "123", "zero"], ["zero", "centred", "sumzero"], ["sumzero", "sumzero", "sumzero"]]


# ---------------------------------------------------------------------------------------------- particles on a box face (L4)
FACE_KINDS = ["lo_x", "lo_last", "corner", "hi_x", "hi_last", "lo_and_hi"]


def on_face(pos, L, lo, kind):
    """move particle 0 (and 1) EXACTLY onto a face / the corner of the box (all box numbers are dyadic, so `lo + L` is exact)"""
    p = [list(x) for x in pos]
    d = len(L)
    if kind == "lo_x":
        p[0][0] = lo[0]
    elif kind == "lo_last":
        p[0][d - 1] = lo[d - 1]
    elif kind == "corner":
        p[0] = [lo[a] for a in range(d)]
    elif kind == "hi_x":
        p[0][0] = lo[0] + L[0]
    elif kind == "hi_last":
        p[0][d - 1] = lo[d - 1] + L[d - 1]
    elif kind == "lo_and_hi":
        p[0][0] = lo[0]
        p[1][d - 1] = lo[d - 1] + L[d - 1]
    else:
        raise ValueError(kind)
    return p


# ---------------------------------------------------------------------------------------------- C20.sequence
# Objects: trajectories with EQUAL (nframes, nparticle) (A, B, D also equal ndim); D shares its first frame with A; C is 3D.  Version 1 of
# A is A with box, bounds, h-matrix and positions rescaled by 1.25 - reached by editing the arrays of the live object IN PLACE when A is
# alive, built directly otherwise.
SEQ_N = 5
SEQ_F = 2


def seq_content(seed, obj, ver):
    """per frame {pos, L, lo} of trajectory `obj` at version `ver` (deterministic; python floats)"""
    def gen(tag, d):
        return np.array(A.generic_points(seed, SEQ_N, d, tag=tag))

    if obj in ("A", "D"):
        boxes = [[4.0, 6.0], [4.0, 6.75]]
        lo = [1.0, 2.0]
        fr = [gen("c20qA0", 2), gen("c20qA1" if obj == "A" else "c20qD1", 2)]
    elif obj == "B":
        boxes = [[5.0, 6.0], [5.0, 7.0]]
        lo = [0.0, -5.5]
        fr = [gen("c20qB0", 2), gen("c20qB1", 2)]
    elif obj == "C":
        boxes = [[4.0, 6.0, 5.0], [4.0, 6.0, 5.5]]
        lo = [1.0, 2.0, 3.0]
        fr = [gen("c20qC0", 3), gen("c20qC1", 3)]
    else:
        raise ValueError(obj)
    s = 1.25 if ver else 1.0
    out = []
    for g, L in zip(fr, boxes):
        Ls = [x * s for x in L]
        los = [x * s for x in lo]
        out.append({"pos": (np.array(los) + g * np.array(Ls)).tolist(), "L": Ls, "lo": los})
    return out


def _snaps_of(content):
    return [mk_snap(fr["pos"], np.diag(fr["L"]), [1] * len(fr["pos"]), lo=fr["lo"], ts=t) for t, fr in enumerate(content)]


def _edit_in_place(obj, content):
    for sn, fr in zip(obj.snapshots, content):
        L = np.array(fr["L"], float)
        lo = np.array(fr["lo"], float)
        sn.positions[...] = np.array(fr["pos"], float)
        sn.boxlength[...] = L
        sn.boxbounds[...] = np.column_stack((lo, lo + L))
        sn.hmatrix[...] = np.diag(L)


def _do(op, snaps, d):
    from PyMatterSim.neighbors.freud_neighbors import VolumeMatrix, cal_neighbors
    from PyMatterSim.neighbors.read_neighbors import read_neighbors

    if op == "cal":
        out = "c20seq"
        cal_neighbors(snaps, outputfile=out)
        names = [out + ".neighbor.dat", out + (".edgelength.dat" if d == 2 else ".facearea.dat"), out + ".overall.dat"]
        res = {}
        for key, p in zip(("nb", "bond", "overall"), names):
            with open(p) as f:
                res[key] = f.read()
        tabs = []
        with open(names[0]) as f1, open(names[1]) as f2:
            for _ in range(snaps.nsnapshots):
                a = read_neighbors(f1, snaps.snapshots[0].nparticle, 200)
                b = read_neighbors(f2, snaps.snapshots[0].nparticle, 3)
                tabs.append([str(a.dtype), a.tolist(), str(b.dtype), b.tolist()])
        res["read"] = tabs
        for p in names:
            os.remove(p)
        return res
    k = int(op[2:])
    M = VolumeMatrix(snaps, ndim=d, nconfig=k, deltar=0.01, transform_matrix=False, outputfile="")
    return {"M": np.asarray(M, float).tolist()}


def seq_eval(case):
    """runs in the forked child: executes the word; returns per letter {'res': ..., 'recycled': bool, 'edited': bool}"""
    from PyMatterSim.reader.reader_utils import Snapshots

    seed = case["seed"]
    live = {}      # object name -> [Snapshots, version]
    old_ids = set()
    out = []
    for obj, ver, op in case["word"]:
        content = seq_content(seed, obj, ver)
        d = len(content[0]["L"])
        recycled = edited = False
        if obj in live:
            if live[obj][1] != ver:
                _edit_in_place(live[obj][0], content)
                live[obj][1] = ver
                edited = True
        else:
            sn = _snaps_of(content)
            if not case["keep"] and live:
                # the earlier trajectories are released before the new one is created: CPython hands the freed address to the next
                # object of the same size, so id(new) == id(old) (a cache keyed by id() sees a collision)
                old_ids.update(id(v[0]) for v in live.values())
                live.clear()
                gc.collect()
                junk = []
                new = Snapshots(len(sn), sn)
                while id(new) not in old_ids and len(junk) < 20000:
                    junk.append(new)
                    new = Snapshots(len(sn), sn)
                recycled = id(new) in old_ids
                del junk
            else:
                new = Snapshots(len(sn), sn)
            live[obj] = [new, ver]
        out.append({"res": _do(op, live[obj][0], d), "recycled": recycled, "edited": edited})
    return out
