"""Round-4 helpers of C11: storage forms of the inputs of HessianMatrix (L5), decoy interaction parameters (L1), special value classes (L4) and the
bookkeeping of the output-file options of diagonalize_hessian.  Nothing here calls the library."""
from __future__ import annotations

import os

import numpy as np

SUFFIXES = (".hessianmatrix.npy", ".evecs.npy", ".omega_PR.csv")

# values of the InteractionParams fields that belong to the OTHER models (documented as parameters of those models only)
DECOYS = {"none": {}, "other": {"ipl_n": 7.0, "ipl_A": 3.0, "harmonic_hertz_alpha": 2.75}, "negative": {"ipl_n": -3.0, "ipl_A": -1.0, "harmonic_hertz_alpha": 0.5}}

FORMS = ["f32", "i32", "ppp_list", "ppp_tuple", "ppp_i32", "posF", "pos_strided", "types_i32", "mass_npint", "mass_npfloat", "decoy_other", "decoy_negative",
         "rc_eq_sigma", "eps_zero", "origin", "face", "unwrapped", "unwrapped_partial", "ipl_A0", "shift_int"]

UNWRAP_N = [0, 2, -3, 4]  # whole cell vectors by which a particle is displaced along a periodic axis (L7: unfolded xu yu zu coordinates)


def unwrap(pos, H, ppp):
    """particle i displaced by sum_a n_(i,a) H[a] with n from UNWRAP_N, different per particle and per axis, zero on non-periodic axes"""
    pos = np.array(pos, float)
    H = np.asarray(H, float)
    out = pos.copy()
    for i in range(len(pos)):
        for a in range(H.shape[0]):
            if ppp[a]:
                out[i] = out[i] + UNWRAP_N[(i + 2 * a + 1) % 4] * H[a]
    return out


def interaction(model, par, decoy="none"):
    """InteractionParams of the requested model; the fields of the other models carry the decoy values"""
    from PyMatterSim.static.hessians import InteractionParams, ModelName

    kw = dict(DECOYS[decoy])
    if model == "lj":
        return InteractionParams(ModelName.lennard_jones, **kw)
    if model == "ipl":
        kw.update(ipl_n=par.get("n", 0), ipl_A=par.get("A", 0))
        return InteractionParams(ModelName.inverse_power_law, **kw)
    kw.update(harmonic_hertz_alpha=par.get("alpha", 0))
    return InteractionParams(ModelName.harmonic_hertz, **kw)


def apply_form(form, model, pos, types, ppp, eps, sig, rc, masses):
    """-> dict(lib=(positions, types, ppp, eps, sig, rc, masses) as handed to the library, ref=(pos, eps, sig, rc, masses) float64 values the reference
    uses (the VALUES actually stored), tol = factor on the float tolerance, decoy = name of the decoy set)"""
    pos = np.array(pos, float)
    types_in = np.array(types, dtype=int)
    ppp_in = np.array(ppp)
    eps_in, sig_in, rc_in = eps.copy(), sig.copy(), rc.copy()
    masses_in = dict(masses)
    tol, decoy = 1.0, "none"
    if form == "f32":
        eps_in, sig_in, rc_in = (a.astype(np.float32) for a in (eps, sig, rc))
        tol = 2e3  # float32 parameters: float32 accuracy of the parameters' products (2e-6 relative) is all that can be asked
    elif form == "i32":
        eps_in = np.array([[1, 2], [2, 1]], dtype=np.int32)
        rc_in = np.array([[2, 2], [2, 2]], dtype=np.int32)
        sig_in = rc_in.copy() if model == "hertz" else np.array([[1, 1], [1, 1]], dtype=np.int32)
    elif form == "ppp_list":
        ppp_in = [int(v) for v in ppp]
    elif form == "ppp_tuple":
        ppp_in = tuple(int(v) for v in ppp)
    elif form == "ppp_i32":
        ppp_in = np.array(ppp, dtype=np.int32)
    elif form == "types_i32":
        types_in = types_in.astype(np.int32)
    elif form == "mass_npint":
        masses_in = {np.int64(k): np.int64(v) for k, v in masses.items()}
    elif form == "mass_npfloat":
        masses_in = {int(k): np.float64(v) for k, v in masses.items()}
    elif form.startswith("decoy_"):
        decoy = form[6:]
    elif form == "rc_eq_sigma":
        sig_in = rc.copy()  # a potential whose cutoff sits exactly at sigma: LJ crosses zero there (s(rc) = 0, s'(rc) != 0)
    elif form == "eps_zero":
        eps_in = eps.copy()
        eps_in[0, 1] = eps_in[1, 0] = 0.0  # unlike species do not interact: exact zero blocks, eigenvectors with zero components
    pos_in = pos.copy()
    if form == "posF":
        pos_in = np.asfortranarray(pos)
    elif form == "pos_strided":
        big = np.full((pos.shape[0], 2 * pos.shape[1]), 4.75)
        big[:, ::2] = pos
        pos_in = big[:, ::2]
    ref = (pos, np.asarray(eps_in, float), np.asarray(sig_in, float), np.asarray(rc_in, float), {int(k): float(v) for k, v in masses_in.items()})
    return {"lib": (pos_in, types_in, ppp_in, eps_in, sig_in, rc_in, masses_in), "ref": ref, "tol": tol, "decoy": decoy}


def expected_files(prefix, saveevecs, savehessian):
    want = {prefix + ".omega_PR.csv": True, prefix + ".evecs.npy": bool(saveevecs), prefix + ".hessianmatrix.npy": bool(savehessian)}
    return want


def clean(prefix):
    for suf in SUFFIXES:
        if os.path.exists(prefix + suf):
            os.remove(prefix + suf)
