"""Reference model and alphabets of the strengthened C11 slices (C11.scale, C11.sequence).  Nothing here calls the library.

Oracle of the scale slice (documented choice, see STRENGTHEN task): the total energy is a sum over interacting pairs,
    U(x) = sum_{i<j, r_ij <= rc} u_ij(x_i, x_j),   u = s(r) - shift (s(rc) + (r - rc) s'(rc)),
so its Hessian is the sum of the Hessians of the pair terms.  Each pair term is differentiated EXACTLY with hyper-dual
numbers with respect to its 2d coordinates (mc.ref.hyperdual.grad_hess on the documented s(r) of mc.ref.hessvec.s_pot:
no hand-derived pair block) and scattered into the N d x N d matrix by the coordinate indices.  This is the hyper-dual
Hessian of the total energy evaluated sparsely (a dense evaluation needs (N d)^2/2 total-energy evaluations in pure python:
~1 h for N d = 129).  Second witness: central finite differences of a differently coded, numpy-vectorised float energy
(restricted to the pair terms that contain the differentiated particle - the others do not depend on it) on a subset of
columns chosen around the tile boundaries 64 / 128.
"""
from __future__ import annotations

import numpy as np

from mc import alphabets as A
from mc.ref import hessvec as HV
from mc.ref import hyperdual as hd
from mc.ref.c02x import forked  # noqa: F401

SPACING = 1.25
JIT = 0.075

# species-pair parameters (symmetric).  K = 2: the matrices of checks/c11.py;  K = 3:
RC3 = [[1.9, 2.0, 1.6], [2.0, 2.05, 1.75], [1.6, 1.75, 1.5]]
EPS3 = [[1.0, 1.5, 0.8], [1.5, 0.5, 1.2], [0.8, 1.2, 2.0]]
RC2 = [[1.9, 2.0], [2.0, 2.05]]
EPS2 = [[1.0, 1.5], [1.5, 0.5]]
MASS = {2: {"1": 1.0, "2": 3.0}, 3: {"1": 1.0, "2": 3.0, "3": 0.5}}
RATIO = {"lj": 2.0, "ipl": 1.6, "hertz": 1.0}

GRID = {2: {32: (7, 5), 33: (7, 5), 64: (9, 8), 65: (9, 8), 127: (13, 10), 128: (13, 10), 129: (13, 10)},
        3: {8: (5, 4, 4), 21: (5, 4, 4), 22: (5, 4, 4), 43: (5, 4, 4), 64: (5, 4, 4), 85: (6, 4, 4), 86: (6, 4, 4)}}


def cell(d, n, kind):
    """orthogonal cell whose shortest edge is NOT x, or the LAMMPS-triclinic cell with the same edges and tilts of one
    lattice spacing (the Cartesian lattice stays periodic; pairs across the tilted faces need the tilt)"""
    L = [g * SPACING for g in GRID[d][n]]
    if kind == "orth":
        return A.hmat_tri(L, [0.0] if d == 2 else [0.0, 0.0, 0.0])
    return A.hmat_tri(L, [SPACING] if d == 2 else [SPACING, -SPACING, SPACING])


def species(n, K):
    """fixed assignment, every species present, unequal counts"""
    t = [1 + ((i * 7 + i // 5) % K) for i in range(n)]
    t[n - 1] = K
    t[0] = 1
    return t


def params(K, model):
    rc = np.array(RC2 if K == 2 else RC3, float)
    eps = np.array(EPS2 if K == 2 else EPS3, float)
    return eps, rc / RATIO[model], rc


def pairs_vec(pos, H, ppp, types, rc):
    """all i<j: minimum-image separation x_i - x_j (C02 convention), removed lattice vector, distance, cutoff, margins"""
    pos = np.asarray(pos, float)
    n = len(pos)
    iu, ju = np.triu_indices(n, 1)
    raw = pos[iu] - pos[ju]
    s = np.linalg.solve(np.asarray(H, float).T, raw.T).T
    m = np.asarray(ppp)
    k = np.floor(s + 0.5) * m
    vec = (s - k) @ H
    r = np.sqrt((vec * vec).sum(axis=1))
    t = np.asarray(types) - 1
    c = np.asarray(rc, float)[t[iu], t[ju]]
    tie = np.abs((s - 0.5) - np.round(s - 0.5))[:, m == 1]
    return {"i": iu, "j": ju, "vec": vec, "lat": raw - vec, "r": r, "rc": c, "inside": r <= c, "margin": np.abs(r - c),
            "tie": float(tie.min()) if tie.size else 1.0}


def configuration(seed, d, n, kind, ppp, K, model):
    """first n sites (in an order that starts behind the periodic faces, so the cluster straddles them and leaves ragged
    vacancies) of the Cartesian lattice, jittered; retried with another jitter table until every cutoff decision has a
    margin >= 1e-6, every rint decision >= 1e-6 and no two particles are closer than 0.9"""
    g = GRID[d][n]
    H = cell(d, n, kind)
    types = species(n, K)
    _, _, rc = params(K, model)
    sites = sorted(np.ndindex(*g), key=lambda ix: tuple((ix[a] + 1) % g[a] for a in range(d)))[:n]
    for salt in range(40):
        pos = np.array([[(ix[a] + 0.5) * SPACING + A.jitter(seed, f"c11s{d}{n}{kind}{salt}_{ix}", a, JIT) for a in range(d)] for ix in sites])
        s = np.linalg.solve(H.T, pos.T).T
        pos = (s - np.floor(s)) @ H
        pl = pairs_vec(pos, H, ppp, types, rc)
        if pl["margin"].min() >= 1e-6 and pl["tie"] >= 1e-6 and pl["r"].min() >= 0.9:
            return pos, H, types, pl
    raise RuntimeError(f"C11.scale: no admissible jitter table for d={d} n={n} {kind}")


def pair_hessians(pl, types, eps, sig, rc, shift, model, par, d):
    """list of (i, j, 2d x 2d exact Hessian of u_ij with respect to (x_i, x_j))"""
    out = []
    for k in np.nonzero(pl["inside"])[0]:
        i, j = int(pl["i"][k]), int(pl["j"][k])
        a, b = types[i] - 1, types[j] - 1
        e, s, c = float(eps[a][b]), float(sig[a][b]), float(rc[a][b])
        if shift:
            src, s1rc, _ = hd.derivs(lambda r, e=e, s=s: HV.s_pot(model, r, e, s, par), c)
        else:
            src, s1rc = 0.0, 0.0
        lat = [float(v) for v in pl["lat"][k]]

        def u(x, e=e, s=s, c=c, src=src, s1rc=s1rc, lat=lat):
            r2 = hd.HD(0.0)
            for q in range(d):
                dq = x[q] - x[d + q] - lat[q]
                r2 = r2 + dq * dq
            r = hd.sqrt(r2)
            return HV.s_pot(model, r, e, s, par) - (src + (r - c) * s1rc)

        out.append((i, j, k, u))
    return out


def ref_hessian_sparse(pos, pl, types, masses, eps, sig, rc, shift, model, par):
    pos = np.asarray(pos, float)
    n, d = pos.shape
    K = np.zeros((n * d, n * d))
    terms = pair_hessians(pl, types, eps, sig, rc, shift, model, par, d)
    for (i, j, k, u) in terms:
        x0 = [float(v) for v in pos[i]] + [float(v) for v in pos[j]]
        _, _, Hp = hd.grad_hess(u, x0)
        Hp = np.array(Hp, float)
        idx = list(range(i * d, i * d + d)) + list(range(j * d, j * d + d))
        K[np.ix_(idx, idx)] += Hp
    m = HV.mass_vector(types, masses, d)
    return K / np.sqrt(np.outer(m, m)), len(terms)


# ------------------------------------------------------------------------------------------ finite-difference witness
def energy_vec(X, I, J, LAT, E, S, C, shift, model, par):
    """numpy-vectorised float energy of the listed pair terms (coded with r^2 powers / exp-log, explicit shift terms)"""
    dv = X[I] - X[J] - LAT
    r2 = (dv * dv).sum(axis=1)
    r = np.sqrt(r2)
    if model == "lj":
        q6 = S ** 6 / r2 ** 3
        u = 4.0 * E * q6 * (q6 - 1.0)
        if shift:
            c6 = (S / C) ** 6
            u = u - (4.0 * E * c6 * (c6 - 1.0) + (r - C) * (-24.0 * E / C) * (2.0 * c6 * c6 - c6))
    elif model == "ipl":
        n_, A_ = par["n"], par["A"]
        u = A_ * E * np.exp(n_ * (np.log(S) - 0.5 * np.log(r2)))
        if shift:
            uc = A_ * E * np.exp(n_ * (np.log(S) - np.log(C)))
            u = u - (uc + (r - C) * (-n_ * uc / C))
    else:
        al = par["alpha"]
        u = np.where(r < S, E / al * np.exp(al * np.log(np.maximum(1.0 - r / S, 1e-300))), 0.0)
    return float(u.sum())


def fd_columns(pos, pl, types, masses, eps, sig, rc, shift, model, par, cols, h=1e-4):
    """{column p: mass-weighted d2U/dx_q dx_p for all q} by central differences, for the requested columns"""
    pos = np.asarray(pos, float)
    n, d = pos.shape
    t = np.asarray(types) - 1
    ins = pl["inside"]
    m = HV.mass_vector(types, masses, d)
    out = {}
    for p in cols:
        ip = p // d
        sel = ins & ((pl["i"] == ip) | (pl["j"] == ip))
        I, J, LAT = pl["i"][sel], pl["j"][sel], pl["lat"][sel]
        E, S, C = np.asarray(eps)[t[I], t[J]], np.asarray(sig)[t[I], t[J]], np.asarray(rc)[t[I], t[J]]
        col = np.zeros(n * d)
        if sel.any():
            def U(dp, q=None, dq=0.0):
                X = pos.copy()
                X[ip, p % d] += dp
                if q is not None:
                    X[q // d, q % d] += dq
                return energy_vec(X, I, J, LAT, E, S, C, shift, model, par)

            U0 = U(0.0)
            touched = set(I.tolist()) | set(J.tolist())
            for q in range(n * d):
                if q // d not in touched:
                    continue
                if q == p:
                    col[q] = (U(h) - 2.0 * U0 + U(-h)) / (h * h)
                else:
                    col[q] = (U(h, q, h) - U(h, q, -h) - U(-h, q, h) + U(-h, q, -h)) / (4.0 * h * h)
        out[p] = col / np.sqrt(m * m[p])
    return out


def witness_columns(pl, n, d, nmax=7):
    """columns for the finite-difference witness: around the tile boundaries 63/64/65, 127/128/129, first and last;
    only particles all of whose pair distances stay >= 2e-3 away from their cutoff (the stencil must not straddle r_c)"""
    bad = set()
    for k in np.nonzero(pl["margin"] < 2e-3)[0]:
        bad.add(int(pl["i"][k]))
        bad.add(int(pl["j"][k]))
    want = [0, n * d - 1, 63, 64, 65, 127, 128, 129, (n * d) // 2]
    cols = []
    for p in want:
        if 0 <= p < n * d and p // d not in bad and p not in cols:
            cols.append(p)
    return cols[:nmax]
