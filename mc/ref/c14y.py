"""Helpers for the round-4 slices of C14 (time_correlation): call-sequence letters and the reader of the csv written by `outputfile`.

Nothing here calls a reference model through the routine under test; `seq_eval` is the function executed inside the forked child
(mc/ref/c03x.py: fresh_child) - it only makes the library calls of one word and transports what they returned."""
from __future__ import annotations

import os

import numpy as np

from mc.ref.base import mk_snaps
from mc.ref import c03x as X3

SEQ_MODS = ("PyMatterSim.dynamic.time_corr",)
SEQ_FILE = "c14_seq_out.csv"

REAL = [1.0, -1.0, 2.0]
CPLX = [1.0 + 0j, 1j, -1.0 + 1j]

# timestep lists of 5 frames that all share (number of frames, first timestep, last timestep)
_E = [0, 10, 20, 30, 40]      # evenly spaced
_U = [0, 1, 5, 20, 40]        # uneven, same first / last timestep
_U2 = [0, 10, 15, 30, 40]     # uneven, same first gap, same last gap, same span as _E
_O = [100, 110, 120, 130, 140]  # evenly spaced, another first timestep

# Complete argument tuples.  Pairs collide in plausible incomplete keys:
#   e0-u0-u1   same (nframes, first, last timestep), different interior (even / uneven / uneven with the first and last gap of e0)
#   e0-e0d     the very same series (in the 'shared' mode the same ndarray and Snapshots OBJECTS) with another dt
#   e0-e0p     same shape, dtype, timesteps and dt, other values
#   v2-v3      2-vectors then 3-vectors (same T, N, timesteps); s-v2-t0: scalar / vector / tensor of the same leading shape
#   e0-c0      real then complex values of the same shape
#   e0-n3      same timesteps, another particle number; e0-o0: same gaps, another first timestep
#   f0-f1      same output file NAME, different content (and e0 / u0 without a file in between)
SEQ_LETTERS = [
    {"id": "e0", "shape": "s", "d": 0, "cplx": False, "N": 2, "steps": _E, "dt": 0.002, "pat": 0, "file": False},
    {"id": "u0", "shape": "s", "d": 0, "cplx": False, "N": 2, "steps": _U, "dt": 0.002, "pat": 0, "file": False},
    {"id": "u1", "shape": "s", "d": 0, "cplx": False, "N": 2, "steps": _U2, "dt": 0.002, "pat": 0, "file": False},
    {"id": "e0d", "shape": "s", "d": 0, "cplx": False, "N": 2, "steps": _E, "dt": 0.005, "pat": 0, "file": False},
    {"id": "e0p", "shape": "s", "d": 0, "cplx": False, "N": 2, "steps": _E, "dt": 0.002, "pat": 1, "file": False},
    {"id": "v2", "shape": "v", "d": 2, "cplx": False, "N": 2, "steps": _E, "dt": 0.002, "pat": 0, "file": False},
    {"id": "v3", "shape": "v", "d": 3, "cplx": False, "N": 2, "steps": _E, "dt": 0.002, "pat": 0, "file": False},
    {"id": "c0", "shape": "s", "d": 0, "cplx": True, "N": 2, "steps": _E, "dt": 0.002, "pat": 0, "file": False},
    {"id": "t0", "shape": "t", "d": 2, "cplx": True, "N": 2, "steps": _U, "dt": 0.002, "pat": 0, "file": False},
    {"id": "n3", "shape": "s", "d": 0, "cplx": False, "N": 3, "steps": _E, "dt": 0.002, "pat": 0, "file": False},
    {"id": "o0", "shape": "v", "d": 3, "cplx": True, "N": 2, "steps": _O, "dt": 0.002, "pat": 2, "file": False},
    {"id": "f0", "shape": "s", "d": 0, "cplx": False, "N": 2, "steps": _U, "dt": 0.002, "pat": 0, "file": True},
    {"id": "f1", "shape": "s", "d": 0, "cplx": False, "N": 2, "steps": _E, "dt": 0.005, "pat": 1, "file": True},
]


def seq_value(lt, k):
    """letter k (0..2) of the value alphabet of the letter's shape: scalar, d-vector or d x d tensor built from the scalar letters"""
    a = CPLX if lt["cplx"] else REAL
    d = lt["d"]
    if lt["shape"] == "s":
        return np.array(a[k])
    if lt["shape"] == "v":
        return np.array([a[(k + 2 * c) % 3] if c else a[k] for c in range(d)])
    # asymmetric tensors with Re tr(A conj(A)) > 0
    base = [[[a[2], a[0]], [a[1], a[0]]], [[a[1], a[2]], [a[0], a[2]]], [[a[2], a[1]], [a[2], a[1]]]]
    return np.array(base[k])


def seq_series(lt):
    """deterministic aperiodic series of the letter (every particle its own pattern)"""
    T = len(lt["steps"])
    p = lt["pat"]
    return np.array([[seq_value(lt, (t * t + 3 * i * t + i + p * (t + 1)) % 7 % 3) for i in range(lt["N"])] for t in range(T)])


def _snaps(lt):
    T, N = len(lt["steps"]), lt["N"]
    return mk_snaps([np.zeros((N, 2))] * T, np.eye(2) * 4.0, [1] * N, steps=list(lt["steps"]))


def seq_eval(case):
    """executed in the forked child: the calls of one word, one after the other.  mode 'fresh': every call gets new objects (all kept alive
    until the end of the word); mode 'shared': one Snapshots object per distinct (timesteps, N) and ONE series buffer per (shape, dtype)
    that is refilled in place before each call."""
    from PyMatterSim.dynamic.time_corr import time_correlation

    keep = []
    pool_s, pool_x = {}, {}
    if os.path.exists(SEQ_FILE):
        os.remove(SEQ_FILE)
    out = []
    for k in case["word"]:
        lt = SEQ_LETTERS[k]
        x = seq_series(lt)
        if case["mode"] == "shared":
            ks = (tuple(lt["steps"]), lt["N"])
            if ks not in pool_s:
                pool_s[ks] = _snaps(lt)
            snaps = pool_s[ks]
            kx = (x.shape, x.dtype.str)
            if kx not in pool_x:
                pool_x[kx] = np.empty_like(x)
            pool_x[kx][...] = x
            x = pool_x[kx]
        else:
            snaps = _snaps(lt)
        keep.append((snaps, x))
        before = open(SEQ_FILE).read() if os.path.exists(SEQ_FILE) else None
        if lt["file"]:
            res = time_correlation(snaps, x, dt=lt["dt"], outputfile=SEQ_FILE)
            text = open(SEQ_FILE).read() if os.path.exists(SEQ_FILE) else None
        else:
            res = time_correlation(snaps, x, dt=lt["dt"])
            after = open(SEQ_FILE).read() if os.path.exists(SEQ_FILE) else None
            text = None if after == before else "FILE TOUCHED: " + repr(after)[:200]
        rec = X3.frame_to_json(res)
        rec["file"] = text
        out.append(rec)
    if os.path.exists(SEQ_FILE):
        os.remove(SEQ_FILE)
    return out


def read_csv_table(path):
    """Plain reader of the csv written by the routine: returns (header fields, list of rows of floats, error string or None)"""
    with open(path) as f:
        lines = f.read().split("\n")
    if lines and lines[-1] == "":
        lines = lines[:-1]
    if not lines:
        return [], [], "empty file"
    head = lines[0].split(",")
    rows = []
    for ln in lines[1:]:
        try:
            rows.append([float(v) for v in ln.split(",")])
        except ValueError:
            return head, rows, f"unparsable line {ln!r}"
    return head, rows, None
