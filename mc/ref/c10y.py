"""Alphabets of the round-4 slices of C10 (2D frame classes, output files, storage types, call words).  The class machinery
(topology classes of 5 particles, weight classes, raw-position snapshots, file token readers, JSON transport of the call words)
is shared with C09 (mc/ref/c09y.py); nothing here calls the routines under test."""
from __future__ import annotations

from mc.ref.c09y import (FIX6, INT_, LIB_MODS, MAXCN5, TOPO5, TOPO_NAMES, arr_json, is_text_name, json_arr, json_equal, mk_snaps_raw,  # noqa: F401
                         npy_name, read_tokens, rm, store_positions, weights_class, write_weights_tokens)

# weight classes of ONE 2D frame (normalisation by the sum of ABSOLUTE values): all equal (unweighted-looking), varied and positive,
# varied with negative entries, one exact zero per row, integer tokens with signs ("-1 2 1")
W2_CLASSES = ("equal", "pos", "signed", "zero", "int")


def weights_class2(nl, wclass, frame):
    if wclass == "pos":
        return weights_class(nl, "var", frame, signed=False)
    if wclass == "signed":
        return weights_class(nl, "var", frame, signed=True)
    return weights_class(nl, wclass, frame, signed=(wclass != "equal"))


def file_class(wclass):
    """how write_weights_tokens writes the class: integer tokens or repr(float)"""
    return "int" if wclass == "int" else "float"


FACE2 = [[0.0, 0.0], [6.0, 1.0], [1.0, 7.0], [2.0, 2.0], [3.5, 0.0]]  # the origin, the upper x face, the upper y face, interior, the y = 0 face
UNWRAP2 = [[0, 2], [4, -3], [-3, 0], [2, 4], [-2, -2]]  # whole cell vectors added to particle i (L7)
DILATE = {"dilate-33": 2.0 ** -33, "dilate+27": 2.0 ** 27}
