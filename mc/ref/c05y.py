"""Helpers for strengthening round 4 of C05 (neighbour lists through the file): unwrapped placements, call-sequence search.

Nothing here computes an expected value with the routines under test: `seq_eval` only TRANSPORTS library calls into a forked child
(mc/ref/c03x.py: fresh_child); the oracle of C05.sequence is 'the same call made first in a fresh child', and that single call is what
C05.nnearest / C05.cutoff / C05.cutoff_type / C05.readback compare with the full-sort reference.
"""
from __future__ import annotations

import os

import numpy as np

from mc import alphabets as A
from mc.ref.base import mk_snaps

SEQ_MODS = ("PyMatterSim.utils.pbc", "PyMatterSim.neighbors.read_neighbors", "PyMatterSim.neighbors.calculate_neighbors")
FN = "c05_seq.dat"

# ---------------------------------------------------------------------------------------------- unwrapped placements (L7)
UNWRAP = [0, 2, -3, 4]


def unwrap(frames, Hf, ppp):
    """particle i of every frame displaced by n_ia whole cell vectors H[a] along every PERIODIC axis a, n_ia from {0, +2, -3, +4}
    (different per particle, axis and frame; zero on non-periodic axes): unwrapped (xu yu zu) coordinates several cells away"""
    out = []
    for f, (p, H) in enumerate(zip(frames, Hf)):
        p = np.array(p, float)
        H = np.array(H, float)
        for i in range(len(p)):
            for a in range(len(ppp)):
                if ppp[a]:
                    p[i] = p[i] + UNWRAP[(i + 2 * a + f + 1) % 4] * H[a]
        out.append(p)
    return out


# ---------------------------------------------------------------------------------------------- C05.sequence (L6)
def cell(d, name):
    L = [8.0, 9.0, 10.0][:d]
    tilts = {"orth": [0, 0, 0][: (1 if d == 2 else 3)], "tri+": [1.5] if d == 2 else [1.5, 1.0, -2.0]}[name]
    return np.array(A.hmat_tri(L, tilts), float)


def seq_letters():
    b3 = {"d": 3, "cell": "orth", "ppp": [1, 1, 1], "pts": "P", "Nmax": 200, "types": [1, 1, 1, 1, 1]}
    L = [
        dict(b3, id="n0", kind="nn", N=2),
        dict(b3, id="n1", kind="nn", N=2, cell="tri+"),                      # same diagonal / other tilt
        dict(b3, id="n2", kind="nn", N=3, Nmax=2),                           # other N; the read truncates
        dict(b3, id="n3", kind="nn", N=2, d=2, ppp=[1, 1]),                  # 2D
        dict(b3, id="n4", kind="nn", N=2, ppp=[1, 0, 1]),                    # other mask
        dict(b3, id="n5", kind="nn", N=2, pts="Q"),                          # same (nframes, nparticle, ndim) / other positions
        dict(b3, id="c0", kind="cut", rc=4.0),
        dict(b3, id="c1", kind="cut", rc=5.5, Nmax=1),                       # same snapshots / other cutoff
        dict(b3, id="c2", kind="cut", rc=4.0, cell="tri+"),
        dict(b3, id="t0", kind="type", R=[[4.0, 6.0], [3.0, 4.0]], types=[1, 2, 1, 2, 2]),
        dict(b3, id="t1", kind="type", R=[[4.0, 3.0], [6.0, 4.0]], types=[1, 2, 1, 2, 2]),   # transposed matrix
        dict(b3, id="t2", kind="type", R=[[4.0, 6.0], [3.0, 4.0]], types=[2, 1, 2, 1, 1]),   # same matrix / species swapped
        {"id": "w0", "kind": "weights", "d": 3, "Nmax": 2},                                    # a weights file under the SAME file name
    ]
    return L


SEQ_LETTERS = seq_letters()
SEQ_NP = 5
SEQ_F = 2
_SITES = {2: [0, 4, 8, 2, 6], 3: [0, 13, 26, 2, 6]}


def seq_frames(seed, lt):
    d = lt["d"]
    box = [8.0, 9.0, 10.0][:d]
    pts = A.jl_points(seed, 3, d, box, tag=f"C05q{lt['pts']}{d}")
    base = np.array([pts[i] for i in _SITES[d]])
    frames = [base]
    for f in range(1, SEQ_F):
        frames.append(base + np.array([[A.jitter(seed, f"c05q{lt['pts']}{f}_{i}", a, 0.9) for a in range(d)] for i in range(SEQ_NP)]))
    return frames


def seq_call(seed, lt, live, share):
    from PyMatterSim.neighbors.calculate_neighbors import Nnearests, cutoffneighbors, cutoffneighbors_particletype
    from PyMatterSim.neighbors.read_neighbors import read_neighbors

    if lt["kind"] == "weights":
        with open(FN, "w") as f:
            for t in range(SEQ_F):
                f.write("id   cn   facearealist\n")
                for i in range(SEQ_NP):
                    cn = (i + t) % 4
                    f.write(f"{i + 1} {cn} " + " ".join(repr(0.5 * (k + 1) + 0.125 * i + t) for k in range(cn)) + "\n")
    else:
        d = lt["d"]
        H = cell(d, lt["cell"])
        frames = seq_frames(seed, lt)
        key = ("snaps", d)
        if share and key in live:
            for sn, p in zip(live[key].snapshots, frames):      # the SAME Snapshots object, its arrays edited in place
                sn.positions[...] = p
                sn.hmatrix[...] = H
                sn.particle_type[...] = lt["types"]
        else:
            live[key] = mk_snaps([p.tolist() for p in frames], H, lt["types"])
        ppp = np.array(lt["ppp"])
        if lt["kind"] == "nn":
            Nnearests(live[key], N=lt["N"], ppp=ppp, fnfile=FN)
        elif lt["kind"] == "cut":
            cutoffneighbors(live[key], r_cut=lt["rc"], ppp=ppp, fnfile=FN)
        else:
            cutoffneighbors_particletype(live[key], r_cut=np.array(lt["R"], float), ppp=ppp, fnfile=FN)
    with open(FN) as f:
        text = f.read()
    tabs = []
    with open(FN) as f:
        for _ in range(SEQ_F):
            t = read_neighbors(f, SEQ_NP, lt["Nmax"])
            tabs.append([str(t.dtype), t.tolist()])
    os.remove(FN)
    return {"text": text, "read": tabs}


def seq_eval(case):
    live = {}
    return [seq_call(case["seed"], SEQ_LETTERS[k], live, case["share"]) for k in case["word"]]
