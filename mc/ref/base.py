"""Reference-model basics shared by the checks: snapshots, independent minimum image, file writers,
float comparison helpers.  Deliberately naive."""
from __future__ import annotations

import math

import numpy as np


def mk_snap(pos, H, types, lo=None, ts=0, realbounds=None):
    """Build a SingleSnapshot the way the dump reader would (boxlength = diag(H), bounds = lo, lo+L)."""
    from PyMatterSim.reader.reader_utils import SingleSnapshot

    pos = np.array(pos, float)
    n, d = pos.shape
    H = np.array(H, float)
    L = np.diag(H).copy()
    lo = np.zeros(d) if lo is None else np.array(lo, float)
    return SingleSnapshot(int(ts), n, np.array(types, dtype=int), pos, L, np.column_stack((lo, lo + L)), realbounds, H)


def mk_snaps(frames, H, types, lo=None, steps=None):
    from PyMatterSim.reader.reader_utils import Snapshots

    steps = steps if steps is not None else [100 * t for t in range(len(frames))]
    # `types` may be one list (all frames) or one list per frame (species attached to ids change between frames);
    # `H` may be one matrix or one matrix per frame
    tf = types if (len(types) and np.ndim(types[0]) > 0) else [types] * len(frames)
    Hf = H if np.ndim(H) == 3 else [H] * len(frames)
    return Snapshots(len(frames), [mk_snap(p, Hf[t], tf[t], lo, ts=steps[t]) for t, p in enumerate(frames)])


def minimg(r, H, ppp):
    """Independent minimum image (C02 contract): fractional coordinates by solve, floor(s + 1/2)."""
    r = np.atleast_2d(np.asarray(r, float))
    H = np.asarray(H, float)
    s = np.linalg.solve(H.T, r.T).T
    s = s - np.floor(s + 0.5) * np.asarray(ppp)
    return s @ H


def frac_tie_margin(r, H, ppp):
    """Smallest distance of any periodic fractional coordinate to a half-integer (rint tie)."""
    r = np.atleast_2d(np.asarray(r, float))
    s = np.linalg.solve(np.asarray(H, float).T, r.T).T
    m = np.asarray(ppp).astype(bool)
    if not m.any():
        return 1.0
    f = np.abs((s[:, m] - 0.5) - np.round(s[:, m] - 0.5))
    return float(f.min()) if f.size else 1.0


def pair_table(pos, H, ppp):
    """All ordered-pair minimum-image vectors d[i,j] = r_j - r_i and distances."""
    pos = np.asarray(pos, float)
    n = len(pos)
    vec = np.zeros((n, n, pos.shape[1]))
    for i in range(n):
        vec[i] = minimg(pos - pos[i], H, ppp)
    return vec, np.linalg.norm(vec, axis=2)


def write_neighbor_file(path, frames, header="id     cn     neighborlist"):
    """frames: list (per frame) of list (per particle, id order) of 0-based neighbour ids."""
    with open(path, "w") as f:
        for fr in frames:
            f.write(header + "\n")
            for i, nb in enumerate(fr):
                f.write(f"{i + 1} {len(nb)} " + " ".join(str(j + 1) for j in nb) + "\n")


def write_weight_file(path, frames, header="id   cn   facearealist"):
    """frames: list of list of per-neighbour float weights (same topology as the neighbour file)."""
    with open(path, "w") as f:
        for fr in frames:
            f.write(header + "\n")
            for i, w in enumerate(fr):
                f.write(f"{i + 1} {len(w)} " + " ".join(repr(float(x)) for x in w) + "\n")


def close(a, b, rtol=1e-9, atol=1e-11):
    a = np.asarray(a)
    b = np.asarray(b)
    if a.shape != b.shape:
        return False
    return bool(np.allclose(a, b, rtol=rtol, atol=atol, equal_nan=True))


def maxdiff(a, b):
    a = np.asarray(a)
    b = np.asarray(b)
    if a.shape != b.shape:
        return f"shape {a.shape} vs {b.shape}"
    with np.errstate(all="ignore"):
        return float(np.nanmax(np.abs(a - b))) if a.size else 0.0


def nidealfac(d):
    return {2: 1.0, 3: 4.0 / 3.0}[d]


def shell_volumes(nb, w, d):
    e = np.arange(nb + 1) * w
    return nidealfac(d) * math.pi * (e[1:] ** d - e[:-1] ** d), e
