"""Vectorised references and deterministic input builders for the *scale* and *call-sequence* slices of C09 / C10.

The references are the formulas of mc/ref/boo.py (Steinhardt definitions, exact Legendre coefficients and Racah 3j symbols
from there) evaluated with numpy on flat bond arrays instead of python double loops, so that inputs of a few hundred
particles with ragged neighbour lists stay cheap.  Nothing here calls the library (no harmonics, no neighbour reader, no
minimum image of the library).

Inputs: positions are `generic_points` in fractional coordinates times the cell of the frame; neighbour lists are ragged by
construction (coordination numbers 1..14, the maximum attained by the first or by the last particle only, list order not
sorted, particle id 0 - the padding value of the library's tables - appears as a genuine neighbour)."""
from __future__ import annotations

import math

import numpy as np

from mc import alphabets as A
from mc.ref import boo as B

OFFS = [1, 2, 5, 11, 17, 23, 31, 41, 47, 53, 59, 61, 37, 29]  # distinct, non-zero modulo every N >= 62
MAXCN = len(OFFS)


# ------------------------------------------------------------------------------------------ geometry
def minimg_rows(v, H, ppp):
    """independent minimum image (C02 contract): fractional coordinates by solve, floor(s + 1/2) on periodic axes"""
    v = np.atleast_2d(np.asarray(v, float))
    H = np.asarray(H, float)
    s = np.linalg.solve(H.T, v.T).T
    return (s - np.floor(s + 0.5) * np.asarray(ppp)) @ H


def tie_margin_allpairs(pos, H, ppp):
    """smallest distance of a periodic fractional pair component to a half-integer, over ALL pairs of the frame"""
    pos = np.asarray(pos, float)
    m = np.asarray(ppp).astype(bool)
    if not m.any():
        return 1.0
    iu, ju = np.triu_indices(len(pos), 1)
    s = np.linalg.solve(np.asarray(H, float).T, (pos[ju] - pos[iu]).T).T[:, m]
    return float(np.abs((s - 0.5) - np.round(s - 0.5)).min()) if s.size else 1.0


def box_edges(N, d, shortest, rho=0.8):
    """edge lengths of a cell of number density rho whose shortest edge is the axis `shortest` (0 = x, 1 = y, 2 = z)"""
    ratios = {3: [1.0, 1.15, 1.3], 2: [1.0, 1.25]}[d]
    order = {0: [0, 1, 2], 1: [1, 0, 2], 2: [2, 1, 0]}[shortest][:d] if d == 3 else {0: [0, 1], 1: [1, 0]}[shortest]
    r = [0.0] * d
    for rank, ax in enumerate(order):
        r[ax] = ratios[rank]
    unit = (N / rho / float(np.prod(r))) ** (1.0 / d)
    return [round(unit * x * 64) / 64 for x in r]  # dyadic edge lengths


TILT_FRAC = {3: [0.23, -0.31, 0.27], 2: [0.29]}


def cells_for(N, d, cell, F, rho=0.8):
    """list of F cell matrices with identical edge lengths.  cell: 'orthy' / 'orthz' (orthogonal, shortest edge y / z),
    'tri+' / 'tri-' (triclinic, all tilt factors of one sign pattern / the opposite), 'trivar' (tilt factors scaled by
    1, -1, 1/2 from frame to frame: a sheared trajectory - every frame must be analysed with ITS cell)."""
    L = box_edges(N, d, {"orthy": 1, "orthz": 2 if d == 3 else 1, "tri+": 0, "tri-": 1, "trivar": 0}[cell], rho)
    out = []
    for f in range(F):
        if cell.startswith("orth"):
            fac = 0.0
        elif cell == "tri+":
            fac = 1.0
        elif cell == "tri-":
            fac = -1.0
        else:
            fac = [1.0, -1.0, 0.5][f % 3]
        # tilt xy relative to Lx, xz to Lx, yz to Ly
        rel = [L[0], L[0], L[1]] if d == 3 else [L[0]]
        tilts = [round(fac * t * e * 64) / 64 for t, e in zip(TILT_FRAC[d], rel)]
        out.append(A.hmat_tri(L, tilts))
    return out


def frames_for(seed, N, d, Hs, tag):
    """one generic configuration per frame (different hash table per frame), Cartesian"""
    return [np.array(A.generic_points(seed, N, d, tag=f"{tag}f{f}_")) @ np.asarray(H) for f, H in enumerate(Hs)]


# ------------------------------------------------------------------------------------------ ragged topologies / weights
def ragged_lists(N, f, maxat):
    """coordination numbers 1..13 by an aperiodic pattern that changes with the frame f; ONE particle (the first or the
    last, `maxat`) has the largest coordination number 14; some particle has exactly one neighbour; ids unsorted"""
    nl = []
    for i in range(N):
        cn = 1 + (7 * i + i // 5 + 3 * f) % (MAXCN - 1)
        if (maxat == "first" and i == 0) or (maxat == "last" and i == N - 1):
            cn = MAXCN
        offs = OFFS[:cn] if (i + f) % 3 else OFFS[:cn][::-1]
        nl.append([(i + o * (1 if (i + f) % 2 == 0 else -1)) % N for o in offs])
    return nl


def ragged_weights(nl, f, signed):
    """generic positive weights (multiples of 1/8 between 0.25 and 3.125) that change with the frame; `signed`: every third
    one negative (2D normalisation by the sum of absolute values)"""
    out = []
    for i, lst in enumerate(nl):
        row = []
        for k in range(len(lst)):
            w = 0.25 + ((5 * i + 3 * k + 7 * f + i * k) % 24) / 8.0
            if signed and (i + 2 * k + f) % 3 == 0:
                w = -w
            row.append(w)
        out.append(row)
    return out


def truncate(nls, wts, nmax):
    """what `Nmax` below the largest coordination number means: the first Nmax listed neighbours (and weights)"""
    nls2 = [[list(x[:nmax]) for x in nl] for nl in nls]
    wts2 = None if wts is None else [[list(x[:nmax]) for x in w] for w in wts]
    return nls2, wts2


def parse_nfile(fn, n, conv):
    """independent reader of the documented neighbour / weight file format: list (frames) of list (id order) of lists"""
    lines = [x for x in open(fn).read().split("\n") if x.strip()]
    frames, k = [], 0
    while k < len(lines):
        k += 1  # header
        fr = [None] * n
        for _ in range(n):
            it = lines[k].split()
            k += 1
            fr[int(it[0]) - 1] = [conv(x) for x in it[2:2 + int(it[1])]]
        frames.append(fr)
    return frames


# ------------------------------------------------------------------------------------------ flat bonds
def flat_bonds(pos, H, ppp, nl):
    """(I, J, vec): centre index, neighbour index and minimum-image vector r_J - r_I of every listed bond, in list order"""
    pos = np.asarray(pos, float)
    cn = np.array([len(x) for x in nl], dtype=int)
    I = np.repeat(np.arange(len(nl)), cn)
    J = np.array([j for x in nl for j in x], dtype=int)
    return I, J, minimg_rows(pos[J] - pos[I], H, ppp), cn


def ylm_table(l, vec):
    """Y_lm (m = -l..l, Condon-Shortley) of the directions of `vec` (nb, 3): N_lm P_l^m(cos theta) ((x + iy)/rho)^m with the
    exact rational coefficients of d^m P_l/dx^m (mc.ref.boo), Horner in extended precision, no arccos / atan2 / table"""
    vec = np.asarray(vec, float)
    x, y, z = vec[:, 0], vec[:, 1], vec[:, 2]
    r = np.sqrt(x * x + y * y + z * z)
    rho = np.hypot(x, y)
    c = (z / r).astype(np.longdouble)
    s = rho / r
    safe = np.where(rho > 0, rho, 1.0)
    ph = np.where(rho > 0, (x + 1j * y) / safe, 1.0 + 0j)
    out = np.zeros((len(vec), 2 * l + 1), dtype=np.complex128)
    phm = np.ones(len(vec), dtype=np.complex128)
    sm = np.ones(len(vec))
    for m in range(0, l + 1):
        co = B.legendre_deriv_coeffs(l, m)
        acc = np.zeros(len(vec), dtype=np.longdouble)
        for a in reversed(co):
            acc = acc * c + np.longdouble(a.numerator) / np.longdouble(a.denominator)
        v = B.ylm_norm(l, m) * (-1) ** m * sm * acc.astype(float) * phm
        out[:, l + m] = v
        if m:
            out[:, l - m] = (-1) ** m * np.conj(v)
        phm = phm * ph
        sm = sm * s
    return out


def ref_qlm(pos, H, ppp, nl, l, weights=None):
    """q_lm(i) = sum_j w_ij Y_lm(r_ij), w_ij = 1/N_i or A_ij / sum_j A_ij;  Q_lm(i) = (q(i) + sum_j q(j)) / (1 + N_i)"""
    I, J, vec, cn = flat_bonds(pos, H, ppp, nl)
    n = len(nl)
    Y = ylm_table(l, vec)
    if weights is None:
        wgt = 1.0 / cn[I]
    else:
        wf = np.array([w for row in weights for w in row], float)
        wgt = wf / np.bincount(I, weights=wf, minlength=n)[I]
    q = np.zeros((n, 2 * l + 1), dtype=np.complex128)
    np.add.at(q, I, Y * wgt[:, None])
    Q = q.copy()
    np.add.at(Q, I, q[J])
    Q /= (1.0 + cn)[:, None]
    return q, Q


def ref_ql(q, l):
    return np.sqrt(4.0 * math.pi / (2 * l + 1) * (np.abs(q) ** 2).sum(axis=-1))


def ref_sij_flat(q, nl):
    """per-bond s_ij = Re(q_i . conj q_j) / (|q_i| |q_j|) as a list of arrays (one per particle) and the norms"""
    cn = np.array([len(x) for x in nl], dtype=int)
    I = np.repeat(np.arange(len(nl)), cn)
    J = np.array([j for x in nl for j in x], dtype=int)
    nrm = np.sqrt((np.abs(q) ** 2).sum(axis=1))
    up = (q[I] * np.conj(q[J])).sum(axis=1).real
    with np.errstate(all="ignore"):
        s = up / (nrm[I] * nrm[J])
    return np.split(s, np.cumsum(cn)[:-1]), nrm


_W3J = {}


def w3j_table(l):
    """T[m1 + l, m2 + l] = (l l l; m1 m2 -m1-m2) from the exact Racah formula (0 outside the range)"""
    if l not in _W3J:
        T = np.zeros((2 * l + 1, 2 * l + 1))
        for m1 in range(-l, l + 1):
            for m2 in range(-l, l + 1):
                if abs(m1 + m2) <= l:
                    T[m1 + l, m2 + l] = B.wigner3j_lll(l, m1, m2, -m1 - m2)
        _W3J[l] = T
    return _W3J[l]


def ref_w(q, l):
    """w_l = sum_{m1+m2+m3=0} (l l l; m1 m2 m3) Re(q_m1 q_m2 q_m3), w-hat = w / (sum |q_lm|^2)^(3/2); q: (..., 2l+1)"""
    T = w3j_table(l)
    w = np.zeros(q.shape[:-1])
    for m1 in range(-l, l + 1):
        for m2 in range(-l, l + 1):
            m3 = -m1 - m2
            if abs(m3) <= l and T[m1 + l, m2 + l] != 0.0:
                w = w + T[m1 + l, m2 + l] * (q[..., m1 + l] * q[..., m2 + l] * q[..., m3 + l]).real
    n2 = (np.abs(q) ** 2).sum(axis=-1)
    with np.errstate(all="ignore"):
        return w, w / n2**1.5


# ------------------------------------------------------------------------------------------ correlations
def ref_time_corr(series, steps, dt):
    """normalised autocorrelation; equal step differences -> all origins averaged, otherwise origin 0 only"""
    x = np.asarray(series)
    F = x.shape[0]
    x = x.reshape(F, -1)
    steps = [int(s) for s in steps]
    linear = len({steps[k + 1] - steps[k] for k in range(F - 1)}) == 1
    C = np.zeros(F)
    for k in range(F):
        if linear:
            C[k] = np.mean([(x[t0 + k] * np.conj(x[t0])).sum().real for t0 in range(F - k)])
        else:
            C[k] = (x[k] * np.conj(x[0])).sum().real
    t = np.array([(s - steps[0]) * dt for s in steps])
    with np.errstate(all="ignore"):
        return t, C / C[0], "linear" if linear else "log"


def ref_spatial(frames, Hs, ppp, w, conds):
    """frame mean of the conditional g(r) table: r, gr, gA (pair-weighted Re sum c_j conj c_i, normalised like g(r)), and
    whether some pair lies within 1e-9 (relative to the bin width) of a bin edge in some frame"""
    from mc.ref import scale as SC

    acc_g = acc_a = None
    amb_any = False
    for pos, H, c in zip(frames, Hs, conds):
        pos = np.asarray(pos, float)
        c = np.asarray(c)
        c2 = c.reshape(len(c), -1)
        n, d = pos.shape
        V = float(np.prod(np.diag(H)))
        cnt, ws, amb, nb = SC.weighted_hist(pos, H, ppp, w, lambda iu, ju: (c2[ju] * np.conj(c2[iu])).sum(axis=1).real)
        g, r = SC.gr_norm(cnt, n, n, V, w, d, True)
        a, _ = SC.gr_norm(ws, n, n, V, w, d, True)
        acc_g = g if acc_g is None else acc_g + g
        acc_a = a if acc_a is None else acc_a + a
        amb_any = amb_any or amb
    F = len(frames)
    return {"r": r, "gr": acc_g / F, "gA": acc_a / F, "amb": amb_any}
