"""Extra reference-model pieces for C04 (S(q)) and C13 (conditional g(r)/S(q)).

Complements mc/ref/grsq.py (ref_sq, ref_cond_gr, ref_cond_sq, pair_bins are reused from there):
  * the documented default wave-vector set incl. the `onlypositive` selections (independent enumeration)
  * clustering of |q| with a straddle screen for an arbitrary number of decimals
  * interval arithmetic for "per-vector value rounded to 10^-k, then mean over the |q| group"
  * a literal double-loop per-vector S_ab(q) (kept separate from the vectorised grsq.ref_sq so that the two
    references can be cross-checked against each other in the check itself)
Nothing here calls the functions under test."""
from __future__ import annotations

import itertools
import math

import numpy as np


# --------------------------------------------------------------------------------- wave vectors
def numofq_ref(L, qrange):
    """Documented rule: N = int(2 * qrange / min_axis(2 pi / L))."""
    L = [float(x) for x in L]
    return int(qrange * 2.0 / min(2.0 * math.pi / x for x in L))


def choose_ref(d, n, onlypositive):
    """All non-zero integer vectors with components in [-int(n/2), int(n/2)) whose norm is an integer, filtered by
    onlypositive: True -> all components >= 0; 'x'/'y'/'z' -> positive multiples of that axis only; False -> all.
    Returned as a sorted list of tuples."""
    nh = int(n / 2)
    out = []
    for v in itertools.product(range(-nh, nh), repeat=d):
        if not any(v):
            continue
        s = sum(x * x for x in v)
        if math.isqrt(s) ** 2 != s:
            continue
        if onlypositive is True:
            if any(x < 0 for x in v):
                continue
        elif onlypositive in ("x", "y", "z"):
            ax = "xyz".index(onlypositive)
            if ax >= d:
                raise ValueError("axis outside the dimension")
            if v[ax] <= 0 or any(x != 0 for k, x in enumerate(v) if k != ax):
                continue
        elif onlypositive is not False:
            raise ValueError(onlypositive)
        out.append(tuple(int(x) for x in v))
    return sorted(out)


def default_qset_ref(L, qrange, onlypositive):
    return choose_ref(len(L), numofq_ref(L, qrange), onlypositive)


# ------------------------------------------------------------------------------------ grouping
def group_norms(qn, decimals=6, tol=1e-9):
    """Cluster |q| values that agree within `tol`.  Returns a list of (key, index array) sorted by key where key is
    |q| rounded to `decimals`; returns None (=> screen the case) when the documented rounding cannot decide the
    grouping: a cluster whose members round to different keys or sit within 1e-3 units of the rounding boundary,
    or two different clusters that round to the same key."""
    qn = np.asarray(qn, float)
    if len(qn) == 0:
        return []
    order = np.argsort(qn, kind="stable")
    groups = [[int(order[0])]]
    for i in order[1:]:
        if qn[i] - qn[groups[-1][-1]] < tol:
            groups[-1].append(int(i))
        else:
            groups.append([int(i)])
    out = []
    for g in groups:
        ks = set(np.round(qn[g], decimals).tolist())
        if len(ks) != 1:
            return None
        x = qn[g] * 10.0**decimals
        if np.min(np.abs(x - np.floor(x) - 0.5)) < 1e-3:
            return None
        out.append((ks.pop(), np.array(sorted(g))))
    keys = [k for k, _ in out]
    if len(set(keys)) != len(keys):
        return None
    return out


def rounded_interval(v, decimals, eps_rel=1e-9, eps_abs=1e-11):
    """[lo, hi] of round(v', decimals) over all v' within the float tolerance of v."""
    v = np.asarray(v, float)
    e = eps_rel * np.maximum(1.0, np.abs(v)) + eps_abs
    return np.round(v - e, decimals), np.round(v + e, decimals)


def group_mean_interval(v, groups, decimals):
    """Per group: interval of mean(round(v_i, decimals))."""
    lo, hi = rounded_interval(v, decimals)
    glo = np.array([lo[idx].mean() for _, idx in groups])
    ghi = np.array([hi[idx].mean() for _, idx in groups])
    return glo, ghi


# ---------------------------------------------------------------------- literal S_ab(q), loops
def sq_loops(frames, L, types, qint):
    """S_ab per wave vector by explicit loops over frames, wave vectors and particles (no vectorisation):
    rho_a(q) = sum_{j in a} exp(-i q.r_j), S_ab = <Re[rho_a(q) rho_b(-q)]>_frames / sqrt(N_a N_b), S = <|rho|^2>/N."""
    L = [float(x) for x in L]
    # one species list for all frames, or one per frame (same composition, different assignment to ids)
    tframes = [[int(t) for t in tf] for tf in types] if np.ndim(types[0]) > 0 else [[int(t) for t in types]] * len(frames)
    types = tframes[0]
    tl = sorted(set(types))
    K = len(tl)
    N = len(types)
    Na = {t: types.count(t) for t in tl}
    nq = len(qint)
    names = ["Sq"]
    if 1 < K <= 5:
        names += [f"Sq{a}{a}" for a in tl] + [f"Sq{a}{b}" for a in tl for b in tl if a < b]
    acc = {c: [0.0] * nq for c in names}
    qn = []
    for k, n in enumerate(qint):
        q = [2.0 * math.pi * n[a] / L[a] for a in range(len(L))]
        qn.append(math.sqrt(sum(x * x for x in q)))
        for pos, types in zip(frames, tframes):
            rho = {t: 0j for t in tl}
            rho_m = {t: 0j for t in tl}  # density mode at -q
            for j, r in enumerate(pos):
                ph = sum(q[a] * r[a] for a in range(len(L)))
                rho[types[j]] += complex(math.cos(ph), -math.sin(ph))
                rho_m[types[j]] += complex(math.cos(ph), math.sin(ph))
            tot = sum(rho.values())
            tot_m = sum(rho_m.values())
            acc["Sq"][k] += (tot * tot_m).real / N
            for c in names[1:]:
                a, b = int(c[2]), int(c[3])
                acc[c][k] += (rho[a] * rho_m[b]).real / math.sqrt(Na[a] * Na[b])
    F = len(frames)
    return {c: np.array(v) / F for c, v in acc.items()}, np.array(qn)


def expected_columns(types, prefix):
    tl = sorted(set(int(t) for t in types))
    K = len(tl)
    cols = [prefix]
    if 1 < K <= 5:
        cols += [f"{prefix}{a}{a}" for a in tl] + [f"{prefix}{a}{b}" for a in tl for b in tl if a < b]
    return cols


# -------------------------------------------------------------- conditional variants (C13)
def pair_weight(ci, cj, kind):
    """w_ij of the statement: Re(A_i conj A_j); dot product for vectors; trace of the product for tensors."""
    if kind == "bool":
        return 1.0 if (bool(ci) and bool(cj)) else 0.0
    if kind in ("float", "complex"):
        return float((complex(ci) * complex(cj).conjugate()).real)
    if kind in ("vector", "cvector"):
        return float(sum((complex(a) * complex(b).conjugate()).real for a, b in zip(ci, cj)))
    if kind == "tensor":
        ci = np.asarray(ci)
        cj = np.asarray(cj)
        n = ci.shape[0]
        return float(sum(ci[a][b] * cj[b][a] for a in range(n) for b in range(n)))
    raise ValueError(kind)


def cond_gr_loops(pos, H, ppp, w, cond, kind, pair_bins, shell_volumes):
    """Weighted pair histogram of the statement (loops over unordered pairs).  Returns dict with r, gr, gA, gA_norm
    (None unless kind == 'float' with non-zero variance) and `ambiguous` (True if a pair sits on a bin edge)."""
    H = np.asarray(H, float)
    d = H.shape[0]
    L = np.diag(H)
    V = float(np.prod(L))
    nb = int(L.min() / 2.0 / w)
    N = len(pos)
    cnt = np.zeros(nb)
    wsum = np.zeros(nb)
    ambiguous = False
    for (i, j, rr, k, amb) in pair_bins(pos, H, ppp, w, nb):
        if amb is not None:
            if k < nb or amb < nb:
                ambiguous = True
            continue
        if 0 <= k < nb:
            cnt[k] += 1.0
            wsum[k] += pair_weight(cond[i], cond[j], kind)
    shell, e = shell_volumes(nb, w, d)
    NA = sum(1 for c in cond if bool(c)) if kind == "bool" else N
    r = e[1:] - w / 2.0
    out = {"r": r, "gr": 2.0 * V * cnt / (N * N) / shell, "ambiguous": ambiguous, "count": cnt,
           "gA": (2.0 * V * wsum / (NA * NA) / shell) if NA else None, "gA_norm": None}
    if kind == "float":
        A = [float(c) for c in cond]
        m1 = (sum(A) / N) ** 2
        m2 = sum(a * a for a in A) / N
        if abs(m2 - m1) > 1e-12:
            out["gA_norm"] = (out["gA"] - m1) / (m2 - m1)
    return out


def cond_sq_loops(pos, L, qint, cond, kind):
    """|sum_i A_i exp(-i q.r_i)|^2 / N per wave vector (selected particles and their count for bool; summed over
    components for vectors).  Loops."""
    L = [float(x) for x in L]
    d = len(L)
    N = len(pos)
    out = []
    qn = []
    for n in qint:
        q = [2.0 * math.pi * n[a] / L[a] for a in range(d)]
        qn.append(math.sqrt(sum(x * x for x in q)))
        if kind in ("vector", "cvector"):
            ncomp = len(cond[0])
            amp = [0j] * ncomp
            for j, r in enumerate(pos):
                ph = sum(q[a] * r[a] for a in range(d))
                e = complex(math.cos(ph), -math.sin(ph))
                for c in range(ncomp):
                    amp[c] += complex(cond[j][c]) * e
            out.append(sum(abs(a) ** 2 for a in amp) / N)
        else:
            amp = 0j
            M = 0
            for j, r in enumerate(pos):
                ph = sum(q[a] * r[a] for a in range(d))
                e = complex(math.cos(ph), -math.sin(ph))
                if kind == "bool":
                    if bool(cond[j]):
                        amp += e
                        M += 1
                else:
                    amp += complex(cond[j]) * e
                    M = N
            out.append(abs(amp) ** 2 / M)
    return np.array(out), np.array(qn)
