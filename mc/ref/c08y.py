"""Alphabets of the round-4 storage-type slice of C08 (L5): both angles as numpy 0-d ARRAYS (not scalars) of three dtypes and the
degree l as a numpy integer of several widths.  No library call here."""
from __future__ import annotations

import numpy as np

# 0-d arrays: what `np.array(x)`, `arr.sum()` with keepdims tricks, `np.asarray(scalar)` or indexing with an Ellipsis hand to a caller
ZERO_D_FORMS = ["0d.float64", "0d.float32", "0d.int64"]
MAKERS = {
    "0d.float64": lambda x: np.array(float(x)),
    "0d.float32": lambda x: np.array(x, dtype=np.float32),
    "0d.int64": lambda x: np.array(int(x)),
}
# the degree as a numpy integer (signed widths that hold 2l+1 for l <= 20; unsigned types are outside `l (int)`: -l wraps around)
L_TYPES = {"int64": np.int64, "int32": np.int32, "int16": np.int16, "int8": np.int8}
