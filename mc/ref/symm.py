"""C07 helpers: configurations, symmetry generators, the explicit-state search over generator words,
margin screening of base configurations and the mapping of observables through a group element.

A configuration is a plain dict
    d, H (d x d, rows = cell vectors), lo (origin), frames (list of (N,d) arrays), types (N ints), ppp (d ints)
A group element is tracked next to it:
    perm   image row j carries base particle perm[j]
    axes   image axis a is base axis axes[a]
    smap   image species of base species t is smap[t]
    scale  product of the dilations applied
    parity -1 after an odd number of reflections (odd axis permutations)
Nothing here calls an analysis routine of the library."""
from __future__ import annotations

import hashlib
import itertools
import math

import numpy as np

from mc import alphabets as A

EDGE_TOL = 1e-9
MARGIN = 1e-6


# ------------------------------------------------------------------------------------ geometry
def minimg_rows(dr, H, ppp):
    """Independent minimum image of row vectors (half-cell convention on fractional coordinates)."""
    s = np.linalg.solve(np.asarray(H, float).T, np.asarray(dr, float).T).T
    s = s - np.floor(s + 0.5) * np.asarray(ppp)
    return s @ np.asarray(H, float)


def row_vectors(pos, H, ppp, i):
    v = minimg_rows(pos - pos[i], H, ppp)
    return v, np.sqrt((v * v).sum(axis=1))


def tie_margin(dr, H, ppp):
    """distance of the periodic fractional coordinates of dr from a half-integer"""
    m = np.asarray(ppp).astype(bool)
    if not m.any():
        return 1.0
    s = np.linalg.solve(np.asarray(H, float).T, np.asarray(dr, float).T).T[:, m]
    f = np.abs((s - 0.5) - np.round(s - 0.5))
    return float(f.min()) if f.size else 1.0


def rot2(theta):
    c, s = math.cos(theta), math.sin(theta)
    return np.array([[c, -s], [s, c]])


def rot3(axis, theta):
    n = np.asarray(axis, float)
    n = n / np.linalg.norm(n)
    K = np.array([[0, -n[2], n[1]], [n[2], 0, -n[0]], [-n[1], n[0], 0]])
    return np.eye(3) + math.sin(theta) * K + (1 - math.cos(theta)) * (K @ K)


ROT = {
    2: [rot2(2 * math.pi / 7), rot2(1.0)],
    3: [rot3([1, 2, 3], 1.0), rot3([-2, 1, 1], 2 * math.pi / 7), rot3([1, -1, 2], 2.5)],
}


# ------------------------------------------------------------------------------ group elements
def identity(cfg):
    tl = sorted(set(int(t) for t in cfg["types"]))
    return {"perm": list(range(len(cfg["types"]))), "smap": {t: t for t in tl}, "scale": 1.0, "parity": 1,
            "axes": list(range(cfg["d"]))}


def copy_cfg(c):
    return {"d": c["d"], "H": c["H"].copy(), "lo": c["lo"].copy(), "frames": [f.copy() for f in c["frames"]],
            "types": c["types"].copy(), "ppp": list(c["ppp"])}


def perm_sign(p):
    p = list(p)
    s = 1
    for i in range(len(p)):
        while p[i] != i:
            j = p[i]
            p[i], p[j] = p[j], p[i]
            s = -s
    return s


def slot(n, code):
    return {"0": 0, "m": n // 2, "l": n - 1}[code]


def kind_of(name):
    return {"T": "trans", "S": "shift", "F": "shift", "P": "idperm", "X": "swap", "A": "axperm", "R": "rot", "D": "dil"}[name[0]]


def apply_gen(cfg, el, name, seed):
    """Returns (new cfg, new element).  Generator names:
    T0 T1            rigid translation by a generic vector (given in cell coordinates, so it scales with the cell)
    S<p><+|-><k>     particle slot p in {0,m,l} shifted by +/- cell vector k in every frame
    F<p><+|-><k>     the same in the last frame only (an image shift of one frame of a wrapped trajectory)
    Pswap Prev Pcyc  relabelling: rows 0<->1, reversal, cyclic shift by one
    X12 X1K          species labels exchanged
    A<perm>          axis permutation applied to coordinates, cell rows and columns, origin and ppp
    R<k>             rotation about the origin (open boundaries only; the cell is irrelevant and kept)
    D2 Dh D3         dilation of coordinates, cell and origin by 2, 1/2, 3"""
    c = copy_cfg(cfg)
    e = {"perm": list(el["perm"]), "smap": dict(el["smap"]), "scale": el["scale"], "parity": el["parity"],
         "axes": list(el["axes"])}
    d = c["d"]
    n = len(c["types"])
    k = name[0]
    if k == "T":
        tf = np.array([A.jitter(seed, f"c07{name}", a, 0.45) + (0.7 if name == "T1" else -0.2) for a in range(d)])
        t = tf @ c["H"]
        c["frames"] = [f + t for f in c["frames"]]
    elif k in "SF":
        i = slot(n, name[1])
        sgn = 1.0 if name[2] == "+" else -1.0
        vec = sgn * c["H"][int(name[3])]
        fr = range(len(c["frames"])) if k == "S" else [len(c["frames"]) - 1]
        for f in fr:
            c["frames"][f][i] = c["frames"][f][i] + vec
    elif k == "P":
        if name == "Pswap":
            p = [1, 0] + list(range(2, n))
        elif name == "Prev":
            p = list(range(n))[::-1]
        else:
            p = list(range(1, n)) + [0]
        c["frames"] = [f[p] for f in c["frames"]]
        c["types"] = c["types"][p]
        e["perm"] = [e["perm"][j] for j in p]
    elif k == "X":
        tl = sorted(set(int(t) for t in c["types"]))
        a, b = (tl[0], tl[1]) if name == "X12" else (tl[0], tl[-1])
        sw = {a: b, b: a}
        c["types"] = np.array([sw.get(int(t), int(t)) for t in c["types"]], dtype=int)
        e["smap"] = {t: sw.get(v, v) for t, v in e["smap"].items()}
    elif k == "A":
        p = [int(ch) for ch in name[1:]]
        c["frames"] = [f[:, p] for f in c["frames"]]
        c["H"] = c["H"][np.ix_(p, p)]
        c["lo"] = c["lo"][p]
        c["ppp"] = [c["ppp"][a] for a in p]
        e["parity"] *= perm_sign(p)
        e["axes"] = [e["axes"][a] for a in p]
    elif k == "R":
        Rm = ROT[d][int(name[1])]
        c["frames"] = [f @ Rm.T for f in c["frames"]]
    elif k == "D":
        s = {"D2": 2.0, "Dh": 0.5, "D3": 3.0}[name]
        c["frames"] = [f * s for f in c["frames"]]
        c["H"] = c["H"] * s
        c["lo"] = c["lo"] * s
        e["scale"] *= s
    else:
        raise ValueError(name)
    return c, e


def applicable(cfg, name):
    """a whole-cell shift is a symmetry only along an axis that is periodic in the CURRENT configuration"""
    if name[0] in "SF":
        return bool(cfg["ppp"][int(name[3])])
    return True


def apply_word(cfg, word, seed):
    el = identity(cfg)
    for g in word:
        assert applicable(cfg, g), (word, g)
        cfg, el = apply_gen(cfg, el, g, seed)
    return cfg, el


def state_key(cfg, el):
    h = hashlib.sha1()
    for f in cfg["frames"]:
        h.update(np.ascontiguousarray(f).tobytes())
    h.update(np.ascontiguousarray(cfg["types"].astype(np.int64)).tobytes())
    h.update(np.ascontiguousarray(cfg["H"]).tobytes())
    h.update(np.ascontiguousarray(cfg["lo"]).tobytes())
    h.update(bytes(cfg["ppp"]))
    h.update(repr((el["perm"], sorted(el["smap"].items()), el["scale"], el["axes"])).encode())
    return h.digest()


def bfs(cfg, gens, depth, seed):
    """Breadth-first search over words of `gens` up to `depth`; states are de-duplicated by the exact bytes of
    the configuration (+ the group element).  Returns ([(word, n_in)], n_transitions); the root is not listed."""
    root = state_key(cfg, identity(cfg))
    seen = {root: [(), 0]}
    order = []
    frontier = [((), cfg, identity(cfg))]
    ntrans = 0
    for _ in range(depth):
        nxt = []
        for word, c, e in frontier:
            for g in gens:
                if not applicable(c, g):
                    continue
                c2, e2 = apply_gen(c, e, g, seed)
                ntrans += 1
                key = state_key(c2, e2)
                if key in seen:
                    seen[key][1] += 1
                    continue
                w2 = word + (g,)
                seen[key] = [w2, 1]
                order.append(key)
                nxt.append((w2, c2, e2))
        frontier = nxt
    return [(list(seen[k][0]), seen[k][1]) for k in order], ntrans


# ------------------------------------------------------------------------------ generator sets
def generators(cfg, tier, trans=True, shift=True, frameshift=False, idperm=True, swap=True, axperm=True, rot=False, dil=False):
    d = cfg["d"]
    n = len(cfg["types"])
    g = []
    if trans:
        g += ["T0", "T1"]
    # all axes of a (partly) periodic cell: an axis permutation moves the periodic axes; bfs() filters by state
    per = list(range(d)) if any(cfg["ppp"]) else []
    if shift and per:
        slots = ["0", "l"] if tier == "quick" else ["0", "m", "l"]
        for s in slots:
            for a in per:
                for sg in "+-":
                    g.append(f"S{s}{sg}{a}")
    if frameshift and per and len(cfg["frames"]) > 1:
        for a in per:
            g.append(f"Fm{'+-'[a % 2]}{a}")
    if idperm and n >= 3:
        g += ["Pswap", "Prev", "Pcyc"]
    K = len(set(int(t) for t in cfg["types"]))
    if swap and K >= 2:
        g.append("X12")
        if K >= 3:
            g.append("X1K")
    if axperm:
        for p in itertools.permutations(range(d)):
            if list(p) != list(range(d)):
                g.append("A" + "".join(str(a) for a in p))
    if rot and not any(cfg["ppp"]):
        g += [f"R{k}" for k in range(len(ROT[d]))]
    if dil:
        g += ["D2", "Dh"] + (["D3"] if tier == "thorough" else [])
    return g


# --------------------------------------------------------------------------- species parameters
def map_matrix(M, smap):
    """parameter matrix indexed by (species-1): entry of the image pair (smap a, smap b) = entry of (a, b)"""
    M = np.asarray(M, float)
    out = M.copy()
    for a, ia in smap.items():
        for b, ib in smap.items():
            out[ia - 1, ib - 1] = M[a - 1, b - 1]
    return out


def map_dict(D, smap):
    return {smap[a]: v for a, v in D.items()}


def map_colname(name, prefix, smap):
    """'gr12' -> 'gr' + sorted image digits; the total column is unchanged"""
    tail = name[len(prefix):]
    if not tail:
        return name
    return prefix + "".join(str(x) for x in sorted(smap[int(ch)] for ch in tail))


def inv_perm(perm):
    inv = [0] * len(perm)
    for j, b in enumerate(perm):
        inv[b] = j
    return inv


def map_neighbors(nl, perm):
    """neighbour lists of the base (0-based, per base particle) -> lists of the image (per image row)"""
    inv = inv_perm(perm)
    return [[inv[b] for b in nl[perm[j]]] for j in range(len(perm))]


# ----------------------------------------------------------------------------------- screening
def pair_stats(cfg, frame=0, knn=(), cuts=()):
    """One pass over all rows: minimum pair distance, rint-tie margin, for each k in knn the neighbour lists and
    the smallest gap between the k-th and (k+1)-th distance per particle, for each cutoff the smallest |r - cut|
    per particle (cut may be an (N,) array per row)."""
    pos = cfg["frames"][frame]
    H, ppp = cfg["H"], cfg["ppp"]
    n = len(pos)
    out = {"dmin": np.inf, "tie": 1.0, "knn": {k: [] for k in knn}, "gap": {k: np.zeros(n) for k in knn},
           "cutgap": [np.zeros(n) for _ in cuts], "cutsets": [[] for _ in cuts]}
    for i in range(n):
        dr = pos - pos[i]
        out["tie"] = min(out["tie"], tie_margin(np.delete(dr, i, axis=0), H, ppp))
        v = minimg_rows(dr, H, ppp)
        r = np.sqrt((v * v).sum(axis=1))
        r[i] = np.inf
        out["dmin"] = min(out["dmin"], float(r.min()))
        o = np.argsort(r, kind="stable")
        for k in knn:
            out["knn"][k].append([int(x) for x in o[:k]])
            out["gap"][k][i] = r[o[k]] - r[o[k - 1]] if k < n - 1 else np.inf
        for ci, cut in enumerate(cuts):
            cc = np.asarray(cut[i] if np.ndim(cut) == 2 else cut, float)
            rr = np.where(np.isfinite(r), r, 1e300)
            out["cutgap"][ci][i] = float(np.abs(rr - cc).min())
            out["cutsets"][ci].append(sorted(int(x) for x in np.nonzero(rr <= cc)[0]))
    return out


def ambiguous_bins(cfg, w, nb, scale_tol=EDGE_TOL):
    """bins of the pair histogram (width w, nb bins) next to an edge that some pair distance of some frame
    touches within EDGE_TOL (relative to w): True = do not compare"""
    amb = np.zeros(nb, bool)
    pop = np.zeros(nb)
    for pos in cfg["frames"]:
        n = len(pos)
        for i in range(n - 1):
            v = minimg_rows(pos[i + 1:] - pos[i], cfg["H"], cfg["ppp"])
            x = np.sqrt((v * v).sum(axis=1)) / w
            near = np.abs(x - np.round(x)) < scale_tol / min(1.0, w) + 4e-13 * np.maximum(1.0, x)
            for e in np.unique(np.round(x[near]).astype(int)):
                for kk in (e - 1, e):
                    if 0 <= kk < nb:
                        amb[kk] = True
            kx = np.floor(x).astype(int)
            kx = kx[(kx >= 0) & (kx < nb)]
            np.add.at(pop, kx, 1)
    return amb, pop


def dyadic(x, bits=12):
    return float(x) * 2**bits == math.floor(float(x) * 2**bits)


def maxbin_ok(L, w):
    """int(Lmin/2/w) must not depend on rounding: exact (dyadic data) or away from an integer"""
    x = min(L) / 2.0 / w
    if all(dyadic(v) for v in L) and dyadic(w):
        return True
    return abs(x - round(x)) > 1e-6


# ----------------------------------------------------------------------------- synthetic bases
def type_pattern(n, K):
    pat = {2: [1, 2, 1, 1, 2, 1, 2, 1, 1, 2, 1, 2], 3: [1, 2, 3, 1, 2, 1, 3, 2, 1, 1, 2, 3], 1: [1] * 12}[K]
    return np.array(pat[:n], dtype=int)


BOX = {2: [4.0, 5.0], 3: [3.0, 3.5, 4.0]}
TILT = {2: [0.75], 3: [0.75, -0.5, 1.0]}


def synthetic(bid, seed, nframes=3):
    """bid = '<d><cell><K>' with cell in o (orthogonal), t (triclinic), m (orthogonal, one open axis),
    c (open cluster).  Deterministic: the first candidate placement (jitter-table tags t = 0,1,...) that passes the
    margin screening is used, so every seed exhausts one fixed alphabet."""
    d = int(bid[0])
    cell = bid[1]
    K = int(bid[2])
    n = 7 if d == 2 else 9
    L = BOX[d]
    H = A.hmat_tri(L, TILT[d] if cell == "t" else [0.0] * (1 if d == 2 else 3))
    ppp = [1] * d
    if cell == "m":
        ppp = [0, 1] if d == 2 else [1, 0, 1]
    if cell == "c":
        ppp = [0] * d
    types = type_pattern(n, K)
    for t in range(400):
        fr = np.array(A.generic_points(seed, n, d, tag=f"c07{bid}_{t}_"))
        if cell == "c":
            pos = (fr - 0.5) * (2.6 if d == 3 else 3.0) + np.array(L) / 2  # compact cluster inside the cell
        else:
            pos = fr @ H
        frames = [pos]
        for f in range(1, nframes):
            jit = np.array([[A.jitter(seed, f"c07{bid}_{t}_f{f}_{i}", a, 0.35) for a in range(d)] for i in range(n)])
            frames.append(pos + jit)
        cfg = {"d": d, "H": H.copy(), "lo": np.zeros(d), "frames": frames, "types": types.copy(), "ppp": list(ppp)}
        if screen_synthetic(cfg):
            return cfg
    raise RuntimeError(f"no admissible placement for base {bid} seed {seed}")


# parameters of the observables on synthetic bases (shared by screening and the check)
SYN = {
    "rdelta": [0.125, 0.22],
    "knn": {2: 3, 3: 4},          # neighbours used for the bond-order files
    "nn_N": {2: [2, 5], 3: [3, 7]},  # Nnearests N
    "rcut": {2: 1.6, 3: 1.9},
    "rcut_type": np.array([[1.5, 1.8, 1.3], [1.8, 2.1, 1.7], [1.3, 1.7, 1.9]]),
    "s2": {"rdelta": 0.1, "ndelta": 22, "sigmas": np.array([[0.5, 0.55, 0.45], [0.55, 0.6, 0.5], [0.45, 0.5, 0.65]])},
    "hess": {"eps": np.array([[1.0, 1.5, 0.8], [1.5, 0.5, 1.2], [0.8, 1.2, 0.9]]),
             "sig": np.array([[1.0, 0.8, 0.9], [0.8, 0.88, 0.85], [0.9, 0.85, 0.95]]),
             "masses": {1: 1.0, 2: 2.5, 3: 0.7}},
    "dyn": {"diameters": {1: 1.0, 2: 1.3, 3: 0.8}, "a": 0.3},
}


def hess_rc(model):
    sig = SYN["hess"]["sig"]
    return sig * 2.0 if model != "hertz" else sig * 1.7


def screen_synthetic(cfg):
    """All discrete decisions any observable takes on this base (and hence on its images) have a margin."""
    d = cfg["d"]
    n = len(cfg["types"])
    H, ppp = cfg["H"], cfg["ppp"]
    L = np.diag(H)
    ty = cfg["types"] - 1
    s2rmax = (SYN["s2"]["ndelta"] - 1) * SYN["s2"]["rdelta"] + SYN["s2"]["rdelta"] / 2
    rct = SYN["rcut_type"][np.ix_(ty, ty)]
    cuts = [SYN["rcut"][d], rct, s2rmax, hess_rc("lj")[np.ix_(ty, ty)], hess_rc("hertz")[np.ix_(ty, ty)]]
    for f in range(len(cfg["frames"])):
        ks = sorted(set([SYN["knn"][d]] + SYN["nn_N"][d] + ([4] if d == 3 else [])))
        st = pair_stats(cfg, f, knn=ks, cuts=cuts)
        if st["dmin"] < (0.75 if f == 0 else 0.3) or st["tie"] < 1e-4:
            return False
        if any(st["gap"][k].min() < 1e-4 for k in ks):
            return False
        if any(g.min() < 1e-4 for g in st["cutgap"]):
            return False
        if f == 0 and any(len(x) == 0 for x in st["cutsets"][2]):
            return False  # S2 of a particle with no neighbour inside the range is 0*log(0) (outside the documented domain)
    for w in SYN["rdelta"]:
        if not maxbin_ok(L, w):
            return False
        amb, pop = ambiguous_bins(cfg, w, int(L.min() / 2.0 / w))
        if amb.any() or (pop > 0).sum() < 3:
            return False
    # dynamics: displacement between any two frames: no rint tie, no overlap-threshold tie
    dia = np.array([SYN["dyn"]["diameters"][int(t)] for t in cfg["types"]])
    a2 = (dia * SYN["dyn"]["a"]) ** 2
    F = len(cfg["frames"])
    for f0 in range(F):
        for f1 in range(f0 + 1, F):
            dr = cfg["frames"][f1] - cfg["frames"][f0]
            if tie_margin(dr, H, [1] * d) < 1e-4:
                return False
            v = minimg_rows(dr, H, [1] * d)
            for vv in (v, dr):
                r2 = (vv * vv).sum(axis=1)
                if np.abs(r2 - a2).min() < 1e-6:
                    return False
    return True


# ----------------------------------------------------------------------------------- comparing
def close(a, b, rtol=1e-9, atol=1e-11):
    a = np.asarray(a, float)
    b = np.asarray(b, float)
    if a.shape != b.shape:
        return False
    return bool(np.allclose(a, b, rtol=rtol, atol=atol, equal_nan=True))


def worst(a, b):
    a = np.asarray(a, float)
    b = np.asarray(b, float)
    if a.shape != b.shape:
        return f"shape {a.shape} vs {b.shape}"
    if not a.size:
        return 0.0
    with np.errstate(all="ignore"):
        return float(np.nanmax(np.abs(a - b)))


def parse_neighbor_file(path, n):
    """Independent parser of the 'id cn neighbours' blocks the neighbour routines write: list (per frame) of
    dict id-1 -> (cn, [neighbour ids - 1])"""
    frames = []
    with open(path) as f:
        toks = f.read().replace("[", " ").replace("]", " ").split("\n")
    cur = None
    for ln in toks:
        it = ln.split()
        if not it:
            continue
        if it[0] == "id":
            cur = {}
            frames.append(cur)
            continue
        cur[int(it[0]) - 1] = (int(it[1]), [int(x) - 1 for x in it[2:]])
    return frames
