"""Helpers for the strengthened C02 slices (scale / argument forms / huge shifts / call sequences).

Nothing here calls the library except `forked`, which only runs a callable of the check in a forked child.
All numbers are dyadic (odd multiples of 1/16, integer cell entries or powers of two) so that the minimum-image
reference  (s - rint(s) * ppp) H  is exact in double precision and no half-cell tie can occur.
"""
from __future__ import annotations

import json
import os

import numpy as np

V64 = [(2 * k - 63) / 16.0 for k in range(64)]  # odd/16 in [-63/16, 63/16]: never k/2
V56 = [v for v in V64 if abs(v) > 0.5]  # ... and always moved by the minimum image
_MULT = (7, 11, 13)
_OFF = (3, 5, 1)


def frac_rows(n, d, salt=0):
    """n fractional rows (n, d) on the odd/16 grid; one fixed value pattern per size.  Two rows out of three, and the
    last two rows, have |s_a| > 1/2 on every axis (so every block boundary and the tail are really moved)."""
    s = np.empty((n, d))
    for i in range(n):
        tab = V56 if (i % 3 or i >= n - 2) else V64
        for a in range(d):
            s[i, a] = tab[(i * _MULT[a] + _OFF[a] + 17 * salt) % len(tab)]
    return s


def int_rows(n, d, salt=0):
    """n integer-valued displacement rows (odd integers in [-31, 31])"""
    r = np.empty((n, d), dtype=np.int64)
    for i in range(n):
        for a in range(d):
            r[i, a] = 2 * ((i * _MULT[a] + _OFF[a] + 5 * salt) % 32) - 31
    return r


def is_orthogonal(H):
    G = np.asarray(H, float) @ np.asarray(H, float).T
    return bool(np.allclose(G, np.diag(np.diag(G)), rtol=0, atol=1e-12 * np.abs(G).max()))


def frac(r, H):
    """fractional coordinates by an independent route (solve, no explicit inverse)"""
    r = np.atleast_2d(np.asarray(r, float))
    return np.linalg.solve(np.asarray(H, float).T, r.T).T


# ---------------------------------------------------------------------------------------- cells
CELLS_SCALE = {
    2: [
        [[4.0, 0.0], [0.0, 8.0]],
        [[4.0, 0.0], [1.0, 8.0]],
        [[3.0, 1.0], [-1.0, 4.0]],
    ],
    3: [
        [[4.0, 0.0, 0.0], [0.0, 8.0, 0.0], [0.0, 0.0, 6.0]],
        [[4.0, 0.0, 0.0], [1.0, 8.0, 0.0], [-1.0, 1.0, 6.0]],
        [[4.0, 1.0, 0.5], [-1.0, 5.0, 1.0], [0.5, -1.0, 6.0]],
    ],
}

# rotated / non-triangular cells: a quarter turn (zero diagonal), a 3-4-5 rotation times 5 (orthogonal, no zero entry),
# a cyclic permutation of the axes, upper-triangular, and a sheared rotated cell
CELLS_GENERAL = {
    2: [
        [[0.0, 4.0], [-8.0, 0.0]],
        [[3.0, 4.0], [-4.0, 3.0]],
        [[4.0, 1.0], [0.0, 8.0]],
        [[1.0, 4.0], [-8.0, 2.0]],
    ],
    3: [
        [[0.0, 4.0, 0.0], [0.0, 0.0, 8.0], [6.0, 0.0, 0.0]],
        [[3.0, 4.0, 0.0], [-4.0, 3.0, 0.0], [0.0, 0.0, 6.0]],
        [[4.0, 1.0, -1.0], [0.0, 8.0, 1.0], [0.0, 0.0, 6.0]],
        [[1.0, 4.0, 0.0], [0.0, 1.0, 8.0], [6.0, 0.0, 2.0]],
    ],
}

# huge / tiny aspect ratios (entries are powers of two or small integers: the inverse is exact)
CELLS_ASPECT = {
    2: [
        [[2.0**-10, 0.0], [0.0, 2.0**10]],
        [[1024.0, 0.0], [0.25, 2.0**-10]],
        [[4.0, 0.0], [1000.0, 8.0]],
        [[2.0**-20, 0.0], [0.0, 2.0**-20]],
        [[2.0**20, 0.0], [2.0**18, 2.0**21]],
    ],
    3: [
        [[1.0, 0.0, 0.0], [0.0, 1024.0, 0.0], [0.0, 0.0, 2.0**-10]],
        [[2.0**-10, 0.0, 0.0], [2.0**-12, 2.0**10, 0.0], [2.0**-12, 256.0, 1.0]],
        [[4.0, 0.0, 0.0], [1000.0, 8.0, 0.0], [-500.0, 2000.0, 6.0]],
    ],
}

# numbers of whole cells added along a periodic axis (above int16 / uint16 / int32 ranges, up to 3e9)
BIG = [0, 1, -3, 1000, -32767, 32768, 40000, -70000, 10**6, -(2**31), 2**31 + 5, 3 * 10**9]


# ---------------------------------------------------------------------------------------- fork
def forked(fn, *args):
    """run fn(*args) in a forked child of this worker (fresh copy of the process state at this point);
    returns {"ok": json-able result} or {"err": text}"""
    rd, wr = os.pipe()
    pid = os.fork()
    if pid == 0:
        try:
            os.close(rd)
            try:
                payload = {"ok": fn(*args)}
            except BaseException as e:  # noqa: BLE001
                payload = {"err": f"{type(e).__name__}: {e}"}
            data = json.dumps(payload).encode()
            while data:
                k = os.write(wr, data)
                data = data[k:]
        finally:
            os._exit(0)
    os.close(wr)
    buf = b""
    while True:
        ch = os.read(rd, 1 << 16)
        if not ch:
            break
        buf += ch
    os.close(rd)
    os.waitpid(pid, 0)
    return json.loads(buf.decode()) if buf else {"err": "child died"}
