"""Helpers for the round-4 slices of C13 (storage forms of condition / positions / wave vectors, exact values, unwrapped coordinates,
documented defaults).

  * `pair_bins_tol(tol)`: the pair-binning function expected by mc.ref.c04c13.cond_gr_loops with the bin-edge tolerance as a parameter
    (float32 positions) and with distances below half a bin width placed in bin 0 for sure (coincident particles: there is no bin on
    the other side of r = 0)
  * point sets of four particles: dyadic (origin, face, coincident pair), generic, generic displaced by whole cell vectors
Storage forms themselves live in mc/ref/c03y.py.  Nothing here calls the routines under test."""
from __future__ import annotations

import math

import numpy as np

from mc import alphabets as A
from mc.ref.base import minimg

UNWRAP_N = [0, 2, -3, 4]
COND_FORMS = {"bool": ["bool"], "float": ["float64", "float32", "int32"], "complex": ["complex128"],
              "vector": ["float64", "float32", "int32"], "cvector": ["complex128"], "tensor": ["float64", "float32", "int32"]}


def pair_bins_tol(edge_tol):
    def pair_bins(pos, H, ppp, w, nb):
        pos = np.asarray(pos, float)
        out = []
        n = len(pos)
        for i in range(n - 1):
            v = minimg(pos[i + 1:] - pos[i], H, ppp)
            for jj in range(len(v)):
                rr = math.sqrt(float((v[jj] * v[jj]).sum()))
                x = rr / w
                e = int(round(x))
                if rr < 0.5 * w:
                    out.append((i, i + 1 + jj, rr, 0, None))
                elif abs(x - e) * w < edge_tol:
                    out.append((i, i + 1 + jj, rr, e - 1, e))
                else:
                    out.append((i, i + 1 + jj, rr, int(math.floor(x)), None))
        return out

    return pair_bins


def ambiguous(pos, H, ppp, w, edge_tol):
    nb = int(float(np.diag(np.asarray(H, float)).min()) / 2.0 / w)
    return any(amb is not None and (k < nb or amb < nb) for (_, _, _, k, amb) in pair_bins_tol(edge_tol)(pos, H, ppp, w, nb))


def dyadic4(d, L):
    """origin, a particle on the face x = L_x, two coincident particles on the face y = 0 (all coordinates dyadic)"""
    p = [[0.0, 0.0, 0.0], [float(L[0]), 2.5, 3.125], [2.5, 0.0, 1.25], [2.5, 0.0, 1.25]]
    return np.array([q[:d] for q in p])


def dyadic4_frac(d, L):
    """the same classes at dyadic fractions of the box edges (for S(q): phases are multiples of pi / 8)"""
    f = [[0.0, 0.0, 0.0], [1.0, 0.25, 0.375], [0.25, 0.0, 0.75], [0.25, 0.0, 0.75]]
    return np.array([q[:d] for q in f]) * np.asarray(L, float)[:d]


def generic4(seed, H, tag):
    """four generic points scattered around the cell corner THROUGH the periodic faces (every close pair is close via the image)"""
    H = np.asarray(H, float)
    g = (np.array(A.generic_points(seed, 4, H.shape[0], tag=tag)) - 0.5) * 0.5
    return ((g * 0.97) % 1.0) @ H


def unwrap(pos, H, mask, pattern=0):
    pos = np.asarray(pos, float)
    n, d = pos.shape
    sh = np.array([[UNWRAP_N[(i + 2 * a + pattern + (i * a) % 3 + 1) % 4] if mask[a] else 0 for a in range(d)] for i in range(n)], float)
    return pos + sh @ np.asarray(H, float)
