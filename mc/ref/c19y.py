"""Round-4 helpers of the C19 check (docs/STRENGTHEN_TASK2.md): end-of-file forms of LAMMPS logs, exact zeros in column values,
argument storage forms, call sequences.  Encoders / expectations only; the only library calls are in `seq_child`, the body of the
forked child of C19.sequence (it makes the calls of one word and serialises what they return).
"""
from __future__ import annotations

import numpy as np

from mc.ref import c01y, c19x, io19

# ------------------------------------------------------------------------------------------- log end-of-file forms
# complete logs: the file ends after the last 'Loop time of' line (+ optional wall-time / timing noise)
LOG_ENDS_COMPLETE = ["nl", "nonl", "blank1", "blank3", "wall_nonl", "wall_blank", "post_nonl"]
# logs with a trailing incomplete section (run still going / killed): only the S complete sections before it are constrained
LOG_ENDS_INCOMPLETE = ["inc_row_nonl", "inc_blank", "inc_hdr_nonl"]
# end forms on which the unchanged tree raises IndexError (reported; guarded by KNOWN_OPEN 'log_blank_tail' in checks/c19.py)
LOG_ENDS_BLANK = ["spaces", "spaces_nonl", "tab", "empty"]
LOG_EVENTS = [["none", 1, 2], ["blank", 2, 3], ["post", 3, 4], ["numeric", 2, 2]]
WALL = "Total wall time: 0:00:01"


def log_end(base, form, seed, S):
    """text of a log = `base` (preamble + S complete sections, ends with a newline) closed with the end form"""
    if form == "nl":
        return base
    if form == "nonl":
        return base[:-1]
    if form == "blank1":
        return base + "\n"
    if form == "blank3":
        return base + "\n\n\n"
    if form == "wall_nonl":
        return base + WALL
    if form == "wall_blank":
        return base + WALL + "\n\n"
    if form == "post_nonl":
        return base + io19.POST_LOOP[:-1]
    if form == "inc_row_nonl":
        return base + io19.incomplete_text(seed, S, 2, False)[:-1]
    if form == "inc_blank":
        return base + io19.incomplete_text(seed, S, 2, False) + "\n"
    if form == "inc_hdr_nonl":
        return base + "Step Temp Press"
    if form == "spaces":
        return base + "   \n"
    if form == "spaces_nonl":
        return base + "  "
    if form == "tab":
        return base + "\t\n"
    if form == "empty":
        return ""
    raise ValueError(form)


# ------------------------------------------------------------------------------------------- exact zeros in columns (L4)
ZERO_TEXT = ["0", "-0", "0.0", "0e0", "-0.0"]


def zero_values(vals, f):
    """every second entry (checkerboard over id x column, shifted per frame) becomes an exact zero, printed the ways LAMMPS / users print it;
    -> (numeric table, printed table)"""
    num, txt = [], []
    for i, row in enumerate(vals):
        nrow, trow = [], []
        for c, v in enumerate(row):
            if (i + c + f) % 2 == 0:
                t = ZERO_TEXT[(i + 2 * c + f) % len(ZERO_TEXT)]
                nrow.append(float(t))
                trow.append(t)
            else:
                nrow.append(v)
                trow.append(v)
        num.append(nrow)
        txt.append(trow)
    return num, txt


# ------------------------------------------------------------------------------------------- header argument forms (L5)
FBOUNDS = {
    "zero": [[0.0, 4.0], [0.0, 8.0], [0.0, 2.0]],
    "dyadic": [[-2.5, 1.5], [0.25, 8.75], [-3.25, -1.25]],  # exact in float32
    "whole": [[-2.0, 2.0], [0.0, 8.0], [1.0, 3.0]],         # exact as integers
}
HEADER_FORMS = ["np32", "np64", "f32bounds", "intbounds", "tuple", "fortran", "strided", "readonly"]


def header_args(form, ts, n, bb):
    """(timestep, nparticle, boxbounds) in the storage form; bb is a [d][2] list"""
    a = np.array(bb, float)
    if form == "np32":
        return np.int32(ts), np.int32(n), a
    if form == "np64":
        return np.int64(ts), np.int64(n), a
    if form == "f32bounds":
        return ts, n, a.astype(np.float32)
    if form == "intbounds":
        return ts, n, a.astype(np.int64)
    if form == "tuple":
        return ts, n, tuple(tuple(r) for r in bb)
    if form == "fortran":
        return ts, n, np.asfortranarray(a)
    if form == "strided":
        big = np.full((a.shape[0], 4), 99.5)
        big[:, ::2] = a
        return ts, n, big[:, ::2]
    if form == "readonly":
        a.flags.writeable = False
        return ts, n, a
    raise ValueError(form)


# ------------------------------------------------------------------------------------------- call sequences (L6)
SEQ_MODS = ("PyMatterSim.writer.lammps_writer", "PyMatterSim.reader.reader_utils", "PyMatterSim.reader.gsd_reader_helper",
            "PyMatterSim.reader.lammps_reader_helper", "PyMatterSim.reader.simulation_log")

SEQ_LETTERS = [
    {"id": "h2", "fn": "dump_header", "d": 2, "addson": "vx vy"},
    {"id": "h3", "fn": "dump_header", "d": 3, "addson": "vx vy"},      # same timestep, N, x/y bounds, names / 3D
    {"id": "h3n", "fn": "dump_header", "d": 3, "addson": ""},          # same / no additional names
    {"id": "h3b", "fn": "dump_header", "d": 3, "addson": "vx vy", "shift": 1.5},  # same timestep, N, names / other bounds
    {"id": "dh2", "fn": "data_header", "d": 2},
    {"id": "dh3", "fn": "data_header", "d": 3},
    {"id": "c0", "fn": "center", "content": "K0", "map": [[1, 1], [2, 2]]},
    {"id": "c1", "fn": "center", "content": "K0", "map": [[1, 2], [3, 1]]},       # same file / another map
    {"id": "v0", "fn": "vector", "content": "K0", "cols": [6]},
    {"id": "v1", "fn": "vector", "content": "K0", "cols": [7, 6]},                # same file / other columns
    {"id": "v2", "fn": "vector", "content": "Klater", "cols": [6]},               # same name, size, first frame, columns / later frame differs
    {"id": "a0", "fn": "additions", "content": "K0", "ncol": 5},
    {"id": "a1", "fn": "additions", "content": "K0", "ncol": 6},                  # same file / another column
    {"id": "a2", "fn": "additions", "content": "Klater", "ncol": 5},              # same name, size, first frame, column / later frame differs
    {"id": "l0", "fn": "log", "content": 0},
    {"id": "l1", "fn": "log", "content": 1},                                       # same name, size, first section / later section differs
    {"id": "g0", "fn": "gsd", "content": 0},
    {"id": "g1", "fn": "gsd", "content": 1},                                       # same N, F, steps, first frame / later frame differs
]


def seq_log_text(seed, which):
    """two logs of the same byte size with the same first section; in the second one the rows of the later section are swapped"""
    t0, _, _ = c19x.log_section(seed, 0, 2, 3, 1)
    t1, _, _ = c19x.log_section(seed, 1, 3, 4, 1)
    if which == 1:
        ln = t1.split("\n")
        ln[1], ln[3] = ln[3], ln[1]
        t1 = "\n".join(ln)
    return "LAMMPS (29 Aug 2024)\n" + t0 + "run 100\n" + t1


def seq_gsd_frames(which):
    frames, _ = c19x.gsd_frames(3, 4, 2, False)
    if which == 1:
        fr = dict(frames[1])
        fr["typeid"] = fr["typeid"][1:] + fr["typeid"][:1]
        fr["position"] = fr["position"][1:] + fr["position"][:1]
        frames = [frames[0], fr]
    return frames


def frame_json(df):
    return {"columns": [str(c) for c in df.columns], "values": np.asarray(df.values, float).tolist()}


def seq_call(lt, seed):
    """ONE call of a letter on the real code; returns something JSON-able"""
    from PyMatterSim.reader.gsd_reader_helper import read_gsd
    from PyMatterSim.reader.lammps_reader_helper import read_additions, read_lammps_centertype_wrapper, read_lammps_vector_wrapper
    from PyMatterSim.reader.simulation_log import read_lammpslog
    from PyMatterSim.writer.lammps_writer import write_data_header, write_dump_header

    fn = lt["fn"]
    if fn in ("dump_header", "data_header"):
        bb = np.array(FBOUNDS["dyadic"][: lt["d"]]) + lt.get("shift", 0.0)
        if fn == "dump_header":
            return write_dump_header(700, 3, bb, lt["addson"])
        return write_data_header(3, 2, bb)
    if fn in ("center", "vector", "additions"):
        io19.put("s.dump", c01y._seq_content(lt["content"], seed))
        if fn == "center":
            return c01y.snaps_json(read_lammps_centertype_wrapper("s.dump", 3, {int(a): int(b) for a, b in lt["map"]}))
        if fn == "vector":
            return c01y.snaps_json(read_lammps_vector_wrapper("s.dump", 3, list(lt["cols"])))
        return np.asarray(read_additions("s.dump", lt["ncol"]), float).tolist()
    if fn == "log":
        io19.put("s.log", seq_log_text(seed, lt["content"]))
        return [frame_json(df) for df in read_lammpslog("s.log")]
    if fn == "gsd":
        traj = io19.DuckTrajectory([io19.DuckFrame(**fr) for fr in seq_gsd_frames(lt["content"])])
        return c01y.snaps_json(read_gsd(traj, 3))
    raise ValueError(fn)


def seq_child(case):
    return [seq_call(SEQ_LETTERS[k], case.get("seed", 0)) for k in case["word"]]

