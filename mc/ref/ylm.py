"""Reference spherical harmonics for C08 (independent of scipy and of the library).

    Y_lm(theta, phi) = N_lm  P_l^m(cos theta)  e^{i m phi},           m >= 0
    Y_l,-m           = (-1)^m conj(Y_lm)
    N_lm   = sqrt( (2l+1)/(4 pi) (l-m)!/(l+m)! )                      (orthonormal)
    P_l^m(x) = (-1)^m (1-x^2)^{m/2} d^m/dx^m P_l(x)                   (Condon-Shortley phase)
    P_l(x) = 2^-l  sum_k (-1)^k C(l,k) C(2l-2k,l) x^(l-2k)            (explicit sum, exact rationals)

theta = polar angle, phi = azimuth.  (1-x^2)^{m/2} is written as sin^m(theta) with the SIGNED sine, which is the
analytic continuation of Y_lm in theta beyond [0, pi]: the result is a trigonometric polynomial of degree <= l in
theta and of the single frequency m in phi, on the whole torus.

The polynomial d^m P_l/dx^m is evaluated EXACTLY (fractions.Fraction Horner at the rational number that the double
cos(theta) is) and rounded once, so the reference has no cancellation error even for l = 20.

Second part of the file: the structural (AST) walk that establishes the degree bound of the tabulated closed forms
SphHarm1..SphHarm10 (precondition of the unisolvent-grid argument, DESIGN.md section 3/C08).
"""
from __future__ import annotations

import ast
import math
from fractions import Fraction
from functools import lru_cache

import numpy as np


# ------------------------------------------------------------------------------------------ exact coefficients
@lru_cache(maxsize=None)
def legendre_coeffs(l):
    """coefficients c[i] of x^i in P_l(x), exact"""
    c = [Fraction(0)] * (l + 1)
    for k in range(l // 2 + 1):
        c[l - 2 * k] = Fraction((-1) ** k * math.comb(l, k) * math.comb(2 * l - 2 * k, l), 2 ** l)
    return tuple(c)


@lru_cache(maxsize=None)
def dlegendre_coeffs(l, m):
    """coefficients of d^m P_l / dx^m, exact"""
    c = list(legendre_coeffs(l))
    for _ in range(m):
        c = [c[i] * i for i in range(1, len(c))]
    return tuple(c)


@lru_cache(maxsize=None)
def norm2(l, m):
    """N_lm^2 * 4 pi  as an exact rational"""
    return Fraction((2 * l + 1) * math.factorial(l - m), math.factorial(l + m))


@lru_cache(maxsize=200000)
def theta_part(l, m, theta):
    """N_lm P_l^m(cos theta), m >= 0, for a python float theta (signed sine: analytic continuation)"""
    x = Fraction(math.cos(theta))  # the double, exactly
    acc = Fraction(0)
    for ci in reversed(dlegendre_coeffs(l, m)):
        acc = acc * x + ci
    N = math.sqrt(norm2(l, m) / Fraction(4)) / math.sqrt(math.pi)
    return (-1) ** m * N * math.sin(theta) ** m * float(acc)


def Y(l, m, theta, phi):
    """scalar reference Y_lm(theta polar, phi azimuth)"""
    am = abs(m)
    y = theta_part(l, am, float(theta)) * complex(math.cos(am * phi), math.sin(am * phi))
    if m < 0:
        y = (-1) ** am * y.conjugate()
    return y


def Y_all(l, theta, phi):
    """array of Y_lm, m = -l..l"""
    return np.array([Y(l, m, theta, phi) for m in range(-l, l + 1)])


def Y_grid(l, thetas, phis):
    """array [len(thetas), len(phis), 2l+1]"""
    thetas = [float(t) for t in thetas]
    phis = np.asarray(phis, float)
    out = np.empty((len(thetas), len(phis), 2 * l + 1), complex)
    for m in range(0, l + 1):
        tp = np.array([theta_part(l, m, t) for t in thetas])
        e = np.cos(m * phis) + 1j * np.sin(m * phis)
        y = tp[:, None] * e[None, :]
        out[:, :, l + m] = y
        if m:
            out[:, :, l - m] = (-1) ** m * np.conj(y)
    return out


# ------------------------------------------------------------------------------------------ structural walk
class Structure(Exception):
    """the source is not of the expected closed-form class"""


class _Abs:
    """abstract value of an expression: trigonometric polynomial of degree <= dt in theta whose phi-dependence is a
    sum of e^{i k phi} with |k| <= dp;  const = depends on neither angle"""
    __slots__ = ("dt", "dp")

    def __init__(self, dt=0, dp=0):
        self.dt, self.dp = dt, dp

    @property
    def const(self):
        return self.dt == 0 and self.dp == 0


def _is_name(node, mod, attr):
    return isinstance(node, ast.Attribute) and isinstance(node.value, ast.Name) and node.value.id == mod and node.attr == attr


def _imag_int(node):
    """integer k if node is the literal k*1j or -(k*1j), else None"""
    sign = 1
    if isinstance(node, ast.UnaryOp) and isinstance(node.op, ast.USub):
        sign, node = -1, node.operand
    if isinstance(node, ast.Constant) and isinstance(node.value, complex) and node.value.real == 0 and float(node.value.imag).is_integer():
        return sign * int(node.value.imag)
    return None


def _absval(node, env, th, ph):
    if isinstance(node, ast.Constant):
        if isinstance(node.value, (int, float, complex)) and not isinstance(node.value, bool):
            return _Abs()
        raise Structure("constant %r" % (node.value,))
    if _is_name(node, "np", "pi"):
        return _Abs()
    if isinstance(node, ast.Name):
        if node.id in env:
            return env[node.id]
        raise Structure("bare name %s" % node.id)  # theta / phi outside sin, cos, exp
    if isinstance(node, ast.UnaryOp) and isinstance(node.op, (ast.USub, ast.UAdd)):
        return _absval(node.operand, env, th, ph)
    if isinstance(node, ast.BinOp):
        if isinstance(node.op, (ast.Add, ast.Sub)):
            a, b = _absval(node.left, env, th, ph), _absval(node.right, env, th, ph)
            return _Abs(max(a.dt, b.dt), max(a.dp, b.dp))
        if isinstance(node.op, ast.Mult):
            a, b = _absval(node.left, env, th, ph), _absval(node.right, env, th, ph)
            return _Abs(a.dt + b.dt, a.dp + b.dp)
        if isinstance(node.op, ast.Div):
            a, b = _absval(node.left, env, th, ph), _absval(node.right, env, th, ph)
            if not b.const:
                raise Structure("division by an angle-dependent expression")
            return a
        if isinstance(node.op, ast.Pow):
            a = _absval(node.left, env, th, ph)
            e = node.right
            if isinstance(e, ast.Constant) and isinstance(e.value, int) and not isinstance(e.value, bool) and e.value >= 0:
                return _Abs(a.dt * e.value, a.dp * e.value)
            if a.const and _absval(e, env, th, ph).const:
                return _Abs()
            raise Structure("power with a non-literal or negative exponent")
        raise Structure("operator %s" % type(node.op).__name__)
    if isinstance(node, ast.Call) and not node.keywords and len(node.args) == 1:
        arg = node.args[0]
        if _is_name(node.func, "np", "sqrt"):
            if _absval(arg, env, th, ph).const:
                return _Abs()
            raise Structure("sqrt of an angle-dependent expression")
        if _is_name(node.func, "np", "sin") or _is_name(node.func, "np", "cos"):
            if isinstance(arg, ast.Name) and arg.id == th:
                return _Abs(1, 0)
            raise Structure("sin/cos of something else than the polar argument")
        if _is_name(node.func, "cmath", "exp") or _is_name(node.func, "np", "exp"):
            if isinstance(arg, ast.BinOp) and isinstance(arg.op, ast.Mult):
                for c, v in ((arg.left, arg.right), (arg.right, arg.left)):
                    k = _imag_int(c)
                    if k is not None and isinstance(v, ast.Name) and v.id == ph:
                        return _Abs(0, abs(k))
            raise Structure("exp of something else than (integer*1j) * azimuth")
    raise Structure("node %s" % type(node).__name__)


def table_structure(source, lmax=10):
    """Walk SphHarm1..SphHarm{lmax} in `source`.  Returns
        {"ok": bool, "why": str, "per_l": {l: {"n": entries, "deg_theta": max, "deg_phi": max}}, "max_deg": int}
    ok means: every function body is `results=[]; (name = expr; results.append(name))*; return np.array(results)`,
    every expr is in the class described in _Abs, so every returned entry is a trigonometric polynomial whose degree
    in either angle is at most max_deg.  Never raises."""
    out = {"ok": False, "why": "", "per_l": {}, "max_deg": None}
    try:
        tree = ast.parse(source)
        fns = {n.name: n for n in tree.body if isinstance(n, ast.FunctionDef)}
        worst = 0
        for l in range(1, lmax + 1):
            fn = fns.get("SphHarm%d" % l)
            if fn is None:
                raise Structure("SphHarm%d missing" % l)
            args = [a.arg for a in fn.args.args]
            if len(args) != 2 or fn.args.vararg or fn.args.kwarg or fn.args.kwonlyargs:
                raise Structure("SphHarm%d signature" % l)
            th, ph = args
            env, appended, listname, returned = {}, [], None, False
            for st in fn.body:
                if isinstance(st, ast.Expr) and isinstance(st.value, ast.Constant) and isinstance(st.value.value, str):
                    continue  # docstring
                if returned:
                    raise Structure("statement after return in SphHarm%d" % l)
                if isinstance(st, ast.Assign) and len(st.targets) == 1 and isinstance(st.targets[0], ast.Name):
                    tgt = st.targets[0].id
                    if isinstance(st.value, ast.List) and not st.value.elts and listname is None:
                        listname = tgt
                        continue
                    if tgt in (th, ph, listname):
                        raise Structure("rebinding of %s in SphHarm%d" % (tgt, l))
                    env[tgt] = _absval(st.value, env, th, ph)
                    continue
                if (isinstance(st, ast.Expr) and isinstance(st.value, ast.Call) and isinstance(st.value.func, ast.Attribute)
                        and st.value.func.attr == "append" and isinstance(st.value.func.value, ast.Name)
                        and st.value.func.value.id == listname and len(st.value.args) == 1 and not st.value.keywords):
                    appended.append(_absval(st.value.args[0], env, th, ph))
                    continue
                if (isinstance(st, ast.Return) and isinstance(st.value, ast.Call) and _is_name(st.value.func, "np", "array")
                        and len(st.value.args) == 1 and isinstance(st.value.args[0], ast.Name) and st.value.args[0].id == listname
                        and not st.value.keywords):
                    returned = True
                    continue
                raise Structure("statement %s in SphHarm%d" % (type(st).__name__, l))
            if not returned or not appended:
                raise Structure("SphHarm%d does not return np.array(results)" % l)
            dt = max(a.dt for a in appended)
            dp = max(a.dp for a in appended)
            out["per_l"][l] = {"n": len(appended), "deg_theta": dt, "deg_phi": dp}
            worst = max(worst, dt, dp)
        out["max_deg"] = worst
        out["ok"] = True
    except Structure as e:
        out["why"] = str(e)
    except Exception as e:  # a syntax error etc.: no structural claim, never an error of the check
        out["why"] = "%s: %s" % (type(e).__name__, e)
    return out
