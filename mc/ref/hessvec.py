"""Reference models for C11 (Hessian of the documented pair energy) and C15 (vector-field measures).

Deliberately naive: double loops, literal transcriptions of the documented formulas (docs/hessian.md,
docs/vectors.md).  Nothing here calls the functions under test.  The Hessian oracle differentiates an
independently coded TOTAL energy with hyper-dual numbers (mc/ref/hyperdual.py, shared with C12) and, as a second
looser witness, by central finite differences of a second, differently coded float energy.
"""
from __future__ import annotations

import cmath
import math

import numpy as np

from mc.ref import hyperdual as hd
from mc.ref.base import minimg

# ============================================================================================ C11


def s_pot(model, r, eps, sig, par):
    """documented pair energy s(r) (docs/hessian.md); r is a float or a hyper-dual number"""
    if model == "lj":
        x = sig / r
        return 4.0 * eps * (x ** 12 - x ** 6)
    if model == "ipl":
        return par["A"] * eps * (sig / r) ** par["n"]
    if model == "hertz":
        return eps / par["alpha"] * (1.0 - r / sig) ** par["alpha"]
    raise ValueError(model)


def pair_list(pos, H, ppp, types, rc):
    """All i<j with their minimum-image separation (C02 convention), the lattice vector that was removed,
    the distance, the type-pair cutoff and the margin |r - rc| (discrete decision 'inside the cutoff')."""
    pos = np.asarray(pos, float)
    n = len(pos)
    out = []
    for i in range(n):
        for j in range(i + 1, n):
            raw = pos[i] - pos[j]
            mi = minimg(raw[None, :], H, ppp)[0]
            r = float(np.linalg.norm(mi))
            c = float(rc[types[i] - 1][types[j] - 1])
            out.append({"i": i, "j": j, "vec": mi, "lat": raw - mi, "r": r, "rc": c, "inside": r <= c, "margin": abs(r - c)})
    return out


def total_energy_hd(pos, H, ppp, types, eps, sig, rc, shift, model, par):
    """returns f(x) : list of N*d hyper-dual coordinates -> total energy
    U = sum_{i<j, r<=rc} [ s(r) - shift (s(rc) + (r - rc) s'(rc)) ]   (force-shifted when shift is on).
    The lattice vector of the minimum image is piecewise constant and is frozen at the evaluation point."""
    pos = np.asarray(pos, float)
    n, d = pos.shape
    pairs = [p for p in pair_list(pos, H, ppp, types, rc) if p["inside"]]
    terms = []
    for p in pairs:
        a, b = types[p["i"]] - 1, types[p["j"]] - 1
        e, s, c = float(eps[a][b]), float(sig[a][b]), float(rc[a][b])
        if shift:
            src, s1rc, _ = hd.derivs(lambda r, e=e, s=s: s_pot(model, r, e, s, par), c)
        else:
            src, s1rc = 0.0, 0.0
        terms.append((p["i"], p["j"], [float(v) for v in p["lat"]], e, s, c, src, s1rc))

    def f(x):
        U = hd.HD(0.0)
        for (i, j, lat, e, s, c, src, s1rc) in terms:
            r2 = hd.HD(0.0)
            for k in range(d):
                dk = x[i * d + k] - x[j * d + k] - lat[k]
                r2 = r2 + dk * dk
            r = hd.sqrt(r2)
            U = U + s_pot(model, r, e, s, par) - (src + (r - c) * s1rc)
        return U

    return f, len(pairs)


def mass_vector(types, masses, d):
    return np.repeat(np.array([float(masses[int(t)]) for t in types]), d)


def ref_hessian(pos, H, ppp, types, masses, eps, sig, rc, shift, model, par):
    """M^-1/2 (d2U / dx_p dx_q) M^-1/2 by hyper-dual differentiation of the total energy; also returns the
    un-weighted second-derivative matrix and the number of interacting pairs"""
    pos = np.asarray(pos, float)
    n, d = pos.shape
    f, npairs = total_energy_hd(pos, H, ppp, types, eps, sig, rc, shift, model, par)
    if npairs == 0:
        K = np.zeros((n * d, n * d))
    else:
        _, _, Hn = hd.grad_hess(f, [float(v) for v in pos.reshape(-1)])
        K = np.array(Hn, float)
    m = mass_vector(types, masses, d)
    return K / np.sqrt(np.outer(m, m)), K, npairs


def energy_float(X, terms, model, par, d):
    """second, differently coded float energy (powers of r^2, explicit shift terms) for the finite-difference witness"""
    U = 0.0
    for (i, j, lat, e, s, c, shift) in terms:
        r2 = 0.0
        for k in range(d):
            dk = X[i * d + k] - X[j * d + k] - lat[k]
            r2 += dk * dk
        r = math.sqrt(r2)
        if model == "lj":
            q6 = s ** 6 / r2 ** 3
            u = 4.0 * e * q6 * (q6 - 1.0)
            if shift:
                c6 = (s / c) ** 6
                u -= 4.0 * e * c6 * (c6 - 1.0) + (r - c) * (-24.0 * e / c) * (2.0 * c6 * c6 - c6)
        elif model == "ipl":
            n_, A_ = par["n"], par["A"]
            u = A_ * e * math.exp(n_ * (math.log(s) - 0.5 * math.log(r2)))
            if shift:
                uc = A_ * e * math.exp(n_ * (math.log(s) - math.log(c)))
                u -= uc + (r - c) * (-n_ * uc / c)
        else:
            al = par["alpha"]
            u = e / al * math.exp(al * math.log(1.0 - r / s)) if r < s else 0.0
            # s(rc) = s'(rc) = 0 at rc = sigma (documented): nothing to subtract
        U += u
    return U


def fd_hessian(pos, H, ppp, types, masses, eps, sig, rc, shift, model, par, h=1e-4):
    """central second differences of energy_float, mass weighted"""
    pos = np.asarray(pos, float)
    n, d = pos.shape
    terms = []
    for p in pair_list(pos, H, ppp, types, rc):
        if p["inside"]:
            a, b = types[p["i"]] - 1, types[p["j"]] - 1
            terms.append((p["i"], p["j"], [float(v) for v in p["lat"]], float(eps[a][b]), float(sig[a][b]), float(rc[a][b]), bool(shift)))
    x0 = [float(v) for v in pos.reshape(-1)]
    nd = n * d
    K = np.zeros((nd, nd))
    if terms:
        U0 = energy_float(x0, terms, model, par, d)
        for p in range(nd):
            xp = list(x0)
            xp[p] = x0[p] + h
            xm = list(x0)
            xm[p] = x0[p] - h
            K[p, p] = (energy_float(xp, terms, model, par, d) - 2.0 * U0 + energy_float(xm, terms, model, par, d)) / (h * h)
            for q in range(p + 1, nd):
                v = 0.0
                for sp, sq in ((1, 1), (1, -1), (-1, 1), (-1, -1)):
                    x = list(x0)
                    x[p] += sp * h
                    x[q] += sq * h
                    v += sp * sq * energy_float(x, terms, model, par, d)
                K[p, q] = K[q, p] = v / (4.0 * h * h)
    m = mass_vector(types, masses, d)
    return K / np.sqrt(np.outer(m, m))


# ============================================================================================ C15


def ref_pr(v):
    """(sum_i |e_i|^2)^2 / (N sum_i |e_i|^4)"""
    n = len(v)
    s2 = 0.0
    s4 = 0.0
    for i in range(n):
        n2 = 0.0
        for c in v[i]:
            n2 += float(c) * float(c)
        s2 += n2
        s4 += n2 * n2
    return s2 * s2 / (n * s4)


def ref_alignment(v, nl):
    """Psi_i = mean_{j in nl[i]} e_i . e_j"""
    out = []
    for i in range(len(v)):
        t = 0.0
        for j in nl[i]:
            t += sum(float(a) * float(b) for a, b in zip(v[i], v[j]))
        out.append(t / len(nl[i]))
    return np.array(out)


def ref_pq(v, nl):
    """(sum_i sum_j e_i.e_j, sum_i sum_j |e_i.e_j|)"""
    num = 0.0
    den = 0.0
    for i in range(len(v)):
        for j in nl[i]:
            t = sum(float(a) * float(b) for a, b in zip(v[i], v[j]))
            num += t
            den += abs(t)
    return num, den


def ref_divcurl(pos, H, ppp, u, nl):
    """neighbour means of R_ij . u_ij and R_ij x u_ij, R_ij = minimum image of R_j - R_i, u_ij = u_j - u_i"""
    pos = np.asarray(pos, float)
    u = np.asarray(u, float)
    n, d = u.shape
    div = np.zeros(n)
    curl = np.zeros((n, 3))
    for i in range(n):
        for j in nl[i]:
            R = minimg((pos[j] - pos[i])[None, :], H, ppp)[0]
            U = u[j] - u[i]
            div[i] += sum(R[k] * U[k] for k in range(d))
            if d == 3:
                curl[i, 0] += R[1] * U[2] - R[2] * U[1]
                curl[i, 1] += R[2] * U[0] - R[0] * U[2]
                curl[i, 2] += R[0] * U[1] - R[1] * U[0]
        div[i] /= len(nl[i])
        curl[i] /= len(nl[i])
    return div, (curl if d == 3 else None)


def linear_closed_form(pos, A, nl):
    """u = A r on open boundaries: div_i = mean_j r^T A r, curl_i = mean_j r x (A r), r = R_j - R_i (closed form in A:
    identity -> mean |r|^2 and 0; antisymmetric A = [w]x -> 0 and mean (w |r|^2 - r (r.w)))"""
    pos = np.asarray(pos, float)
    A = np.asarray(A, float)
    n, d = pos.shape
    S = 0.5 * (A + A.T)
    W = 0.5 * (A - A.T)
    div = np.zeros(n)
    curl = np.zeros((n, 3))
    for i in range(n):
        for j in nl[i]:
            r = pos[j] - pos[i]
            div[i] += float(r @ S @ r)  # the antisymmetric part drops out of r^T A r
            if d == 3:
                w = np.array([W[2, 1], W[0, 2], W[1, 0]])  # W r = w x r
                Sr = S @ r
                curl[i] += w * float(r @ r) - r * float(r @ w)
                curl[i] += np.array([r[1] * Sr[2] - r[2] * Sr[1], r[2] * Sr[0] - r[0] * Sr[2], r[0] * Sr[1] - r[1] * Sr[0]])
        div[i] /= len(nl[i])
        curl[i] /= len(nl[i])
    return div, (curl if d == 3 else None)


def ref_vibrability(freq, evecs, n):
    """Psi_i = sum_l |e_{l,i}|^2 / omega_l^2  (e_{l,i} = the d components of particle i in column l)"""
    evecs = np.asarray(evecs, float)
    d = evecs.shape[0] // n
    out = np.zeros(n)
    for l in range(evecs.shape[1]):
        for i in range(n):
            s = 0.0
            for k in range(d):
                s += evecs[i * d + k, l] ** 2
            out[i] += s / (float(freq[l]) ** 2)
    return out


def ref_transform(pos, L, qint, v):
    """q = 2 pi n / L ; FFT_c(q) = N^-1/2 sum_i v_ic exp(-i q.r_i)"""
    pos = np.asarray(pos, float)
    v = np.asarray(v, float)
    n, d = v.shape
    q = np.array([[2.0 * math.pi * float(k) / float(L[a]) for a, k in enumerate(row)] for row in qint])
    F = np.zeros((len(q), d), complex)
    for m in range(len(q)):
        for i in range(n):
            ph = cmath.exp(-1j * sum(q[m, a] * pos[i, a] for a in range(d)))
            for c in range(d):
                F[m, c] += v[i, c] * ph
    return q, F / math.sqrt(n)


def ref_decomposition(pos, L, qint, v):
    """dict with q (vectors), qn (norms), F, FL = qhat (qhat . F), FT = F - FL, S, SL, ST"""
    q, F = ref_transform(pos, L, qint, v)
    qn = np.sqrt((q * q).sum(axis=1))
    FL = np.zeros_like(F)
    for m in range(len(q)):
        qh = q[m] / qn[m]
        dot = sum(qh[c] * F[m, c] for c in range(F.shape[1]))
        FL[m] = qh * dot
    FT = F - FL
    return {"q": q, "qn": qn, "F": F, "FL": FL, "FT": FT,
            "S": (abs(F) ** 2).sum(axis=1), "SL": (abs(FL) ** 2).sum(axis=1), "ST": (abs(FT) ** 2).sum(axis=1)}


def group_means(keys, cols):
    """mean of every column over rows with the same key (keys already rounded); returns sorted keys + means"""
    ks = sorted(set(float(k) for k in keys))
    out = []
    for k in ks:
        idx = [i for i, kk in enumerate(keys) if float(kk) == k]
        out.append([float(np.mean([c[i] for i in idx])) for c in cols])
    return np.array(ks), np.array(out)


def even_spacing(steps):
    """the library's detector: 'linear' iff the set of consecutive differences has exactly one element"""
    return len(set(int(b) - int(a) for a, b in zip(steps[:-1], steps[1:]))) == 1


def ref_timecorr(x, steps):
    """x[t] = complex vector (one wave vector, d components) per frame.
    even spacing: C(k) = mean_{t0} Re sum_c x_c(t0+k) conj x_c(t0); otherwise origin 0 only.  Returns the
    unnormalised C and C(0) (normalisation is C/C(0))."""
    x = np.asarray(x)
    T = len(x)
    C = np.zeros(T)
    if even_spacing(steps):
        for k in range(T):
            acc = 0.0
            cnt = 0
            for t0 in range(T - k):
                acc += sum((x[t0 + k, c] * x[t0, c].conjugate()).real for c in range(x.shape[1]))
                cnt += 1
            C[k] = acc / cnt
    else:
        for k in range(T):
            C[k] = sum((x[k, c] * x[0, c].conjugate()).real for c in range(x.shape[1]))
    return C
