"""Helpers for the round-4 slice of C04 (storage forms, exact values, species classes per frame, unwrapped coordinates).

  * `dyadic_box_points`: points whose coordinates are dyadic FRACTIONS of the box edges (phases are multiples of pi / 8 for integer wave
    vectors: Bragg-like cancellations, exact zeros) - one particle exactly at the origin, particles on the faces x = L_x, y = 0, z = L_z,
    two coincident particles
  * `unwrap`: the same placement with every particle displaced by whole box vectors n_i L, n from {0, +2, -3, +4}
The storage forms themselves (float32 / strided positions, species dtypes, integer tables) live in mc/ref/c03y.py.
Nothing here calls the routines under test."""
from __future__ import annotations

import numpy as np

Q_FORMS = ["int64", "int32", "int16", "fortran32", "strided"]
UNWRAP_N = [0, 2, -3, 4]
# integer wave vectors that FIT a narrow storage type while their squares (or the sum of the squares) do not: |q| computed in the array's
# own dtype wraps around, the per-vector S stays right.  (components, storage types that hold them)
BIG_Q = {
    "big8": ([[12, 0, 0], [0, 16, 0], [3, 4, 12], [16, 0, 0], [0, 0, 13], [0, 12, 0]], ["int64", "int8", "uint8", "int16"]),
    "big16": ([[200, 0, 0], [0, 190, 0], [120, 150, 0], [0, 0, 182], [-120, 150, 10], [0, 200, 0]], ["int64", "int16", "int32"]),
    "big16u": ([[256, 0, 0], [0, 300, 0], [200, 200, 0], [0, 0, 260], [0, 256, 0]], ["int64", "uint16"]),
}


def big_q(name, d):
    vs, forms = BIG_Q[name]
    return [v[:d] for v in vs if any(v[:d])], forms

_FRAC = [[0.0, 0.0, 0.0],
         [1.0, 0.25, 0.375],
         [0.25, 0.0, 0.75],
         [0.25, 0.0, 0.75],
         [0.125, 0.5, 0.0625],
         [0.75, 0.875, 1.0],
         [0.5, 0.375, 0.3125]]


def dyadic_box_points(d, L):
    L = np.asarray(L, float)
    return np.array([f[:d] for f in _FRAC]) * L[:d]


def unwrap(pos, L, pattern=0):
    """particle i displaced by n_i L, n per particle and axis from {0, +2, -3, +4}"""
    pos = np.asarray(pos, float)
    n, d = pos.shape
    sh = np.array([[UNWRAP_N[(i + 2 * a + pattern + (i * a) % 3) % 4] for a in range(d)] for i in range(n)], float)
    return pos + sh * np.asarray(L, float)[:d]
