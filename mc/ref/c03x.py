"""Helpers for the strengthened slices of C03 (and, for the fork helper, C04): scale slice and call-sequence search.

  * deterministic generic points with a guaranteed distance from the rint tie of the minimum image
  * a vectorised reference g(r) (all columns, interval oracle for pairs on a bin edge, per-frame cells and species)
  * compositions with unequal species counts (optionally one species with a single member)
  * `fresh_child`: run a function in a forked child in which the library modules were re-imported, so that every
    call sequence starts from the import state of the library (module globals, class attributes, default arguments,
    memo tables) while all calls of ONE sequence share that state.
Nothing here calls the routines under test (fresh_child only transports a callable of the check)."""
from __future__ import annotations

import importlib
import json
import os
import sys

import numpy as np

from mc import alphabets as A
from mc.ref.base import shell_volumes

EDGE_TOL = 1e-9
TIE_TOL = 1e-9


# ------------------------------------------------------------------------------------ inputs
def frac_points(seed, n, d, tag, shrink=0.97):
    """n deterministic generic fractional points.  The hash table gives multiples of 2^-20; shrinking about the centre by a
    non-dyadic factor makes a fractional difference of exactly 1/2 (the rint tie of the minimum image, where the two images of
    a triclinic cell have different lengths) impossible: |k * shrink / 2^20 - 1/2| >= 8e-8 for every integer k."""
    g = np.array(A.generic_points(seed, n, d, tag=tag))
    return 0.5 + shrink * (g - 0.5)


def composition(n, K, kind):
    """species ids (1..K) of n particles, interleaved along the particle index, unequal counts.
    kind 'skew': counts roughly proportional to K, K-1, .., 1 for species 1..K;
    kind 'single': one species (species 1 for odd K, species K for even K) has exactly one member (particle n//2),
    the others share the rest in skewed proportions."""
    if K == 1:
        return [1] * n
    if kind == "skew":
        S = K * (K + 1) // 2
        cum = []
        for a in range(1, K + 1):
            cum += [a] * (K + 1 - a)
        t = [cum[(7 * i) % S] for i in range(n)]
        # guarantee every species is present for small n
        for a in range(1, K + 1):
            if a not in t:
                t[a - 1] = a
        return t
    if kind == "single":
        lone = 1 if K % 2 else K
        others = [a for a in range(1, K + 1) if a != lone]
        sub = composition(n - 1, K - 1, "skew") if K > 2 else [1] * (n - 1)
        t = [others[x - 1] for x in sub]
        t.insert(n // 2, lone)
        return t
    raise ValueError(kind)


# ------------------------------------------------------------------------------ reference model
def pairs(pos, H, ppp):
    """all i<j pairs: (i, j, minimum-image distance, tie margin).  Half-cell convention on the fractional coordinates
    (s -= floor(s + 1/2) on periodic axes); tie margin = smallest distance of a periodic fractional difference from k + 1/2."""
    pos = np.asarray(pos, float)
    H = np.asarray(H, float)
    ppp = np.asarray(ppp)
    iu, ju = np.triu_indices(len(pos), 1)
    dr = pos[ju] - pos[iu]
    s = np.linalg.solve(H.T, dr.T).T
    m = ppp.astype(bool)
    tie = 1.0
    if m.any() and len(s):
        f = s[:, m] - 0.5
        tie = float(np.abs(f - np.round(f)).min())
    s = s - np.floor(s + 0.5) * ppp
    v = s @ H
    return iu, ju, np.sqrt((v * v).sum(axis=1)), tie


def ref_gr_vec(frames, Hs, types_f, ppp, w):
    """Vectorised reference for gr(...).getresults(): returns (cols, r, lo, hi, norm, info) like mc.ref.grsq.ref_gr plus
    info = {edge_pairs, tie, max_bin_total, max_partner_count, counts}.  `Hs`, `types_f`: one entry per frame."""
    Hs = [np.asarray(h, float) for h in Hs]
    types_f = [np.asarray(t) for t in types_f]
    F = len(frames)
    d = Hs[0].shape[0]
    L = np.diag(Hs[0])
    V = float(np.prod(L))
    nb = int(L.min() / 2.0 / w)
    t0 = types_f[0]
    N = len(t0)
    tl = sorted(set(t0.tolist()))
    K = len(tl)
    cols = ["gr"]
    if 1 < K <= 5:
        cols += [f"gr{a}{b}" for a in tl for b in tl if a <= b]
    cid = {c: k for k, c in enumerate(cols)}
    # lookup (a, b) -> column index (0 = total only)
    look = np.zeros((max(tl) + 1, max(tl) + 1), int)
    if 1 < K <= 5:
        for a in tl:
            for b in tl:
                look[a, b] = cid[f"gr{min(a, b)}{max(a, b)}"]
    lo = np.zeros((len(cols), nb))
    hi = np.zeros((len(cols), nb))
    info = {"edge_pairs": 0, "tie": 1.0, "max_partner_count": 0}
    for pos, H, tf in zip(frames, Hs, types_f):
        iu, ju, r, tie = pairs(pos, H, ppp)
        info["tie"] = min(info["tie"], tie)
        x = r / w
        e = np.round(x).astype(int)  # nearest edge index
        amb = np.abs(x - e) * w < EDGE_TOL
        k = np.floor(x).astype(int)
        pc = look[tf[iu], tf[ju]]  # partial column of each pair
        sure = ~amb & (k < nb)
        for colidx in ((np.zeros(len(r), int),) if len(cols) == 1 else (np.zeros(len(r), int), pc)):
            c = np.bincount(colidx[sure] * nb + k[sure], minlength=len(cols) * nb).reshape(len(cols), nb)
            lo += c
            hi += c
            for kk in (e - 1, e):
                ok = amb & (kk >= 0) & (kk < nb)
                if ok.any():
                    hi += np.bincount(colidx[ok] * nb + kk[ok], minlength=len(cols) * nb).reshape(len(cols), nb)
        info["edge_pairs"] += int((amb & (e <= nb)).sum())
        if sure.any():
            per = np.bincount(iu[sure] * nb + k[sure], minlength=N * nb)
            info["max_partner_count"] = max(info["max_partner_count"], int(per.max()))
    info["max_bin_total"] = int(hi[0].max()) if nb else 0
    shell, edges = shell_volumes(nb, w, d)
    Na = {t: int((t0 == t).sum()) for t in tl}
    norm = {"gr": 2.0 * V / (N * N) / F / shell}
    for c in cols[1:]:
        a, b = int(c[2]), int(c[3])
        norm[c] = (2.0 * V / (Na[a] * Na[a]) if a == b else V / (Na[a] * Na[b])) / F / shell
    r_c = edges[1:] - w / 2.0
    info["counts"] = {c: hi[cid[c]].copy() for c in cols}
    return cols, r_c, {c: lo[cid[c]] * norm[c] for c in cols}, {c: hi[cid[c]] * norm[c] for c in cols}, norm, info


# ------------------------------------------------------------------------- fresh process state
LIB_MODULES = ("PyMatterSim.utils.funcs", "PyMatterSim.utils.pbc", "PyMatterSim.utils.wavevector",
               "PyMatterSim.static.gr", "PyMatterSim.static.sq")


def reimport_library(mods=LIB_MODULES):
    """Put the listed library modules back into their import state (module globals, class attributes, default-argument
    objects and memo tables are re-created).  Order matters: utilities first, so that `from ..utils.x import f` in the
    static modules binds the fresh functions."""
    for name in mods:
        m = sys.modules.get(name)
        if m is None:
            importlib.import_module(name)
        else:
            importlib.reload(m)


def fresh_child(fn, arg, mods=LIB_MODULES):
    """Run fn(arg) in a forked child whose library modules were re-imported; fn must return something JSON-able.
    Returns {'ok': value} or {'err': 'Type: message @ where'}.  All library calls made by ONE fn(arg) share the child's
    module state; nothing leaks back into the calling worker."""
    for name in mods:  # first import (slow: pandas, sympy) happens once in the caller, the child only re-executes the modules
        importlib.import_module(name)
    rd, wr = os.pipe()
    pid = os.fork()
    if pid == 0:
        try:
            os.close(rd)
            try:
                reimport_library(mods)
                payload = {"ok": fn(arg)}
            except BaseException as e:  # noqa: BLE001 - reported to the parent as a violation
                import traceback

                tb = traceback.extract_tb(e.__traceback__)
                where = f"{os.path.basename(tb[-1].filename)}:{tb[-1].name}:{tb[-1].lineno}" if tb else "?"
                payload = {"err": f"{type(e).__name__}: {e} @ {where}"}
            data = json.dumps(payload).encode()
            off = 0
            while off < len(data):
                off += os.write(wr, data[off:off + 65536])
        finally:
            os._exit(0)
    os.close(wr)
    buf = []
    while True:
        ch = os.read(rd, 1 << 20)
        if not ch:
            break
        buf.append(ch)
    os.close(rd)
    os.waitpid(pid, 0)
    raw = b"".join(buf)
    return json.loads(raw.decode()) if raw else {"err": "child process died without an answer"}


def frame_to_json(df):
    """DataFrame -> {'columns': [...], 'values': rows} (floats survive JSON exactly via repr)"""
    return {"columns": [str(c) for c in df.columns], "values": np.asarray(df.values, float).tolist()}
