"""Reference helpers for the C20 *scale* slice (freud Voronoi wrapper on 64 .. 257 particles).

Same oracle as mc/ref/neigh.py:periodic_voronoi (scipy.spatial.Voronoi on the 3^d replicated images, independent of freud /
voro++), but the general-position screen is evaluated PER PARTICLE: with hundreds of cells some Voronoi edge is always short
somewhere, so a whole-configuration screen would drop every input.  A particle is `clean` when none of the Voronoi vertices of
its cell is an end point of a short edge (2D: an edge shorter than `minface`; 3D: an edge shorter than `minedge` or any corner
of a face smaller than `minface`) - i.e. no near-degenerate vertex touches its cell, so neither library can legitimately list or
drop a face of it.  Volumes do not depend on how a near-degenerate vertex is resolved and are compared for every particle.
"""
from __future__ import annotations

import itertools

import numpy as np

from mc.ref.neigh import periodic_volumes

INF = float("inf")


def _polygon_edges(V, normal):
    """(area, [(k, l, length)]) of the planar convex polygon with unordered vertices V (m x 3); k, l index rows of V"""
    c = V.mean(axis=0)
    nrm = normal / np.linalg.norm(normal)
    a = np.array([1.0, 0.0, 0.0]) if abs(nrm[0]) < 0.9 else np.array([0.0, 1.0, 0.0])
    e1 = np.cross(nrm, a)
    e1 /= np.linalg.norm(e1)
    e2 = np.cross(nrm, e1)
    x = (V - c) @ e1
    y = (V - c) @ e2
    order = np.argsort(np.arctan2(y, x))
    xo, yo = x[order], y[order]
    area = 0.5 * abs(float(np.sum(xo * np.roll(yo, -1) - yo * np.roll(xo, -1))))
    ln = np.hypot(xo - np.roll(xo, -1), yo - np.roll(yo, -1))
    nxt = np.roll(order, -1)
    return area, [(int(order[k]), int(nxt[k]), float(ln[k])) for k in range(len(order))]


def periodic_voronoi_pp(pos, L, minface, minedge, band=None):
    """nb[i] = [(j, size, slack)] over the faces of cell i (self / repeated images allowed), vols[i], ok, clean[i] (see module doc).

    band: numerical general position (interval oracle).  freud stores coordinates in single precision (and wraps coordinates that lie
    outside its centred box in single precision); next to an ill-conditioned Voronoi vertex (three generators almost on a line: the
    circumcentre is far away) that rounding moves the adjacent edges by far more than the rounding itself (witnessed: 2.4e-5 where
    ordinary faces agree to 5e-7).  The tessellation is therefore recomputed with every coordinate moved by +- half a single-precision
    ulp of the longest box edge in three fixed sign patterns: `slack` = band x the largest change of that face size (added to the
    comparison tolerance of that face); a cell whose neighbour multiset changes under such a perturbation is not clean."""
    pos = np.asarray(pos, float)
    L = np.asarray(L, float)
    nb, vols, ok, clean = _tessellate(pos, L, minface, minedge)
    n, d = pos.shape
    order = [sorted(range(len(nb[i])), key=lambda k: nb[i][k]) for i in range(n)]
    slack = [np.zeros(len(nb[i])) for i in range(n)]
    if band is not None and ok:
        eps = 0.5 * float(np.spacing(np.float32(L.max())))
        ii = np.arange(n)[:, None]
        aa = np.arange(d)[None, :]
        patterns = [(-1.0) ** (ii + aa), (-1.0) ** (ii // 2 + 2 * aa + (aa > 0)), (-1.0) ** ((ii * (aa + 2)) // 3)]
        for sgn in patterns:
            nb2, _, ok2, _ = _tessellate(pos + eps * sgn, L, minface, minedge)
            if not ok2:
                ok = False
                break
            for i in range(n):
                a = [nb[i][k] for k in order[i]]
                b = sorted(nb2[i])
                if [u[0] for u in a] != [u[0] for u in b]:
                    clean[i] = False
                    continue
                for k, u, v in zip(order[i], a, b):
                    slack[i][k] = max(slack[i][k], band * abs(u[1] - v[1]))
    nb3 = [[(j, w, float(slack[i][k])) for k, (j, w) in enumerate(nb[i])] for i in range(n)]
    return nb3, vols, ok, clean


def _tessellate(pos, L, minface, minedge):
    from scipy.spatial import ConvexHull, Voronoi

    pos = np.asarray(pos, float)
    N, d = pos.shape
    L = np.asarray(L, float)
    imgs = list(itertools.product([-1, 0, 1], repeat=d))
    pts = np.vstack([pos + np.array(im) * L for im in imgs])
    owner = np.tile(np.arange(N), len(imgs))
    c0 = imgs.index(tuple([0] * d)) * N
    vor = Voronoi(pts)
    nb = [[] for _ in range(N)]
    ok = True
    bad = set()
    rp = vor.ridge_points
    central = ((rp >= c0) & (rp < c0 + N)).any(axis=1)
    for k in np.nonzero(central)[0]:
        p, q = int(rp[k, 0]), int(rp[k, 1])
        verts = vor.ridge_vertices[k]
        if -1 in verts:
            ok = False
            continue
        V = vor.vertices[verts]
        if d == 2:
            w = float(np.linalg.norm(V[0] - V[1]))
            if w < minface:
                bad.update(verts)
        else:
            w, edges = _polygon_edges(V, pts[q] - pts[p])
            if w < minface:
                bad.update(verts)
            for a, b, ln in edges:
                if ln < minedge:
                    bad.add(verts[a])
                    bad.add(verts[b])
        for a, b in ((p, q), (q, p)):
            if c0 <= a < c0 + N:
                nb[a - c0].append((int(owner[b]), w))
    vols = np.zeros(N)
    clean = np.ones(N, bool)
    for i in range(N):
        reg = vor.regions[vor.point_region[c0 + i]]
        if -1 in reg or not reg:
            ok = False
            vols[i] = np.nan
            clean[i] = False
            continue
        vols[i] = ConvexHull(vor.vertices[reg]).volume
        if bad and not bad.isdisjoint(reg):
            clean[i] = False
    return nb, vols.tolist(), ok, clean


def ref_volume_columns(pos, L, d, deltar, particles):
    """Columns d*j + a (j in `particles`, a < d) of the raw volume-response matrix A[i, d*j+a] = (dV_i / dr_ja) / V_i by central
    differences; the rows i == j (self block, defined through translation invariance from the WHOLE row) are returned as nan.
    Returns (cols, A[:, cols])."""
    pos = np.asarray(pos, float)
    N = len(pos)
    V0 = periodic_volumes(pos, L)
    cols, out = [], []
    for j in particles:
        for a in range(d):
            p = pos.copy()
            p[j, a] += deltar
            Vp = periodic_volumes(p, L)
            p[j, a] -= 2 * deltar
            Vm = periodic_volumes(p, L)
            col = (Vp - Vm) / (2 * deltar) / V0
            col[j] = np.nan
            cols.append(d * j + a)
            out.append(col)
    return cols, np.array(out).T
