"""Round-4 helpers of C17: reference models for the correlation methods of the anchored classes (S2.spatial_corr / time_corr,
NematicOrder.spatial_corr / time_corr), cell / frame builders for the "first frame is of another class" slice, CSV comparison and the
module list of the call-sequence slice.

The correlation references are the models of C13 (mc/ref/c04c13.py: cond_gr_loops, weighted pair histogram over unordered pairs) and
C14 (mc/ref/dyn.py: ref_time_corr, all origins for evenly spaced timesteps, origin 0 otherwise); the only thing added here is what the class
docstrings say on top of them: the frame mean of the per-frame tables, the optional division of each frame's values by THAT frame's mean.
Nothing here calls the library."""
from __future__ import annotations

import math
import os

import numpy as np

from mc import alphabets as A
from mc.ref.base import shell_volumes
from mc.ref.c04c13 import cond_gr_loops
from mc.ref.dyn import ref_time_corr
from mc.ref.grsq import pair_bins

# library modules whose import state is restored in every child of C17.sequence (utilities first)
SEQ_MODS = ("PyMatterSim.utils.funcs", "PyMatterSim.utils.pbc", "PyMatterSim.neighbors.read_neighbors", "PyMatterSim.utils.coarse_graining",
            "PyMatterSim.dynamic.time_corr", "PyMatterSim.static.gr", "PyMatterSim.static.pairentropy", "PyMatterSim.static.geometric",
            "PyMatterSim.static.nematic", "PyMatterSim.static.shape")


# ------------------------------------------------------------------------------------------ cells / frames
TILTS = {2: [0.6], 3: [0.6, -0.4, 0.5]}


def cell(L, name, tilts=None):
    """'orth' | 'tri' (tilt factors `tilts`, default TILTS) | 'tri-' (the tilts scaled by -1/2): same edge lengths in every class"""
    d = len(L)
    fac = {"orth": 0.0, "tri": 1.0, "tri-": -0.5}[name]
    return A.hmat_tri(list(L), [fac * t for t in (tilts or TILTS[d])])


# cell class per frame.  'orth>tri': a shear run started from the undeformed box; 'tri>orth': the reverse; 'o>t>o': back and forth
CELLSEQ = {"orth": ["orth", "orth", "orth"], "tri": ["tri", "tri", "tri"], "orth>tri": ["orth", "tri", "tri-"], "tri>orth": ["tri", "orth", "orth"],
           "o>t>o": ["orth", "tri", "orth"]}


def cells(L, seqname, F, tilts=None):
    return [cell(L, c, tilts) for c in CELLSEQ[seqname][:F]]


def steps_for(spacing, F):
    return {"even": [0, 100, 200, 300], "uneven": [0, 100, 300, 700], "offset": [500, 540, 580, 620]}[spacing][:F]


# ------------------------------------------------------------------------------------------ correlation references
def ref_spatial(frames, Hs, ppp, w, conds, kind):
    """frame mean of the conditional pair correlation (C13 model) -> dict column -> array, 'ambiguous' (a pair on a bin edge in some frame),
    'populated' (number of bins holding a pair in some frame), 'norm_ok' (gA_norm defined in every frame)"""
    acc = {}
    amb = False
    pop = None
    norm_ok = kind == "float"
    F = len(frames)
    for f in range(F):
        c = conds[f]
        r = cond_gr_loops(frames[f], Hs[f], ppp, w, c if kind == "tensor" else [float(v) for v in c], kind, pair_bins, shell_volumes)
        amb = amb or r["ambiguous"]
        pop = (r["count"] > 0) if pop is None else (pop | (r["count"] > 0))
        for k in ("r", "gr", "gA"):
            acc[k] = r[k] / F if k not in acc else acc[k] + r[k] / F
        if kind == "float":
            if r["gA_norm"] is None:
                norm_ok = False
            elif norm_ok:
                acc["gA_norm"] = r["gA_norm"] / F if "gA_norm" not in acc else acc["gA_norm"] + r["gA_norm"] / F
    if not norm_ok:
        acc.pop("gA_norm", None)
    return {"cols": acc, "ambiguous": amb, "populated": int(pop.sum()) if pop is not None else 0, "norm_ok": norm_ok}


def ref_time(x, steps, dt):
    """(t, C(t)/C(0), C(0), evenly spaced?) of the C14 model"""
    return ref_time_corr(np.asarray(x), steps, dt)


def rel_variance(values):
    """relative variance of a scalar field: (<A^2> - <A>^2) / <A^2>; gA_norm is only compared when it exceeds 1e-6 (else the
    documented quotient is ill-conditioned)"""
    a = np.asarray(values, float)
    m2 = float((a * a).mean())
    return (m2 - float(a.mean()) ** 2) / m2 if m2 > 0 else 0.0


def csv_matches(path, table, decimals):
    """the CSV written with %.<decimals>f holds the returned table: same header, same shape, every entry within half a unit of the
    last printed decimal"""
    import pandas as pd

    if not os.path.exists(path):
        return "not written"
    back = pd.read_csv(path)
    if [str(c) for c in back.columns] != [str(c) for c in table.columns] or back.shape != table.shape:
        return f"header / shape {list(back.columns)} x {len(back)} != {list(table.columns)} x {len(table)}"
    a, b = back.values.astype(float), table.values.astype(float)
    fin = np.isfinite(b)
    if (np.isfinite(a) != fin).any():
        return "non-finite entries differ"
    if fin.any() and np.abs(a[fin] - b[fin]).max() > 0.5 * 10.0 ** (-decimals) * (1 + 1e-6) + 1e-12 * np.abs(b[fin]).max():
        return f"entries differ by {np.abs(a[fin] - b[fin]).max():.3g} (> half a unit of decimal {decimals})"
    return None


# ------------------------------------------------------------------------------------------ directors
def director(k):
    return [math.cos(k * math.pi / 8), math.sin(k * math.pi / 8)]


# unit vectors that are EXACT in binary floating point (and in float32 / as integers where integral): the axis directors carry exact zeros
AXIS = [[1.0, 0.0], [0.0, 1.0], [-1.0, 0.0], [0.0, -1.0]]

UNWRAP_N = [0, 2, -3, 4]


def unwrap(pos, H, ppp, phase=0):
    """L7: particle i displaced by sum_a n_(i,a) H[a] (H[a] = cell vector a), n from {0, +2, -3, +4}, different per particle and per axis, zero on
    non-periodic axes (unfolded `xu yu zu` coordinates are ordinary input)"""
    pos = np.array(pos, float)
    H = np.asarray(H, float)
    out = pos.copy()
    for i in range(len(pos)):
        for a in range(H.shape[0]):
            if ppp[a]:
                out[i] = out[i] + UNWRAP_N[(i + 2 * a + 1 + phase) % 4] * H[a]
    return out
