"""Scale-slice helpers of the C19 check: larger dump files with many numeric trailing columns (for read_lammps_centertype /
read_lammps_vector / read_additions / the write_dump_header loop), long LAMMPS logs (many sections, long and wide tables) and larger
duck-typed HOOMD trajectories.  Encoders and expectations only - nothing here calls a routine under test (the header text of the
'hdr' writer variant is produced by the check itself and passed in).

Numbers are dyadic and *generic* by explicit formulas (no random sampling): coordinates as in mc.ref.c01x (odd multiples of 2^-21,
distinct per id), column values with ~30 significant bits, distinct per (frame, id, column).
"""
from __future__ import annotations

import numpy as np

from mc.lammps_text import bounds_of, fmt, frame_text
from mc.ref import c01x

COLNAMES = ["vx", "vy", "vz", "c_q6", "c_pe", "c_ke", "v_w", "fx", "fy", "fz", "order", "mol"]
SINGLE = 77  # a type label carried by exactly one atom of every frame (another id in every frame)


# ------------------------------------------------------------------------------------------- dump files
def col_value(seed, f, i, c):
    """value printed in trailing column c of atom id0 i in frame f: dyadic, ~30 significant bits, distinct per (f, i, c) (c < 16, i < 1024)"""
    base = (1 + f) * 16384 + (i + 1) * 16 + c + 1
    h = (i * 2654435761 + c * 40503 + f * 97 + seed * 7919 + 12345) % 4096
    sgn = -1.0 if (i + c + f) % 3 == 0 else 1.0
    return sgn * (base / 16.0 + h / 65536.0)


def types_of(n, f, single):
    t = c01x.types_of(n, f)
    if single:
        t[(n - 1 - f) % n] = SINGLE
    return t


def dump_frames(case, header=None):
    """(text, per-frame expectations) of a scale dump file.
    case: d, N, F, order ('affine'|'desc'|'asc'), E (numeric trailing columns), style, vary ('all': cell, types and count change from
    frame to frame; 'cell': the count stays), cell ('orth'|'tri'), syntax, blanks, seed, single (one atom of type 77 per frame).
    header: None (independent encoder) or a callable (timestep, n, boxbounds[d,2], names) -> header text (the writer under test).
    Expectation keys: the snapshot fields + 'truth' (per-id Cartesian positions under the style's convention) + 'rows' [n, 2+d+E]
    (the numbers as printed, by id) + 'types'."""
    d, style, E = case["d"], case.get("style", "x"), case["E"]
    F, N = case["F"], case["N"]
    seed = case.get("seed", 0)
    names = COLNAMES[:E]
    ccase = {"d": d, "cell": case.get("cell", "orth"), "vary": case["vary"] is not None}
    text, exps = [], []
    for f in range(F):
        n = max(1, N + c01x.NDELTA[f % len(c01x.NDELTA)]) if case["vary"] == "all" else N
        cell = c01x.cell_of(ccase, f)
        H = c01x.hmat(cell, d)
        lo = np.array(cell["lo"], float)
        L = np.array(cell["L"], float)
        s = c01x.frac(n, f, d)
        r = lo + s @ H
        i = np.arange(n)
        img = np.column_stack([(i % 3) - 1, (i + f) % 2, -((i + 1) % 2)])[:, :d] * L
        if style == "xs":
            coords, truth = s, r
        elif style == "xu":
            coords, truth = r + img, r + img
        elif cell["tilts"] is None:
            coords, truth = r + img, r
        else:
            coords, truth = r, r
        types = types_of(n, f, case.get("single", False))
        ts = c01x.timestep(f, F, N)
        fr = {"ts": ts, "types": types, "lo": cell["lo"], "L": cell["L"], "tilts": cell["tilts"], "coords": coords.tolist()}
        order = c01x.line_order(case["order"], n, f)
        vals = [[col_value(seed, f, k, c) for c in range(E)] for k in range(n)]
        syntax = case.get("syntax", "decimal")
        body = frame_text(fr, d, style, syntax, "pp pp pp", "none", order)
        body = c01x.decorate(body, names, [[fmt(v, syntax) for v in row] for row in vals] if E else None, case.get("blanks", False))
        bb, rb = bounds_of(fr, d)
        if header is not None:
            body = header(ts, n, np.array(bb), names) + "\n".join(body.split("\n")[9:])
        text.append(body)
        rows = np.column_stack([np.arange(1, n + 1, dtype=float), np.array(types, float), np.asarray(coords, float).reshape(n, d)] +
                               ([np.array(vals, float).reshape(n, E)] if E else []))
        exps.append({"timestep": ts, "nparticle": n, "particle_type": np.array(types), "types": types, "truth": np.asarray(truth, float).reshape(n, d),
                     "rows": rows, "boxlength": L, "boxbounds": np.array(bb), "realbounds": None if rb is None else np.array(rb), "hmatrix": H})
    return text, exps


# ------------------------------------------------------------------------------------------------ logs
LOGNAMES = ["Step", "Temp", "E_pair", "E_mol", "TotEng", "Press", "Volume", "Lx", "Ly", "Lz", "c_msd[4]", "v_frac"]


def log_value(seed, k, r, c, layout):
    """(text, float) printed in section k, row r, column c (column 0 = step); the float is the value of the printed text"""
    if c == 0:
        v = 1000000 * k + 100 * r
        return str(v), float(v)
    kind = (k + r + c + layout) % 5
    j = ((k * 7919 + r * 104729 + c * 1299709 + seed * 15485863 + 77) * 2654435761) % (1 << 20) - (1 << 19)
    if kind == 0:
        s = repr(float(j) / 2**10)
    elif kind == 1:
        s = "%.8g" % (-abs(float(j)) / 2**16 - (k + 1))
    elif kind == 2:
        s = str((k + 1) * (r + 2) * (c + 3))
    elif kind == 3:
        s = "%.10e" % (float(j) * 1e-9)
    else:
        s = "%.7f" % (1.0e5 * (c + k) + r + float(j) / 2**21)
    return s, float(s)


def log_section(seed, k, R, C, layout):
    """one complete thermo section (header line, R rows, 'Loop time of' line): (text, names, rows as floats).
    layout 0 / 1 as in io19.section_text (classic), layout 2: the column-aligned header of current LAMMPS versions ('      Step Temp ...')"""
    names = LOGNAMES[:C]
    rows, lines = [], []
    for r in range(R):
        cells = [log_value(seed, k, r, c, layout) for c in range(C)]
        rows.append([v for (_, v) in cells])
        if layout == 0:
            lines.append("".join("%8s " % cells[0][0] if c == 0 else "%14s " % cells[c][0] for c in range(C)))
        elif layout == 2:
            lines.append("".join("%10s " % cells[0][0] if c == 0 else "%-14s " % cells[c][0] for c in range(C)))
        else:
            lines.append(" ".join(s for (s, _) in cells))
    head = " ".join(names) + (" " if layout == 0 else "")
    if layout == 2:  # LAMMPS >= 4May2022: the header is aligned with the columns, i.e. it starts with blanks
        head = "".join("%10s " % names[0] if c == 0 else "%-14s " % names[c] for c in range(C))
    text = head + "\n" + "".join(ln + "\n" for ln in lines)
    text += "Loop time of 0.%d on 4 procs for %d steps with 4000 atoms\n" % (7 + k, 100 * R)
    return text, names, rows


def log_shapes(S, R, C):
    """[rows, columns] of the S sections of a scale log: the long/wide table (R x C) alternates with its neighbours R+1, R-1 and with
    short narrow tables, so a section never has the shape of the one before it"""
    out = []
    for k in range(S):
        m = k % 4
        if m == 0:
            out.append([R, C])
        elif m == 1:
            out.append([1 + k % 3, 2 + k % 3])
        elif m == 2:
            out.append([R + 1, max(2, C - 1)])
        else:
            out.append([max(1, R - 1), C])
    return out


# --------------------------------------------------------------------------------------- HOOMD frames
TYPEIDS = [0, 1, 2, 130, 299]
GBOX = [[4.0, 8.0, 2.0], [8.0, 4.0, 4.0], [2.0, 2.0, 8.0], [16.0, 8.0, 4.0]]


def gsd_frames(d, N, F, vary_n):
    """(list of DuckFrame kwargs, list of DCD position tables) of a scale trajectory: step, box, typeid assignment, positions (and N
    when vary_n) differ from frame to frame; float32-exact positions, distinct per id"""
    frames, dcds = [], []
    for k in range(F):
        n = max(1, N + c01x.NDELTA[k % len(c01x.NDELTA)]) if vary_n else N
        box = GBOX[k % len(GBOX)]
        i = np.arange(n, dtype=np.int64)
        s = np.column_stack([(2 * ((c01x.PMUL[a] * i + c01x.QMUL[a] * k + c01x.RADD[a]) % 4096) + 1) / 8192.0 for a in range(3)]) - 0.5
        p = s * np.array(box)
        if d == 2 and k % 2 == 0:
            p[:, 2] = 0.0
        img = np.column_stack([(i % 3) - 1, (i + k) % 2, -((i + 1) % 2)]) * np.array(box)
        tp = [TYPEIDS[t] for t in ((3 * i + 2 * k + i // 7) % len(TYPEIDS))]
        step = c01x.timestep(k, F, N) if F <= 12 else 5000 * k + (10**10 if k >= F - 2 else 0)
        frames.append({"step": step, "dimensions": d, "box": box + [0.0, 0.0, 0.0], "typeid": tp, "position": p.tolist()})
        dcds.append((p + img + np.array([0.125, -0.25, 0.5]) * (k + 1)).tolist())
    return frames, dcds
