"""Round-4 helpers of the C01 check (docs/STRENGTHEN_TASK2.md): frames whose CLASS changes inside one file, the DumpReader dispatch
with options that do not belong to the selected file type, call sequences.  Encoders / expectations only - the only library calls
are in `seq_child`, which is the body of the forked child of C01.sequence (it runs the calls of one word and serialises the results).
"""
from __future__ import annotations

import re

import numpy as np

from mc.lammps_text import bounds_of, frame_text
from mc.ref import io19

LEDGE = [4.0, 8.0, 2.0]

# ----------------------------------------------------------------------------------------- per-frame classes (lesson L2)
# cell classes: O orthogonal header, T / U triclinic header (tilts of either sign), Z triclinic header whose tilts are all zero
CELL_CLASS = {
    "O": {"lo": [-2.0, -1.0, -3.0], "L": LEDGE, "tilts": None},
    "P": {"lo": [0.0, 0.0, 0.0], "L": [8.0, 4.0, 4.0], "tilts": None},
    "T": {"lo": [-2.0, 1.0, 3.0], "L": LEDGE, "tilts": [1.0, -0.5, 2.0]},
    "U": {"lo": [1.0, 0.0, -1.0], "L": LEDGE, "tilts": [-1.0, 0.5, -2.0]},
    "Z": {"lo": [-2.0, 1.0, 3.0], "L": LEDGE, "tilts": [0.0, 0.0, 0.0]},
}
CELL_SEQS = ["OTU", "TOU", "ZTO", "OPT", "TUO", "OT", "TO", "OZP"]
STYLE_SEQS = [["x"] * 3, ["xs"] * 3, ["xu"] * 3, ["x", "xs", "xu"], ["xs", "xu", "x"], ["xu", "x", "xs"]]
COUNT_SEQS = [[3, 3, 3], [1, 3, 2], [2, 0, 3], [0, 2, 1]]  # the first frame is the smallest / a frame of an emptied group has no atom line
EXTRA_SEQS = [["none"] * 3, ["none", "image", "float"], ["image", "none", "none"]]


def cell_of_class(key, d):
    c = CELL_CLASS[key]
    tilts = c["tilts"]
    if tilts is not None and d == 2:
        tilts = [tilts[0], 0.0, 0.0]
    return {"lo": c["lo"][:d], "L": c["L"][:d], "tilts": tilts}


_INT_FLOAT = re.compile(r"^-?\d+\.0$")


def to_g(text):
    """numbers the way LAMMPS' default %g prints them: whole numbers carry no decimal point ('4' not '4.0', '0' not '0.0')"""
    out = []
    for ln in text.split("\n"):
        if ln.startswith("ITEM:"):
            out.append(ln)
            continue
        out.append(" ".join(t[:-2] if _INT_FLOAT.match(t) else t for t in ln.split(" ")))
    return "\n".join(out)


# ----------------------------------------------------------------------------------------- dispatch (coverage gap, lessons L1 / L5)
DISPATCH_MAPS = [[[3, 1]], [[1, 2], [2, 1]], [[1, 1], [2, 2], [3, 3]], [[4, 1]], [[2, 7], [3, 7]]]
DISPATCH_TYPES = {1: [[2]], 2: [[1, 2], [3, 3]], 3: [[1, 2, 3], [3, 3, 1], [2, 1, 2]]}
NEXTRA = 2
EXTRA_NAMES = ["vx", "c_q6"]
FAR = [0, 2, -3, 4]  # numbers of whole cell vectors added to unwrapped coordinates


def dispatch_cols(d):
    """column-id lists (1-based over the whole atom line): one additional column, two descending, a coordinate column, id/type + a repeat"""
    a, b = d + 3, d + 4
    return [[a], [b, a], [3], [1, 2, a, a]]


def frac_of(i, f, d):
    return [(1 + 2 * (((a + 1) * (i + 1) + f) % 8)) / 16.0 for a in range(d)]


def dispatch_frames(case):
    """-> (file text, per-frame truth).  Orthogonal or triclinic cell (`case['cell']` in 'orth0' | 'orth' | 'tri'); the cell (size and origin),
    the types attached to the ids and the trailing-column values change from frame to frame.  truth keys: the snapshot fields of the atomic
    read, 'types' (list by id) and 'rows' [N, 2 + d + NEXTRA] (the numbers as printed, by id)."""
    d, style, n = case["d"], case["style"], len(case["types"])
    text, truth = "", []
    for f in range(case["F"]):
        if case["cell"] == "tri":
            lo = np.array([-2.0, 1.0, 3.0][:d]) - f
            tilts = [[1.0, -0.5, 2.0], [-1.0, 0.5, -2.0], [0.5, 0.5, 1.0]][f % 3]
            if d == 2:
                tilts = [tilts[0], 0.0, 0.0]
        else:
            lo = (np.array([-2.0, 1.0, 3.0][:d]) if case["cell"] == "orth" else np.zeros(d)) - f
            tilts = None
        L = np.array(LEDGE[:d]) * (2.0 ** f)
        H = np.diag(L)
        if tilts is not None:
            H[1, 0] = tilts[0]
            if d == 3:
                H[2, 0], H[2, 1] = tilts[1], tilts[2]
        types = [case["types"][(i + f) % n] for i in range(n)]
        coords, pos = [], []
        for i in range(n):
            s = np.array(frac_of(i, f, d))
            r = lo + s @ H
            img = np.array([(i % 3) - 1, (i + f) % 2, -((i + 1) % 2)][:d]) * L
            far = np.array([FAR[(i + a + f) % len(FAR)] for a in range(d)]) @ H  # whole cell vectors, several boxes away (lesson L7)
            if style == "xs":
                coords.append(s.tolist())
                pos.append(r)
            elif style == "xu":
                coords.append((r + far).tolist())
                pos.append(r + far)
            elif tilts is None:
                coords.append((r + img).tolist())  # wrapped style, orthogonal: one-box excursions are folded back
                pos.append(r)
            else:
                coords.append(r.tolist())
                pos.append(r)
        vals = [[io19.extra_value(case.get("seed", 0), f, i, c) for c in range(NEXTRA)] for i in range(n)]
        fr = {"ts": [0, 25, 1234567890][f] + 3 * n, "types": types, "lo": lo.tolist(), "L": L.tolist(), "tilts": tilts, "coords": coords}
        order = list(case["order"]) if f % 2 == 0 else list(case["order"])[::-1]
        text += io19.with_columns(frame_text(fr, d, style, "decimal", "pp pp pp", "none", order), EXTRA_NAMES, vals)
        bb, rb = bounds_of(fr, d)
        rows = np.array([[i + 1, types[i]] + coords[i] + vals[i] for i in range(n)], float).reshape(n, 2 + d + NEXTRA)
        truth.append({"timestep": fr["ts"], "nparticle": n, "particle_type": types, "types": types, "positions": np.array(pos, float).reshape(n, d),
                      "rows": rows, "boxlength": L, "boxbounds": np.array(bb), "realbounds": None if rb is None else np.array(rb), "hmatrix": H})
    return text, truth


def center_expect(truth, m):
    """expectation of the molecule-centre read: the atoms whose type is a key of m, relabelled by its values, in id order"""
    out = []
    for t in truth:
        sel = [i for i, ty in enumerate(t["types"]) if ty in m]
        out.append(dict(t, nparticle=len(sel), particle_type=[m[t["types"][i]] for i in sel], positions=t["positions"][sel].reshape(len(sel), t["positions"].shape[1])))
    return out


def vector_expect(truth, cols):
    """expectation of the column read: the requested columns (1-based over the line) by atom id in `positions`"""
    return [dict(t, positions=t["rows"][:, [c - 1 for c in cols]].reshape(t["nparticle"], len(cols))) for t in truth]


# ----------------------------------------------------------------------------------------- call sequences (lesson L6)
SEQ_MODS = ("PyMatterSim.reader.reader_utils", "PyMatterSim.reader.gsd_reader_helper", "PyMatterSim.reader.lammps_reader_helper",
            "PyMatterSim.reader.dump_reader")
SEQ_N = 5
SEQ_TS = [100, 200, 300]


def _seq_content(kind, seed=0):
    """file text of the content classes of the sequence letters.  All 3D contents share N, the timesteps, the cell diagonal, the origin and the
    byte size of every line pattern; they differ in exactly the feature an incomplete memo key would leave out."""
    d = 2 if kind == "K2d" else 3
    F = 3 if kind == "K3f" else 2
    style = "xs" if kind == "Kxs" else "x"
    text = ""
    for f in range(F):
        lo = [-2.0, 1.0, 3.0][:d]
        L = LEDGE[:d]
        tilts = None
        if kind == "Ktri":
            tilts = [1.0, -0.5, 2.0]
        types = [1 + (2 * i + f) % 3 for i in range(SEQ_N)]
        H = np.diag(np.array(L))
        if tilts is not None:
            H[1, 0], H[2, 0], H[2, 1] = tilts
        coords = []
        for i in range(SEQ_N):
            s = np.array(frac_of(i, f, d))
            coords.append(s.tolist() if style == "xs" else (np.array(lo) + s @ H).tolist())
        vals = [[io19.extra_value(seed, f, i, c) for c in range(NEXTRA)] for i in range(SEQ_N)]
        if kind == "Klater" and f == 1:
            # same first frame, same byte size: in the later frame every id carries the type, position and column values of its neighbour
            types, coords, vals = types[1:] + types[:1], coords[1:] + coords[:1], vals[1:] + vals[:1]
        ts = [SEQ_TS[0], 150, SEQ_TS[1]][f] if kind == "K3f" else SEQ_TS[f]  # K3f: same first and last timestep, another frame in between
        fr = {"ts": ts, "types": types, "lo": lo, "L": L, "tilts": tilts, "coords": coords}
        order = [(3 * i + 1 + f) % SEQ_N for i in range(SEQ_N)]
        text += io19.with_columns(frame_text(fr, d, style, "decimal", "pp pp pp", "none", order), EXTRA_NAMES, vals)
    return text


# letters: complete argument tuples (file name, content, ndim, how the read is requested, options)
SEQ_LETTERS = [
    {"id": "a0", "name": "a.dump", "content": "K0", "d": 3, "via": "reader", "ft": "LAMMPS"},
    {"id": "a1", "name": "a.dump", "content": "Klater", "d": 3, "via": "reader", "ft": "LAMMPS"},  # same name, size, first frame / later frame differs
    {"id": "b0", "name": "b.dump", "content": "K0", "d": 3, "via": "wrapper", "ft": "LAMMPS"},     # same content / another name
    {"id": "w1", "name": "a.dump", "content": "Klater", "d": 3, "via": "wrapper", "ft": "LAMMPS"},
    {"id": "c0", "name": "a.dump", "content": "K0", "d": 3, "via": "reader", "ft": "LAMMPSCENTER", "map": [[1, 1], [2, 2]]},
    {"id": "c1", "name": "a.dump", "content": "K0", "d": 3, "via": "reader", "ft": "LAMMPSCENTER", "map": [[1, 2], [3, 1]]},  # same file / another map
    {"id": "v0", "name": "a.dump", "content": "K0", "d": 3, "via": "reader", "ft": "LAMMPSVECTOR", "cols": [6]},
    {"id": "v1", "name": "a.dump", "content": "K0", "d": 3, "via": "reader", "ft": "LAMMPSVECTOR", "cols": [7, 6]},  # same file / other columns
    {"id": "d2", "name": "a.dump", "content": "K2d", "d": 2, "via": "reader", "ft": "LAMMPS"},     # 2D under the same name
    {"id": "t0", "name": "a.dump", "content": "Ktri", "d": 3, "via": "wrapper", "ft": "LAMMPS"},   # same diagonal, N, timesteps / tilted
    {"id": "s0", "name": "a.dump", "content": "Kxs", "d": 3, "via": "reader", "ft": "LAMMPS"},     # same header / scaled coordinates
    {"id": "f3", "name": "a.dump", "content": "K3f", "d": 3, "via": "wrapper", "ft": "LAMMPS"},    # same first and last timestep / 3 frames
]


def snaps_json(S):
    """Snapshots -> JSON-able list (floats survive JSON exactly)"""
    if S is None:
        return None
    out = [{"nsnapshots": int(S.nsnapshots)}]
    for s in S.snapshots:
        out.append({"timestep": int(s.timestep), "nparticle": int(s.nparticle), "particle_type": np.asarray(s.particle_type).tolist(),
                    "positions": np.asarray(s.positions, float).tolist(), "boxlength": np.asarray(s.boxlength, float).tolist(),
                    "boxbounds": np.asarray(s.boxbounds, float).tolist(), "hmatrix": np.asarray(s.hmatrix, float).tolist(),
                    "realbounds": None if s.realbounds is None else np.asarray(s.realbounds, float).tolist()})
    return out


def _ctor_key(lt):
    return (lt["name"], lt["d"], lt["ft"], str(lt.get("map")), str(lt.get("cols")))


def seq_child(case):
    """body of the forked child: the calls of the word in order; returns for every call the serialised result right after the call
    ('now') and once more at the end of the word ('end': the objects returned earlier stay alive and must not change).
    mode 'fresh': a new reader object per call; 'reuse': when the next letter has the same constructor arguments as an object made
    earlier in the word, read_onefile() is called again on THAT object (the file was re-written in between)."""
    from PyMatterSim.reader.dump_reader import DumpReader
    from PyMatterSim.reader.lammps_reader_helper import read_lammps_wrapper
    from PyMatterSim.reader.reader_utils import DumpFileType

    objs = {}
    results, nows = [], []
    for k in case["word"]:
        lt = SEQ_LETTERS[k]
        io19.put(lt["name"], _seq_content(lt["content"], case.get("seed", 0)))
        if lt["via"] == "wrapper":
            S = read_lammps_wrapper(lt["name"], lt["d"])
        else:
            key = _ctor_key(lt)
            rd = objs.get(key) if case["mode"] == "reuse" else None
            if rd is None:
                kw = {}
                if "map" in lt:
                    kw["moltypes"] = {int(a): int(b) for a, b in lt["map"]}
                if "cols" in lt:
                    kw["columnsids"] = list(lt["cols"])
                rd = DumpReader(lt["name"], lt["d"], getattr(DumpFileType, lt["ft"]), **kw)
                objs[key] = rd
            rd.read_onefile()
            S = rd.snapshots
        results.append(S)
        nows.append(snaps_json(S))
    return {"now": nows, "end": [snaps_json(S) for S in results]}
