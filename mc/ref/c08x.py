"""Alphabets of the strengthened C08 slices (argument types, theta arrays, call sequences).  No library call here."""
from __future__ import annotations

import math

from mc.ref.c02x import forked  # noqa: F401  (fork helper shared by my checks)

GOLD = 0.6180339887498949

# scalar argument types; the angle values are exactly representable in every one of them
INT_THETA = [0, 1, 2, 3]
INT_PHI = [-3, -2, -1, 0, 1, 2, 3]
DYADIC_THETA = [0.0, 0.5, 1.25, 1.5, 2.75, 3.125]
DYADIC_PHI = [-3.125, -2.5, -0.75, 0.0, 1.5, 3.0, 4.5, 6.25]  # the last two lie in (pi, 2 pi]: the docstrings allow [0, 2 pi]
SCALAR_FORMS = ["pyfloat", "np.float64", "np.float32", "pyint", "np.int64", "np.int32"]


def theta_array(n):
    """n polar angles in [0, pi]: theta_0 = 0, theta_{n-1} = pi (n > 1), generic (Weyl sequence) in between"""
    th = [math.pi * ((i * GOLD) % 1.0) for i in range(n)]
    if n > 1:
        th[-1] = math.pi
    return th


# call-sequence letters: (l, theta, phi, entry point)
ANG_A = (0.8125, -2.25)
ANG_B = (2.375, 1.0625)


def seq_letters(tier):
    ls = [4, 6, 12]
    out = []
    for l in ls:
        for ang in (ANG_A, ANG_B):
            out.append({"l": l, "theta": ang[0], "phi": ang[1], "via": "dispatch"})
    out.append({"l": 4, "theta": ANG_A[0], "phi": ANG_A[1], "via": "direct"})
    out.append({"l": 12, "theta": ANG_A[0], "phi": ANG_A[1], "via": "direct"})
    if tier != "quick":
        out.append({"l": 6, "theta": ANG_B[0], "phi": ANG_B[1], "via": "direct"})
        out.append({"l": 11, "theta": ANG_B[0], "phi": ANG_B[1], "via": "direct"})
        out.append({"l": 10, "theta": ANG_A[0], "phi": ANG_B[1], "via": "dispatch"})
        out.append({"l": 11, "theta": ANG_A[0], "phi": ANG_B[1], "via": "dispatch"})
    return out
