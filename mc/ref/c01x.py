"""Scale-slice helpers of the C01 check (larger dump files: multi-digit ids, two-digit frame counts, per-frame cell / count /
type assignment).  Independent encoder side only: nothing here calls the reader under test.  Built on the C01 text encoder
(mc.lammps_text.frame_text, not modified); trailing columns and the blanks real LAMMPS prints at line ends are added here.

All numbers are dyadic: fractional coordinates are odd multiples of 2^-21 (a distinct one per id and frame, so two ids never
share a coordinate and a float32 buffer cannot hold them), cell edges / tilts / origins are multiples of 2^-2 .. 2^-1 scaled by
powers of two, so every Cartesian coordinate has at most ~30 significant bits and the LAMMPS conventions are evaluated exactly.
"""
from __future__ import annotations

from math import gcd

import numpy as np

from mc.lammps_text import bounds_of, fmt, frame_text

M = 1 << 20
PMUL = (611953, 387083, 918361)  # odd -> i |-> P*i mod 2^20 is injective for i < 2^20
QMUL = (104729, 15485863 % M, 32452843 % M)
RADD = (7, 300007, 800011)

TYPE_ALPHABET = [1, 2, 3, 12, 300]  # one-, two- and three-digit type labels (300 does not fit a one-byte integer)
# ascending timesteps straddling 2^31 and 10 digits; frame f of an F-frame file carries TSX[f] (F <= 12) or a formula (long files)
TSX = [0, 7, 10, 99, 100, 1000, 65536, 10**6, 2**31 - 1, 2**31, 10**10, 1234567890123]
LEDGE = [4.0, 8.0, 2.0]
# per-frame factors (powers of two) and tilt patterns: edge lengths, tilts and origin all change from frame to frame
LSCALE = [1.0, 2.0, 0.5, 4.0, 1.0, 0.25, 2.0]
TILTS = [[-1.0, 0.5, -2.0], [1.0, -0.5, 2.0], [-1.0, -0.5, -2.0], [0.0, 0.5, 0.0], [1.0, 0.0, -2.0]]
NDELTA = [0, 1, -1, 3, 0, -2, 5]
EXTRA_NAMES = ["ix", "iy", "iz", "vx", "vy", "vz", "c_pe", "c_ke", "v_q", "f_ave[1]", "f_ave[2]", "mol"]


def timestep(f, F, N):
    if F == 1:
        return TSX[N % len(TSX)]
    if F <= len(TSX):
        return TSX[f]
    return 5000 * f + (10**10 if f >= F - 2 else 0)


def frac(n, f, d):
    """[n, d] fractional coordinates of frame f: odd multiples of 2^-21 in (0, 1), distinct for distinct ids (per axis)"""
    i = np.arange(n, dtype=np.int64)
    cols = [(2 * ((PMUL[a] * i + QMUL[a] * f + RADD[a]) % M) + 1) / float(2 * M) for a in range(d)]
    return np.column_stack(cols)


def types_of(n, f):
    i = np.arange(n)
    return [TYPE_ALPHABET[k] for k in ((7 * i + 3 * f + i // 10 + (i * i) // 7) % len(TYPE_ALPHABET))]


def line_order(kind, n, f):
    """deterministic shuffles of the atom lines: i -> (a*i + b) mod n with gcd(a, n) = 1 (another a, b in every frame),
    descending, ascending"""
    if kind == "desc":
        return list(range(n))[::-1]
    if kind == "asc":
        return list(range(n))
    a = 7 + 2 * f
    while gcd(a, n) != 1:
        a += 1
    b = 3 + 5 * f
    return [(a * i + b) % n for i in range(n)]


def cell_of(case, f):
    """cell of frame f: dict(lo, L, tilts)"""
    d = case["d"]
    vary = case["vary"]
    k = f if vary else 0
    sc = LSCALE[k % len(LSCALE)]
    L = [x * sc for x in LEDGE[:d]]
    lo = [x - 1.5 * k for x in ([-2.0, 1.0, 3.0][:d])]
    tilts = None
    if case["cell"] == "tri":
        t = TILTS[k % len(TILTS)]
        tilts = [t[0] * sc, t[1] * sc if d == 3 else 0.0, t[2] * sc if d == 3 else 0.0]
    return {"lo": lo, "L": L, "tilts": tilts}


def hmat(cell, d):
    H = np.diag(np.array(cell["L"], float))
    if cell["tilts"] is not None:
        xy, xz, yz = cell["tilts"]
        H[1, 0] = xy
        if d == 3:
            H[2, 0] = xz
            H[2, 1] = yz
    return H


def extra_columns(n, f, E):
    """[n][E] strings printed in the trailing columns (image flags, floats, integers); never looked at by the reader"""
    out = []
    for i in range(n):
        row = []
        for c in range(E):
            if c < 3 or c == 11:
                row.append(str(((i + c + f) % 5) - 2))
            else:
                row.append(repr(-1.25 * (i + 1) + 0.5 * c + f))
        out.append(row)
    return out


def decorate(text, names, values, blanks):
    """append trailing columns (names on the ATOMS line, values[id0] on the atom's line) and, if `blanks`, the blank LAMMPS
    prints at the end of the ATOMS line and of every atom line"""
    lines = text.split("\n")
    assert lines[-1] == ""
    head, atoms = lines[:9], lines[9:-1]
    tail = " " if blanks else ""
    head[8] = head[8] + "".join(" " + n for n in names) + tail
    out = []
    for ln in atoms:
        if names:
            i = int(ln.split(" ", 1)[0]) - 1
            ln = ln + " " + " ".join(values[i])
        out.append(ln + tail)
    return "\n".join(head + out) + "\n"


def build_frame(case, f):
    """(text of frame f, expectation dict)"""
    d, style = case["d"], case["style"]
    F, N = case["F"], case["N"]
    n = max(1, N + NDELTA[f % len(NDELTA)]) if case["vary"] else N
    cell = cell_of(case, f)
    H = hmat(cell, d)
    lo = np.array(cell["lo"], float)
    L = np.array(cell["L"], float)
    s = frac(n, f, d)
    r = lo + s @ H
    i = np.arange(n)
    img = np.column_stack([(i % 3) - 1, (i + f) % 2, -((i + 1) % 2)])[:, :d] * L
    if style == "xs":
        coords, expect = s, r
    elif style == "xu":
        coords, expect = r + img, r + img
    elif cell["tilts"] is None:
        coords, expect = r + img, r  # wrapped style, orthogonal: excursions of one box length are folded back
    else:
        coords, expect = r, r
    types = types_of(n, f)
    fr = {"ts": timestep(f, F, N), "types": types, "lo": cell["lo"], "L": cell["L"], "tilts": cell["tilts"], "coords": coords.tolist()}
    order = line_order(case["order"], n, f)
    text = frame_text(fr, d, style, case["syntax"], "pp pp pp", "none", order)
    E = case["E"]
    if E or case["blanks"]:
        names, vals = EXTRA_NAMES[:E], extra_columns(n, f, E) if E else None
        if E and d == 2:
            # 2D runs are commonly dumped with the z column as well: for a 2D reader it is one more trailing column
            names = [{"x": "z", "xs": "zs", "xu": "zu"}[style]] + names[1:]
            vals = [["0.5" if style == "xs" else "0"] + row[1:] for row in vals]
        text = decorate(text, names, vals, case["blanks"])
    bb, rb = bounds_of(fr, d)
    exp = {"timestep": fr["ts"], "nparticle": n, "particle_type": types, "positions": np.asarray(expect, float).reshape(n, d), "boxlength": L,
           "boxbounds": np.array(bb), "realbounds": None if rb is None else np.array(rb), "hmatrix": H}
    return text, exp


def build(case):
    """(list of frame texts, list of expectations) of a scale case"""
    texts, exps = [], []
    for f in range(case["F"]):
        t, e = build_frame(case, f)
        texts.append(t)
        exps.append(e)
    return texts, exps


__all__ = ["build", "build_frame", "fmt"]
