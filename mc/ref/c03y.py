"""Helpers for the round-4 slices of C03 (and, for the storage forms, of C04 / C13): storage forms of the inputs, class-changing
trajectories, and a loop reference g(r) with an explicit bin-edge tolerance.

  * `raw_snap(s)`: snapshots that keep the caller's arrays AS GIVEN (mc.ref.base.mk_snap converts positions to float64 and the
    species to int64, which hides every storage form).  The library's own GSD reader hands out float32 positions that are a
    non-contiguous column slice, a float32 box and uint32 species (`typeid + 1`), the LAMMPS reader float64 / int64.
  * `store_positions / store_types / store_ppp / store_int`: one array in a named storage form; the VALUES are unchanged except for
    the float32 forms, whose values are the float32-rounded ones (the reference is evaluated on exactly the stored values).
  * `ref_gr_tol`: double-loop pair histogram (all columns, per-frame cells and species) with the bin-edge tolerance as a parameter
    (float32 positions: the library forms the differences in float32, so a distance is only known to ~1e-6) and with distances
    below half a bin width counted in bin 0 for sure (there is no bin on the other side of the edge r = 0: coincident particles).
  * `class_types`: species arrays per frame whose CLASS changes (sorted blocks in the first frame / in the later frames only).
Nothing here calls the routines under test."""
from __future__ import annotations

import math

import numpy as np

from mc import alphabets as A
from mc.ref.base import minimg, shell_volumes

POS_FORMS = ["f64", "f32", "strided", "f32view"]
TYPE_FORMS = ["int64", "int32", "float64", "uint32"]
PPP_FORMS = ["int64", "int32", "float64", "list", "tuple"]
BOX_FORMS = ["f64", "f32"]


# ------------------------------------------------------------------------------ storage forms
def store_positions(pos, form):
    """(n, d) positions in a storage form: 'f64' C-contiguous float64; 'fortran'; 'f32' C-contiguous float32; 'strided' a float64
    view with non-unit strides along BOTH axes; 'f32view' the first d columns of a wider float32 array (what read_gsd returns
    for a 2D system: `position[:, :ndim]`)."""
    pos = np.asarray(pos, float)
    n, d = pos.shape
    if form == "f64":
        return np.ascontiguousarray(pos)
    if form == "fortran":
        return np.asfortranarray(pos)
    if form == "f32":
        return np.ascontiguousarray(pos.astype(np.float32))
    if form == "strided":
        big = np.full((2 * n + 1, 2 * d + 1), 1.0e3)  # poison between the entries
        big[1::2, 0:2 * d:2] = pos
        v = big[1::2, 0:2 * d:2]
        assert not v.flags.c_contiguous and not v.flags.f_contiguous
        return v
    if form == "f32view":
        big = np.full((n, d + 1), -1.0e3, dtype=np.float32)
        big[:, :d] = pos.astype(np.float32)
        return big[:, :d]
    raise ValueError(form)


def stored_values(arr):
    """the values an array holds, as float64 (exact for float32)"""
    return np.array(arr, dtype=np.float64)


def store_types(types, form):
    t = np.asarray(types)
    return np.array(t, dtype={"int64": np.int64, "int32": np.int32, "float64": np.float64, "uint32": np.uint32, "uint8": np.uint8}[form])


def store_ppp(ppp, form):
    p = [int(x) for x in ppp]
    if form == "list":
        return list(p)
    if form == "tuple":
        return tuple(p)
    return np.array(p, dtype={"int64": np.int64, "int32": np.int32, "float64": np.float64}[form])


def store_int(arr, form):
    """integer table (wave vectors) in a storage form: dtypes, Fortran order, a strided view"""
    a = np.asarray(arr, dtype=np.int64)
    if form in ("int64", "int32", "int16", "int8", "uint8", "uint16"):
        out = np.ascontiguousarray(a.astype(form))
        assert np.array_equal(out.astype(np.int64), a), "values do not fit the storage type"
        return out
    if form == "fortran32":
        return np.asfortranarray(a.astype(np.int32))
    if form == "strided":
        big = np.full((2 * a.shape[0] + 1, 2 * a.shape[1] + 1), 77, dtype=np.int64)
        big[1::2, 1::2] = a
        return big[1::2, 1::2]
    raise ValueError(form)


def raw_snap(pos, H, types, boxform="f64", ts=0):
    """SingleSnapshot holding pos / types as given; box from H (float64, or float32 the way read_gsd builds it)."""
    from PyMatterSim.reader.reader_utils import SingleSnapshot

    H = np.array(H, float)
    d = H.shape[0]
    L = np.diag(H).copy()
    if boxform == "f32":
        L = L.astype(np.float32)
        H = H.astype(np.float32)
    lo = np.zeros(d)
    return SingleSnapshot(int(ts), int(pos.shape[0]), types, pos, L, np.column_stack((lo, lo + np.asarray(L, float))), None, H)


def raw_snaps(frames, Hs, types_f, boxform="f64"):
    from PyMatterSim.reader.reader_utils import Snapshots

    return Snapshots(len(frames), [raw_snap(p, Hs[f], types_f[f], boxform, ts=100 * f) for f, p in enumerate(frames)])


# ------------------------------------------------------------------------------ point sets
def dyadic_points(d, L):
    """Seven points with dyadic coordinates (exact in float32, every difference exact): one exactly at the origin, one on each of
    the faces x = L_x, y = 0 and (3D) z = L_z, two COINCIDENT points (pair distance exactly 0), two interior points.  No coordinate
    difference equals half an edge length of the boxes used (8, 9, 10) / (10, 8, 9) / (9, 10, 8), so no minimum-image tie arises in
    an orthogonal cell; tilted cells are screened by the tie margin."""
    L = [float(x) for x in L]
    p = [[0.0, 0.0, 0.0],
         [L[0], 2.5, 3.125],
         [2.5, 0.0, 7.25],
         [2.5, 0.0, 7.25],
         [1.125, 1.75, 0.5],
         [6.75, 7.5, (L[2] if d == 3 else 0.0) - 1.0],
         [3.0, 4.25, L[2] if d == 3 else 0.0]]
    return [q[:d] for q in p]


def generic_cell_points(seed, n, H, tag):
    """n generic points inside the (possibly tilted) cell; fractional coordinates shrunk by a non-dyadic factor (no exact tie)"""
    H = np.asarray(H, float)
    g = np.array(A.generic_points(seed, n, H.shape[0], tag=tag))
    return (0.5 + 0.97 * (g - 0.5)) @ H


def class_types(n, K, F, pattern):
    """species arrays of F frames, same composition (counts skewed: species a has more members than species a+1), pattern:
    'const'        the interleaved assignment in every frame
    'sorted_first' frame 0 holds the species in sorted blocks (1..1 2..2 ..), the later frames a rotated interleaved assignment
    'sorted_later' frame 0 interleaved, every later frame sorted blocks"""
    cyc = [1 + (i % K) for i in range(n)]
    # skew: turn the last particle of the highest species into species 1 when that keeps every species present
    if K > 1 and cyc.count(K) > 1:
        cyc[max(i for i, t in enumerate(cyc) if t == K)] = 1
    srt = sorted(cyc)
    out = []
    for f in range(F):
        if pattern == "const":
            out.append(list(cyc))
        elif pattern == "sorted_first":
            out.append(list(srt) if f == 0 else cyc[f:] + cyc[:f])
        elif pattern == "sorted_later":
            out.append(list(cyc) if f == 0 else list(srt))
        else:
            raise ValueError(pattern)
    return out


# ------------------------------------------------------------------------------ reference model
def tie_margin(frames, Hs, ppp):
    """smallest distance of a periodic fractional pair separation from k + 1/2 over all frames"""
    m = 1.0
    per = np.asarray(ppp).astype(bool)
    if not per.any():
        return m
    for pos, H in zip(frames, Hs):
        pos = np.asarray(pos, float)
        H = np.asarray(H, float)
        for i in range(len(pos) - 1):
            s = np.linalg.solve(H.T, (pos[i + 1:] - pos[i]).T).T[:, per] - 0.5
            if s.size:
                m = min(m, float(np.abs(s - np.round(s)).min()))
    return m


def ref_gr_tol(frames, Hs, types_f, ppp, w, edge_tol=1e-9):
    """(cols, r, lo, hi, norm, info) like mc.ref.grsq.ref_gr: per column lower / upper bounds of the normalised g; a pair within
    edge_tol of an interior bin edge may sit in either adjacent bin; a distance below w/2 is in bin 0 for sure."""
    Hs = [np.asarray(h, float) for h in Hs]
    types_f = [[int(t) for t in tf] for tf in types_f]
    F = len(frames)
    d = Hs[0].shape[0]
    L = np.diag(Hs[0])
    V = float(np.prod(L))
    nb = int(L.min() / 2.0 / w)
    t0 = types_f[0]
    N = len(t0)
    tl = sorted(set(t0))
    K = len(tl)
    cols = ["gr"]
    if 1 < K <= 5:
        cols += [f"gr{a}{b}" for a in tl for b in tl if a <= b]
    lo = {c: np.zeros(nb) for c in cols}
    hi = {c: np.zeros(nb) for c in cols}
    info = {"edge_pairs": 0, "zero_pairs": 0}
    for pos, H, tf in zip(frames, Hs, types_f):
        pos = np.asarray(pos, float)
        for i in range(N - 1):
            v = minimg(pos[i + 1:] - pos[i], H, ppp)
            for jj in range(len(v)):
                rr = math.sqrt(float((v[jj] * v[jj]).sum()))
                a, b = sorted((tf[i], tf[i + 1 + jj]))
                names = ["gr"] + ([f"gr{a}{b}"] if 1 < K <= 5 else [])
                x = rr / w
                e = int(round(x))
                if rr < 0.5 * w:
                    bins, sure = [0], True
                    info["zero_pairs"] += int(rr == 0.0)
                elif abs(x - e) * w < edge_tol:
                    bins, sure = [e - 1, e], False
                    info["edge_pairs"] += int(e <= nb)
                else:
                    bins, sure = [int(math.floor(x))], True
                for c in names:
                    for k in bins:
                        if 0 <= k < nb:
                            hi[c][k] += 1
                            if sure:
                                lo[c][k] += 1
    shell, edges = shell_volumes(nb, w, d)
    Na = {t: t0.count(t) for t in tl}
    norm = {"gr": 2.0 * V / (N * N) / F / shell}
    for c in cols[1:]:
        a, b = int(c[2]), int(c[3])
        norm[c] = (2.0 * V / (Na[a] * Na[a]) if a == b else V / (Na[a] * Na[b])) / F / shell
    r = edges[1:] - w / 2.0
    return cols, r, {c: lo[c] * norm[c] for c in cols}, {c: hi[c] * norm[c] for c in cols}, norm, info
