"""Round-4 helpers of C15: storage types of the fields (L5), particles displaced by whole cell vectors (L7), output-file names, and the letters /
module list of the call-sequence slice (L6).  Nothing here calls the routines under test."""
from __future__ import annotations

import numpy as np

# library modules whose import state is restored in every child of C15.sequence (utilities first)
SEQ_MODS = ("PyMatterSim.utils.funcs", "PyMatterSim.utils.pbc", "PyMatterSim.neighbors.read_neighbors", "PyMatterSim.dynamic.time_corr",
            "PyMatterSim.static.sq", "PyMatterSim.static.vector")

FIELD_DTYPES = ["float32", "int64", "int32", "int8"]  # real fields only: the documentation speaks of eigenvector / velocity fields
UNWRAP_N = [0, 2, -3, 4]


def unwrap(pos, H, ppp, phase=0):
    """L7: particle i displaced by sum_a n_(i,a) H[a], n from {0, +2, -3, +4}, different per particle and per axis, zero on non-periodic axes
    (unfolded `xu yu zu` coordinates are ordinary input)"""
    pos = np.array(pos, float)
    H = np.asarray(H, float)
    out = pos.copy()
    for i in range(len(pos)):
        for a in range(H.shape[0]):
            if ppp[a]:
                out[i] = out[i] + UNWRAP_N[(i + 2 * a + 1 + phase) % 4] * H[a]
    return out


def cast_field(v, dtype):
    """the field stored as `dtype` and the float64 copy of what is actually stored (the reference uses the stored values)"""
    a = np.asarray(v).astype(dtype)
    return a, a.astype(float)


def csv_path(name):
    """documented: 'filename.csv to save the calculated S(q)' - a name without the ending gets it appended"""
    return name if name.endswith(".csv") else name + ".csv"
