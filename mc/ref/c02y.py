"""Helpers of the round-4 C02 slices (exact zeros / lattice points, storage types).  Nothing here calls the library.

Zero alphabet (lesson L4): per-axis fractional values
    0, -0.0 (negative zero), +-1, -2, 3 (exact lattice points: the minimum image is exactly the zero component), 3/8 (inside the
    half cell: unchanged) and -11/8 (moved by one cell) -
so a row may be the zero vector, a lattice vector, or have SOME components zero / on a lattice point while the others are
generic.  All numbers are dyadic; with integer or dyadic cell entries s @ H is exact and (s - rint(s) m) H is the exact result.
"""
from __future__ import annotations

import itertools

import numpy as np

ZVALS = [0.0, -0.0, 1.0, -1.0, -2.0, 3.0, 0.375, -1.375]
ZVALS_QUICK3 = [0.0, -0.0, 1.0, -2.0, 0.375, -1.375]


def zero_rows(d, tier):
    """every row of ZVALS^d (3D quick: the 6-value sub-alphabet), the all-zero row first"""
    vals = ZVALS if (d == 2 or tier == "thorough") else ZVALS_QUICK3
    return np.array(list(itertools.product(vals, repeat=d)), float)


def row_class(s, m):
    """coarse class of one fractional row (for signatures): zero vector / lattice vector / some zero component / other"""
    s = np.asarray(s, float)
    if not s.any():
        return "zero_vector"
    if np.array_equal(s, np.rint(s)):
        return "lattice_vector"
    if (s == 0).any():
        return "zero_component"
    return "lattice_component" if (s == np.rint(s)).any() else "generic"


# storage forms of the dtype slice (lesson L5)
RIJ_DTYPES = ["float32", "int32", "int16", "float64_fortran"]
H_DTYPES = ["float32", "float64"]
PPP_DTYPES = ["uint8", "int8", "float32", "boollist", "uint8list", "int64"]
