"""Helpers for the C06 *scale* slice and the call-sequence search (strengthening wave 3).

* deterministic long / wide trajectories built from a small step alphabet (all coordinates are integer combinations of two
  numbers s, b that are multiples of 2^-20, so every displacement is exact in binary floating point),
* harness-written ragged neighbour lists and per-frame selection masks that change with every frame,
* vectorised numpy references of the definitions in the property (all origins for linear sampling, first frame only for log
  sampling; S4 = mean over origins of S(q) of the mobile subset).  Nothing here calls the routines under test; the loops are
  organised by ORIGIN frame (the library loops over end frames), so the two share no structure beyond the definition.
"""
from __future__ import annotations

import math
from fractions import Fraction

import numpy as np

from mc import alphabets as A

TWO20 = float(1 << 20)
CUT_MARGIN = 1e-9
KINDS = ["mixed", "arrested", "ballistic", "hopper", "diffusive"]


def qz(x):
    return round(x * TWO20) / TWO20


def steps_sb(seed):
    s = qz(0.2 + A.jitter(seed, "c06xs", 0, 0.008))
    b = qz(0.9 + A.jitter(seed, "c06xb", 0, 0.02))
    return s, b


def unit(d, a):
    e = np.zeros(d)
    e[a % d] = 1.0
    return e


def offsets(T, N, d, s, b):
    """(T, N, d) offsets from the base position.  Particle i is of kind KINDS[i % 5] (variant v = i // 5):
    mixed      walk with letters {0,+s e0,-s e1,+s e0,+s e1,+s e_last,0}[(t^2+3vt+v) mod 7]  (particle 0: it moves, with a drift)
    arrested   rattles in a cage of size s: base + s {0, e0, e0+e1, e1}[(t+v) mod 4]          (always inside the cutoff)
    ballistic  base + t s e_(v mod d)
    hopper     base + b {0, e0, e0+e1}[(t+v) mod 3]                                            (always outside the cutoff)
    diffusive  walk with letters {0,-s e0,+s e1,+s e0,-s e_last}[(3t^2+(v+1)t+2v) mod 5]
    """
    e0, e1, el = unit(d, 0), unit(d, 1), unit(d, d - 1)
    z = np.zeros(d)
    mixed = [z, s * e0, -s * e1, s * e0, s * e1, s * el, z]
    diff = [z, -s * e0, s * e1, s * e0, -s * el]
    cage = [z, s * e0, s * (e0 + e1), s * e1]
    hop = [z, b * e0, b * (e0 + e1)]
    out = np.zeros((T, N, d))
    for i in range(N):
        kind = KINDS[i % 5]
        v = i // 5
        for t in range(1, T):
            if kind == "mixed":
                out[t, i] = out[t - 1, i] + mixed[(t * t + 3 * v * t + v) % 7]
            elif kind == "diffusive":
                out[t, i] = out[t - 1, i] + diff[(3 * t * t + (v + 1) * t + 2 * v) % 5]
            elif kind == "arrested":
                out[t, i] = cage[(t + v) % 4] - cage[v % 4]
            elif kind == "ballistic":
                out[t, i] = t * s * unit(d, v)
            else:
                out[t, i] = hop[(t + v) % 3] - hop[v % 3]
    return out


def box_for(maxdisp, d):
    """integer edges, shortest edge is y (not x), half the shortest edge exceeds every displacement"""
    m = 2 * int(math.ceil(maxdisp + 0.5)) + 2
    return [float(m + 4), float(m), float(m + 2)][:d]


def trajectory(seed, T, N, d):
    """-> xs (T, N, d) unwrapped, L (list)"""
    s, b = steps_sb(seed)
    off = offsets(T, N, d, s, b)
    maxdisp = float(np.abs(off[:, None] - off[None, :]).max())
    L = box_for(maxdisp, d)
    g = np.array(A.generic_points(seed, N, d, tag=f"c06x{N}_{d}_"))
    base = np.vectorize(qz)(g * np.array(L))
    return base[None, :, :] + off, L, maxdisp


def wrap(x, L):
    x = np.asarray(x, float)
    L = np.asarray(L, float)
    return x - np.floor(x / L) * L


def types_for(N):
    return [1 + ((i * i + i // 3) % 2) for i in range(N)]


# ------------------------------------------------------------------------------------------ ragged lists, masks
def ragged_lists(N, t, kind, wide=30):
    """Neighbour lists of frame t (harness-written input): per particle a list of DISTINCT other ids, >= 1 neighbour each.
    first   only particle 0 attains the maximum coordination number (4); the others have 1..3, changing with t
    last    only particle N-1 attains it
    formula cn = 1 + (3 i + t) mod 4
    wide    particle 0 lists `wide` neighbours (30 = the default max_neighbors of Dynamics: table is not trimmed), others 1..3
    Neighbour ids are i + start .. i + start + cn - 1 (mod N) with a start that depends on (t, i): the topology of every frame differs.
    """
    cmax = min(4, N - 1)
    out = []
    for i in range(N):
        low = 1 + (i + t) % max(1, cmax - 1)
        if kind == "first":
            cn = cmax if i == 0 else low
        elif kind == "last":
            cn = cmax if i == N - 1 else low
        elif kind == "formula":
            cn = 1 + (3 * i + t) % cmax
        elif kind == "wide":
            cn = min(wide, N - 1) if i == 0 else low
        else:
            raise ValueError(kind)
        cn = min(cn, N - 1)
        start = 1 + (5 * t + 2 * i) % (N - cn) if N - cn > 0 else 1
        out.append([(i + start + j) % N for j in range(cn)])
    return out


def masks_for(T, N, kind):
    """(T, N) boolean, the same number of selected particles in every frame, a different set in every frame"""
    m = np.zeros((T, N), dtype=bool)
    for t in range(T):
        if kind == "one":
            m[t, (3 * t + 1) % N] = True
        elif kind == "most":
            m[t] = True
            m[t, t % N] = False
        elif kind == "half":
            for j in range(max(1, N // 2)):
                m[t, (t + 2 * j) % N] = True
        else:
            raise ValueError(kind)
    return m


# ------------------------------------------------------------------------------------------ references
class Ref:
    """vectorised transcription of the definitions on one trajectory"""

    def __init__(self, xs, sigma, a, fast, sel=None, nls=None):
        self.xs = np.asarray(xs, float)
        self.T, self.N, self.d = self.xs.shape
        self.sigma = np.asarray(sigma, float)
        self.cut2 = (a * self.sigma) ** 2
        self.fast = bool(fast)
        self.sel = None if sel is None else np.asarray(sel, bool)
        self.nls = nls
        self._M = {}

    def cage_matrix(self, t):
        if t not in self._M:
            M = np.zeros((self.N, self.N))
            for i, nb in enumerate(self.nls[t]):
                w = 1.0 / len(nb)
                for j in nb:
                    M[i, j] += w
            self._M[t] = M
        return self._M[t]

    def disp(self, t0, ends):
        """displacements origin t0 -> frames `ends` (K, N, d), cage-relative with the list of the ORIGIN frame"""
        dr = self.xs[ends] - self.xs[t0][None]
        if self.nls is not None:
            dr = dr - np.einsum("ij,kjd->kid", self.cage_matrix(t0), dr)
        return dr

    def mobile(self, d2, members=None):
        cut2 = self.cut2 if members is None else self.cut2[members]
        return (d2 > cut2) if self.fast else (d2 < cut2)

    def relaxation(self, qconst, times, log=False):
        """rows (t, isf, Qt, X4_Qt, msd, alpha2) for lags 1..T-1; min cutoff margin"""
        T, d = self.T, self.d
        nl = T - 1
        acc = {k: np.zeros(nl) for k in ("isf", "q", "q2", "r2", "r4")}
        cnt = np.zeros(nl)
        margin = math.inf
        nsel = self.N
        for t0 in ([0] if log else range(T - 1)):
            ends = np.arange(t0 + 1, T)
            K = len(ends)
            dr = self.disp(t0, ends)
            members = np.arange(self.N) if self.sel is None else np.flatnonzero(self.sel[t0])
            nsel = len(members)
            dr = dr[:, members]
            qi = qconst / self.sigma[members]
            d2 = (dr * dr).sum(axis=2)
            margin = min(margin, float(np.abs(d2 - self.cut2[members][None]).min()))
            Q = self.mobile(d2, members).mean(axis=1)
            acc["isf"][:K] += np.cos(dr * qi[None, :, None]).sum(axis=(1, 2)) / (nsel * d)
            acc["q"][:K] += Q
            acc["q2"][:K] += Q * Q
            acc["r2"][:K] += d2.mean(axis=1)
            acc["r4"][:K] += (d2 * d2).mean(axis=1)
            cnt[:K] += 1
        for k in acc:
            acc[k] = acc[k] / cnt
        x4 = np.zeros(nl) if log else nsel * (acc["q2"] - acc["q"] ** 2)
        cd = {3: 3.0 / 5.0, 2: 1.0 / 2.0}[d]
        with np.errstate(all="ignore"):
            alpha2 = cd * acc["r4"] / (acc["r2"] * acc["r2"]) - 1.0
        rows = np.column_stack((np.asarray(times, float)[1:], acc["isf"], acc["q"], x4, acc["r2"], alpha2))
        return rows, margin

    def sq4(self, k, pos_sq, L, qvecs):
        """mean over origins 0..T-1-k of S(q) of the mobile (x selected) subset at the origin frame, grouped by exact |q|.
        -> None when a subset is empty (outside the domain) else (groups [(key, |q|, mean S, multiplicity)], margin, sizes)"""
        pos_sq = np.asarray(pos_sq, float)
        L = [float(x) for x in L]
        qv = np.asarray(qvecs, float) * (2.0 * math.pi / np.asarray(L))[None, :]
        per_q = np.zeros(len(qv))
        sizes = []
        margin = math.inf
        no = self.T - k
        for t0 in range(no):
            dr = self.disp(t0, np.array([t0 + k]))[0]
            d2 = (dr * dr).sum(axis=1)
            margin = min(margin, float(np.abs(d2 - self.cut2).min()))
            mob = self.mobile(d2)
            if self.sel is not None:
                mob = mob & self.sel[t0]
            n = int(mob.sum())
            if n == 0:
                return None
            sizes.append(n)
            th = pos_sq[t0][mob] @ qv.T  # (n, nq)
            re = np.cos(th).sum(axis=0)
            im = np.sin(th).sum(axis=0)
            per_q += (re * re + im * im) / n
        per_q /= no
        groups = {}
        for iq, v in enumerate(qvecs):
            key = sum(Fraction(int(v[c]) ** 2) / Fraction(L[c]).limit_denominator(1 << 30) ** 2 for c in range(self.d))
            groups.setdefault(key, []).append(iq)
        out = []
        for key in sorted(groups):
            idx = groups[key]
            out.append((key, 2 * math.pi * math.sqrt(float(key)), float(per_q[idx].mean()), len(idx)))
        return out, margin, sizes


def key_gap(groups):
    """smallest gap between the |q| of two different groups (the library groups by |q| rounded to 8 decimals)"""
    q = sorted(g[1] for g in groups)
    return min((b - a for a, b in zip(q[:-1], q[1:])), default=1.0)
