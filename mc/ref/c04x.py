"""Helpers for the strengthened slices of C04 (scale slice, call-sequence search).

  * shell-ordered integer wave-vector lists of a given length (whole shells first, so |q| groups occur)
  * a vectorised density-mode reference S_ab(q) per wave vector with one species array per frame
  * |q| clustering with an explicit margin to the documented rounding boundary
Nothing here calls the routines under test."""
from __future__ import annotations

import itertools
import math

import numpy as np

from mc import alphabets as A


def shell_vectors(d, nq):
    """the first nq non-zero integer vectors ordered by |n|^2, then lexicographically"""
    r = 1
    while True:
        vs = sorted((v for v in itertools.product(range(-r, r + 1), repeat=d) if any(v)), key=lambda v: (sum(x * x for x in v), v))
        # vectors of the cube [-r, r]^d are complete only up to |n| <= r
        vs = [v for v in vs if sum(x * x for x in v) <= r * r]
        if len(vs) >= nq:
            return [list(v) for v in vs[:nq]]
        r += 1


def box_points(seed, n, L, tag):
    """n deterministic generic points in the orthogonal box L"""
    return np.array(A.generic_points(seed, n, len(L), tag=tag)) * np.asarray(L, float)


def sq_vec(frames, L, types_f, qint):
    """per-wave-vector S_ab(q) = <Re[rho_a(q) conj rho_b(q)]>_frames / sqrt(N_a N_b), S = <|rho|^2> / N with
    rho_a(q) = sum_{j in a} exp(-i q.r_j), q = 2 pi n / L.  types_f: one species array per frame.  Returns (dict, |q|)."""
    L = np.asarray(L, float)
    q = np.asarray(qint, float) * (2.0 * math.pi / L)
    types_f = [np.asarray(t) for t in types_f]
    t0 = types_f[0]
    tl = sorted(set(t0.tolist()))
    K = len(tl)
    N = len(t0)
    Na = {t: int((t0 == t).sum()) for t in tl}
    names = ["Sq"]
    if 1 < K <= 5:
        names += [f"Sq{a}{a}" for a in tl] + [f"Sq{a}{b}" for a in tl for b in tl if a < b]
    acc = {c: np.zeros(len(q)) for c in names}
    for pos, tf in zip(frames, types_f):
        ph = np.asarray(pos, float) @ q.T  # (N, nq)
        e = np.cos(ph) - 1j * np.sin(ph)
        tot = e.sum(axis=0)
        acc["Sq"] += (tot * np.conj(tot)).real / N
        if len(names) > 1:
            rho = {t: e[tf == t].sum(axis=0) for t in tl}
            for c in names[1:]:
                a, b = int(c[2]), int(c[3])
                acc[c] += (rho[a] * np.conj(rho[b])).real / math.sqrt(Na[a] * Na[b])
    F = len(frames)
    return {c: v / F for c, v in acc.items()}, np.sqrt((q * q).sum(axis=1))


def group_norms_x(qn, decimals=6, tol=1e-9, margin=1e-5):
    """as mc.ref.c04c13.group_norms, with the distance to the rounding boundary (in units of 10^-decimals) as a parameter:
    clusters |q| values that agree within `tol`; None when the documented rounding cannot decide the grouping."""
    qn = np.asarray(qn, float)
    if len(qn) == 0:
        return []
    order = np.argsort(qn, kind="stable")
    groups = [[int(order[0])]]
    for i in order[1:]:
        if qn[i] - qn[groups[-1][-1]] < tol:
            groups[-1].append(int(i))
        else:
            groups.append([int(i)])
    out = []
    for g in groups:
        ks = set(np.round(qn[g], decimals).tolist())
        if len(ks) != 1:
            return None
        x = qn[g] * 10.0**decimals
        if np.min(np.abs(x - np.floor(x) - 0.5)) < margin:
            return None
        out.append((ks.pop(), np.array(sorted(g))))
    keys = [k for k, _ in out]
    if len(set(keys)) != len(keys):
        return None
    return out
