"""Alphabets and small helpers of the round-4 slices of C09 / C10 (frame classes, output files, storage types, call words).

Nothing here calls the routines under test.  `mk_snaps_raw` only builds the library's Snapshots container around position
arrays that are passed through UNCHANGED (dtype, memory order, strides), which `mc.ref.base.mk_snaps` cannot do because it
converts every frame with np.array(.., float)."""
from __future__ import annotations

import os
import re

import numpy as np

# modules re-imported in every forked child of the call-word search (utilities first, so that `from ..utils.x import f`
# in the static modules binds the fresh functions)
LIB_MODS = ("PyMatterSim.utils.funcs", "PyMatterSim.utils.pbc", "PyMatterSim.utils.spherical_harmonics",
            "PyMatterSim.neighbors.read_neighbors", "PyMatterSim.utils.coarse_graining", "PyMatterSim.dynamic.time_corr",
            "PyMatterSim.static.gr", "PyMatterSim.static.boo")

# ------------------------------------------------------------------------------------------ frame classes (5 particles)
# neighbour-topology classes of ONE frame; what matters is the class (table width read from the file = the frame's own
# largest coordination number): 4 attained by the first / the last particle only, everybody 1, everybody 2, ragged with 3
TOPO5 = {
    "wideF": [[1, 2, 3, 4], [0], [3, 1], [4, 0, 2], [2]],
    "wideL": [[1], [2, 0], [3, 4, 1], [0], [3, 2, 1, 0]],
    "one": [[1], [2], [3], [4], [0]],
    "two": [[1, 4], [2, 0], [3, 1], [4, 2], [0, 3]],
    "mid": [[2, 1], [0, 3, 4], [4], [1, 2], [0, 1, 3]],
}
TOPO_NAMES = list(TOPO5)
MAXCN5 = {k: max(len(x) for x in v) for k, v in TOPO5.items()}


def weights_class(nl, wclass, frame, signed=False):
    """bond weights of one frame by class.
    equal  all 2.5 (an unweighted-looking frame)
    var    three-valued {0.5, 1, 2}, pattern shifted with the frame
    zero   like var, but in every row with >= 2 neighbours ONE weight is exactly 0 (a single zero weight is inside the domain,
           a row summing to zero is not)
    (the storage-type slices multiply a whole class by 2^-33 / 1e-9 / 2^27: the normalised weights are scale-free)
    int    integers {1, 2, 3} (written to the file WITHOUT a decimal point, see write_weights_tokens)
    signed (2D): every third weight of var / zero / int rows is negative (normalisation by the sum of absolute values)"""
    out = []
    for i, lst in enumerate(nl):
        row = []
        for k in range(len(lst)):
            if wclass == "equal":
                w = 2.5
            elif wclass == "int":
                w = float(1 + (i + 2 * k + frame) % 3)
            else:
                w = [0.5, 1.0, 2.0][(2 * i + k + frame) % 3]
            if signed and wclass != "equal" and (i + k + frame) % 3 == 0:
                w = -w
            row.append(w)
        if wclass == "zero" and len(row) >= 2:
            row[(i + frame) % len(row)] = 0.0
        out.append(row)
    return out


def write_weights_tokens(path, frames, classes, header):
    """weight file; frames of class 'int' are written as integer tokens ("1 2 1"), all others as repr(float)"""
    with open(path, "w") as f:
        for fr, cl in zip(frames, classes):
            f.write(header + "\n")
            for i, w in enumerate(fr):
                tok = [str(int(x)) for x in w] if cl == "int" else [repr(float(x)) for x in w]
                f.write(f"{i + 1} {len(w)} " + " ".join(tok) + "\n")


# ------------------------------------------------------------------------------------------ snapshots with raw position arrays
def store_positions(pos, form):
    """the same numbers in another storage: float64 C order (as read from a dump), float32, Fortran order, a strided view"""
    a = np.array(pos, float)
    if form == "f32":
        return a.astype(np.float32)
    if form == "fortran":
        return np.asfortranarray(a)
    if form == "strided":
        big = np.zeros((a.shape[0], 2 * a.shape[1]))
        big[:, ::2] = a
        return big[:, ::2]
    return a


def mk_snaps_raw(arrays, Hs, steps, hform="c"):
    """Snapshots whose positions are exactly the given arrays (no conversion); hform 'fortran': the cell matrix of every snapshot is
    stored Fortran-ordered (what `.T` of a C-ordered array or np.asfortranarray gives) - same numbers, other memory layout"""
    from PyMatterSim.reader.reader_utils import SingleSnapshot, Snapshots

    snaps = []
    for t, a in enumerate(arrays):
        H = np.array(Hs[t], float)
        if hform == "fortran":
            H = np.asfortranarray(H)
        L = np.diag(H).copy()
        n, d = a.shape
        snaps.append(SingleSnapshot(int(steps[t]), n, np.ones(n, dtype=int), a, L, np.column_stack((np.zeros(d), L)), None, H))
    return Snapshots(len(snaps), snaps)


# ------------------------------------------------------------------------------------------ output files
FIX6 = re.compile(r"^-?\d+\.\d{6}$")
INT_ = re.compile(r"^-?\d+$")


def read_tokens(path, skip=0):
    """rows of whitespace-separated tokens of a text file (None when the file does not exist)"""
    if not os.path.exists(path):
        return None
    with open(path) as f:
        lines = [x for x in f.read().split("\n") if x.strip()]
    return [x.split() for x in lines[skip:]]


def fixed6_table(path, shape):
    """a text file written with fmt '%.6f': (values, problem) - problem is a message when the file is missing, has another
    shape, or a token is not a fixed-point number with exactly six decimals"""
    rows = read_tokens(path)
    if rows is None:
        return None, f"{path} was not written"
    if len(rows) != shape[0] or any(len(r) != shape[1] for r in rows):
        return None, f"{path} holds {len(rows)} rows x {sorted(set(len(r) for r in rows))} columns, expected {shape}"
    if not all(FIX6.match(t) for r in rows for t in r):
        return None, f"{path}: a token is not written as %.6f"
    return np.array([[float(t) for t in r] for r in rows]).reshape(shape), None


def npy_name(name):
    """np.save appends '.npy' unless the name ends with it"""
    return name if name.endswith(".npy") else name + ".npy"


def is_text_name(name):
    return name.endswith(".dat") or name.endswith(".txt")


def rm(*names):
    for fn in names:
        if fn and os.path.exists(fn):
            os.remove(fn)


# ------------------------------------------------------------------------------------------ call words
def arr_json(a):
    a = np.asarray(a)
    if np.iscomplexobj(a):
        return {"re": a.real.tolist(), "im": a.imag.tolist(), "shape": list(a.shape)}
    return {"re": np.asarray(a, float).tolist(), "shape": list(a.shape)}


def json_equal(a, b):
    """bit-for-bit equality of two arr_json lists (floats survive JSON exactly; NaN == NaN)"""
    if len(a) != len(b):
        return False
    for x, y in zip(a, b):
        if x["shape"] != y["shape"] or ("im" in x) != ("im" in y):
            return False
        for k in ("re", "im"):
            if k in x and not np.array_equal(np.array(x[k], float), np.array(y[k], float), equal_nan=True):
                return False
    return True


def json_arr(x):
    a = np.array(x["re"], float)
    if "im" in x:
        a = a + 1j * np.array(x["im"], float)
    return a.reshape(x["shape"])
