"""C18 (purity) helpers: shared fixtures ("world"), observed state, the event alphabet, result digests,
output-file parsing, and fork isolation.

The explorer is an explicit-state search over CALL SEQUENCES.  A "state" is the whole process image as far as
the property can see it: the bytes of every array of the shared snapshots, of every shared argument array, of
every input file, of every ndarray (or mutable container) default argument of every function/method defined in
PyMatterSim, and of every module-level ndarray global of PyMatterSim.  Because default arguments and module
globals live in the *process*, "fresh fixtures" alone do not give an initial state: every sequence (and every
from-initial reference result) is therefore executed in a forked child of a worker that has itself never executed
any library routine (imports only), so each sequence really starts in the initial state and a replay in a fresh
process sees the same thing.
"""
from __future__ import annotations

import dataclasses
import hashlib
import importlib
import inspect
import io
import os
import pickle
import pkgutil
import shutil
import tempfile
import traceback

import numpy as np

from mc import alphabets as A
from mc.ref.base import minimg, mk_snaps, write_neighbor_file, write_weight_file

DT = 0.002
STEPS = [0, 100, 200]
N3, N2 = 9, 8
L3 = np.array([6.0, 7.0, 8.0])  # 3D box, centred on the origin (boxbounds.sum() == 0 -> freud path aliases positions)
L2 = np.array([7.0, 6.0])  # 2D box with origin (1, 2)
LO2 = np.array([1.0, 2.0])
TYPES3 = [1, 2, 1, 1, 2, 2, 1, 2, 1]
KSPECIES = (1, 3, 4, 5, 6)
TYPES2 = [1, 2, 1, 2, 2, 1, 1, 2]


# =========================================================================================== values
def vals(seed, tag, shape, amp=1.0, off=0.0):
    """Deterministic array from the jitter table (VERIF_SEED selects the table)."""
    n = int(np.prod(shape)) if shape else 1
    v = np.array([off + A.jitter(seed, f"{tag}{i}", 0, amp) for i in range(n)], float)
    return v.reshape(shape) if shape else float(v[0])


def _spread_points(seed, n, L, lo, tag, dmin):
    """n generic points in the box, first hash-table placement whose closest minimum-image pair is > dmin."""
    H = np.diag(L)
    for t in range(500):
        p = np.array(A.generic_points(seed, n, len(L), tag=f"{tag}{t}_")) * L + lo
        ok = True
        for i in range(n):
            d = np.linalg.norm(minimg(np.delete(p, i, axis=0) - p[i], H, [1] * len(L)), axis=1)
            if d.min() <= dmin:
                ok = False
                break
        if ok:
            return p
    raise RuntimeError("no placement found")


def _frames(seed, base, L, lo, tag):
    out = [base.copy()]
    for f in (1, 2):
        p = base + vals(seed, f"{tag}f{f}_", base.shape, 0.2)
        out.append(lo + np.mod(p - lo, L))  # wrapped (x-type coordinates)
    return out


def _knn(frames, L, kfun):
    """Reference neighbour lists: particle i gets its kfun(i) nearest minimum-image neighbours, sorted."""
    H = np.diag(L)
    nls, ws = [], []
    for p in frames:
        nl, w = [], []
        for i in range(len(p)):
            d = np.linalg.norm(minimg(p - p[i], H, [1] * len(L)), axis=1)
            order = [int(j) for j in np.argsort(d, kind="stable") if j != i][: kfun(i)]
            nl.append(order)
            w.append([1.0 / d[j] for j in order])
        nls.append(nl)
        ws.append(w)
    return nls, ws


def _dump_text(frames, types, bounds, cols="x y z", extra=None, tilt=None):
    txt = io.StringIO()
    for f, p in enumerate(frames):
        txt.write("ITEM: TIMESTEP\n%d\nITEM: NUMBER OF ATOMS\n%d\n" % (STEPS[f], len(p)))
        if tilt is None:
            txt.write("ITEM: BOX BOUNDS pp pp pp\n")
            for a in range(3):
                b = bounds[a] if a < len(bounds) else (-0.5, 0.5)
                txt.write(f"{float(b[0])!r} {float(b[1])!r}\n")
        else:
            txt.write("ITEM: BOX BOUNDS xy xz yz pp pp pp\n")
            for a in range(3):
                txt.write(f"{float(bounds[a][0])!r} {float(bounds[a][1])!r} {float(tilt[a])!r}\n")
        txt.write(f"ITEM: ATOMS id type {cols}\n")
        for i in reversed(range(len(p))):  # unsorted ids
            row = [repr(float(x)) for x in p[i]]
            if extra is not None:
                row += [repr(float(x)) for x in extra[f][i]]
            txt.write(f"{i + 1} {types[i]} " + " ".join(row) + "\n")
    return txt.getvalue()


LOG_TEXT = """LAMMPS (2 Aug 2023)
units lj
Step Temp E_pair TotEng Press
0 1.0 -6.5 -5.0 0.25
100 0.98 -6.4 -4.93 0.31
200 1.02 -6.45 -4.92 0.28
Loop time of 0.5 on 1 procs for 200 steps with 9 atoms

run 200
Step Temp E_pair TotEng Press
200 1.02 -6.45 -4.92 0.28
300 1.01 -6.47 -4.955 0.27
Loop time of 0.25 on 1 procs for 100 steps with 9 atoms
Total wall time: 0:00:01
"""


# ============================================================================================ world
class World:
    """Fresh shared fixtures in the current directory."""

    def __init__(self, seed):
        from PyMatterSim.dynamic.dynamics import Dynamics
        from PyMatterSim.static.boo import boo_2d, boo_3d

        self.seed = seed
        a = self.args = {}
        self.files = []
        # ---- snapshots
        base3 = _spread_points(seed, N3, L3, -L3 / 2, "w3", 0.9)
        base2 = _spread_points(seed, N2, L2, LO2, "w2", 0.9)
        fr3 = _frames(seed, base3, L3, -L3 / 2, "w3")
        fr2 = _frames(seed, base2, L2, LO2, "w2")
        ang = [vals(seed, f"ang{f}_", (N2,), np.pi) for f in range(3)]
        self.snaps = {
            "s3": mk_snaps(fr3, np.diag(L3), TYPES3, lo=-L3 / 2, steps=STEPS),
            "s2": mk_snaps(fr2, np.diag(L2), TYPES2, lo=LO2, steps=STEPS),
            "so2": mk_snaps([np.column_stack((np.cos(x), np.sin(x))) for x in ang], np.eye(2), TYPES2, steps=STEPS),
        }
        # unwrapped (xu-type) coordinates in the centred box: particle i sits n_i whole box vectors away from its wrapped image (a routine
        # that folds its working copy must not fold the caller's array; the centred box is where the freud path aliases the positions)
        shifts = np.array([[(0, 2, -3, 1, 0, -1, 4, 0, -2)[(i + 2 * f + 3 * k) % 9] for k in range(3)] for f in range(3) for i in range(N3)]).reshape(3, N3, 3)
        self.snaps["s3u"] = mk_snaps([np.array(x) + shifts[f] * L3 for f, x in enumerate(fr3)], np.diag(L3), TYPES3, lo=-L3 / 2, steps=STEPS)
        # the hand-unrolled unary .. quinary (and > 5 species) bodies of gr / sq each write their own output file
        for K in KSPECIES:
            self.snaps[f"s3k{K}"] = mk_snaps([np.array(x).copy() for x in fr3], np.diag(L3), [1 + (i % K) for i in range(N3)],
                                             lo=-L3 / 2, steps=STEPS)
        # ---- input files
        nl3, w3 = _knn(fr3, L3, lambda i: 3 + i % 3)
        nl2, w2 = _knn(fr2, L2, lambda i: 3 + i % 2)
        w2[0][0][1] = -w2[0][0][1]  # one negative weight: boo_2d normalises by the sum of absolutes
        write_neighbor_file("in_nl3.dat", nl3)
        write_weight_file("in_w3.dat", w3)
        write_neighbor_file("in_nl2.dat", nl2)
        write_weight_file("in_w2.dat", w2, header="id   cn   edgelengthlist")
        b3 = [(-L3[k] / 2, L3[k] / 2) for k in range(3)]
        b2 = [(LO2[k], LO2[k] + L2[k]) for k in range(2)]
        with open("in_dump3.atom", "w") as f:
            f.write(_dump_text(fr3, TYPES3, b3))
        vel = [vals(seed, f"vel{f}_", (N2, 2), 1.0) for f in range(3)]
        with open("in_dump2v.atom", "w") as f:
            f.write(_dump_text(fr2, TYPES2, b2, cols="x y vx vy", extra=vel))
        tri = [np.array([[0.5, 0.5, 0.5], [2.5, 1.0, 3.0], [1.0, 4.5, 2.0], [3.5, 3.0, 5.0]]) + vals(seed, f"tri{f}_", (4, 3), 0.2) for f in range(2)]
        with open("in_dump3tri.atom", "w") as f:  # xlo_bound etc. for lo=0, L=(4,5,6), xy=1, xz=-0.5, yz=0.5
            f.write(_dump_text(tri, [1, 2, 2, 1], [(-0.5, 5.0), (0.0, 5.5), (0.0, 6.0)], tilt=(1.0, -0.5, 0.5)))
        with open("in_dumpmol.atom", "w") as f:
            f.write(_dump_text(fr3, [1, 2, 3, 1, 2, 3, 1, 2, 3], b3, cols="xu yu zu"))
        with open("in_log.lammps", "w") as f:
            f.write(LOG_TEXT)
        self.files = ["in_nl3.dat", "in_w3.dat", "in_nl2.dat", "in_w2.dat", "in_dump3.atom", "in_dump2v.atom",
                      "in_dump3tri.atom", "in_dumpmol.atom", "in_log.lammps"]
        # ---- argument arrays
        t3 = np.array(TYPES3)
        a["ppp3"] = np.array([1, 1, 1])
        a["ppp2"] = np.array([1, 1])
        a["ppp0"] = np.array([0, 0, 0])
        a["cond_bool3"] = t3 == 1
        a["cond_float3"] = vals(seed, "cf", (N3,), 1.0, 0.3)
        a["cond_cplx3"] = vals(seed, "ccr", (N3,), 1.0) + 1j * vals(seed, "cci", (N3,), 1.0)
        a["cond_vec3"] = vals(seed, "cv", (N3, 3), 1.0)
        a["cond_tens3"] = vals(seed, "ct", (N3, 3, 3), 1.0)
        a["qvec3"] = np.array([[1, 0, 0], [0, 1, 0], [0, 0, 1], [-1, 0, 0], [1, 1, 0], [0, 2, 1], [2, 0, 0]])
        a["qvec2"] = np.array([[1, 0], [0, 1], [1, 1], [-1, 1], [2, 0]])
        a["qvec3f"] = a["qvec3"][:5].astype(np.float64)  # a caller may pass the integer wave vectors as floats
        sel = np.zeros((3, N3), bool)
        for f in range(3):
            sel[f, [(f + k) % N3 for k in (0, 2, 3, 5, 7)]] = True
        a["sel_FN"] = sel
        a["sel_FN_float"] = sel.astype(float)
        a["tc_scalar"] = vals(seed, "tsr", (3, N3), 1.0) + 1j * vals(seed, "tsi", (3, N3), 1.0)
        a["tc_vec"] = vals(seed, "tv", (3, N3, 3), 1.0)
        a["tc_tens"] = vals(seed, "tt", (3, N2, 2, 2), 1.0)
        a["vec3"] = vals(seed, "v3", (N3, 3), 1.0)
        a["vec2"] = vals(seed, "v2", (N2, 2), 1.0)
        a["vectors3"] = vals(seed, "vs3", (3, N3, 3), 1.0)
        a["sigmas"] = np.array([[1.0, 1.1], [1.1, 1.2]])
        a["s2sigmas"] = np.array([[0.3, 0.35], [0.35, 0.4]])
        a["rcutmat"] = np.array([[3.0, 3.4], [3.4, 3.8]])
        a["epsilons"] = np.array([[1.0, 1.5], [1.5, 0.5]])
        a["hsigmas"] = np.array([[1.0, 0.8], [0.8, 0.88]])
        a["rcuts"] = np.array([[2.5, 2.0], [2.0, 2.2]])
        a["ngrids3"] = np.array([2, 3, 2])
        a["ngrids2"] = np.array([3, 2])
        a["blur_scalar"] = vals(seed, "bs", (3, N3), 1.0)
        a["blur_vec"] = vals(seed, "bv", (3, N2, 2), 1.0)
        a["filon_t"] = np.arange(9) * 0.25
        a["filon_C"] = np.exp(-a["filon_t"]) * np.cos(3 * a["filon_t"]) + vals(seed, "fc", (9,), 0.01)
        a["pos_group3"] = vals(seed, "pg3", (5, 3), 2.0, 10.0)
        a["pos_group2"] = vals(seed, "pg2", (4, 2), 2.0, -5.0)
        m = vals(seed, "hm", (2 * N2, 2 * N2), 1.0)
        ev, evec = np.linalg.eigh(m @ m.T + np.eye(2 * N2))
        a["eigfreq"] = np.sqrt(ev)
        a["eigvec"] = evec
        a["tri2"] = np.array([[1.5, 2.5], [7.5, 3.0], [4.0, 7.5]]) + vals(seed, "tr", (3, 2), 0.2)
        a["sqP1"], a["sqP2"], a["sqP3"], a["sqP4"] = (np.array(x, float) for x in ([-1, -1], [1, -1], [1, 1], [-1, 1]))
        a["sqR0"] = vals(seed, "r0", (2,), 0.5)
        a["sqvec"] = vals(seed, "sv", (2,), 0.5, 1.0)
        a["RIJ3"] = vals(seed, "rij", (5, 3), 6.0)
        a["tavg_prop"] = vals(seed, "tap", (3, N3), 1.0) + 1j * vals(seed, "tapi", (3, N3), 1.0)
        a["savg_prop"] = vals(seed, "sap", (3, N3, 3), 1.0)
        a["cage_RII"] = vals(seed, "cr", (N3, 3), 0.5)
        cn = np.zeros((N3, 6), dtype=np.int32)
        for i, l in enumerate(nl3[0]):
            cn[i, 0] = len(l)
            cn[i, 1:1 + len(l)] = l
        a["cage_cn"] = cn
        a["s2int_bins"] = np.arange(30) * 0.1 + 0.05
        a["s2int_gr"] = 1.0 + 0.5 * np.cos(a["s2int_bins"] * 4) * np.exp(-a["s2int_bins"]) + vals(seed, "sg", (30,), 0.01)
        a["gauss_d"] = vals(seed, "gd", (7,), 2.0, 2.0)
        a["fit_x"] = np.linspace(0.0, 2.0, 12)
        a["fit_y"] = 1.5 * np.exp(-a["fit_x"] / 0.7) + vals(seed, "fy", (12,), 0.01)
        a["boxbounds3"] = np.array(b3)
        a["boxbounds2"] = np.array(b2)
        # ---- shared analysis objects (constructed once; their methods are events)
        self.boo3 = boo_3d(self.snaps["s3"], 4, "in_nl3.dat", weightsfile="in_w3.dat", ppp=a["ppp3"], Nmax=8)
        self.boo2 = boo_2d(self.snaps["s2"], 6, "in_nl2.dat", weightsfile="in_w2.dat", ppp=a["ppp2"], Nmax=6)
        self.dyn = Dynamics(x_snapshots=self.snaps["s3"], dt=DT, ppp=a["ppp3"], diameters={1: 1.0, 2: 1.2}, a=0.3)


# ================================================================================== observed state
def _h(b):
    return hashlib.sha256(b).hexdigest()[:20]


def _arr_bytes(x):
    x = np.asarray(x)
    if x.dtype == object:
        return repr(x.tolist()).encode()
    return str(x.dtype).encode() + str(x.shape).encode() + np.ascontiguousarray(x).tobytes()


_FUNCS = None


def library_functions():
    """Every function / method defined in a PyMatterSim module (collected once, in the pristine process)."""
    global _FUNCS
    if _FUNCS is not None:
        return _FUNCS
    import PyMatterSim

    out, mods = [], []
    for m in pkgutil.walk_packages(PyMatterSim.__path__, "PyMatterSim."):
        try:
            mod = importlib.import_module(m.name)
        except Exception:  # voro++ / gsd helpers may be unimportable; they are not part of the alphabet
            continue
        mods.append(mod)
        for n, o in list(vars(mod).items()):
            if getattr(o, "__module__", None) != m.name:
                continue
            if inspect.isfunction(o):
                out.append((f"{m.name}.{n}", o))
            elif inspect.isclass(o):
                for k, f in list(vars(o).items()):
                    f = f.__func__ if isinstance(f, (staticmethod, classmethod)) else f
                    if inspect.isfunction(f):
                        out.append((f"{m.name}.{n}.{k}", f))
    _FUNCS = (out, mods)
    return _FUNCS


def _default_items(f):
    for p in inspect.signature(f).parameters.values():
        if p.default is not inspect.Parameter.empty:
            yield p.name, p.default


def observe(W):
    """Component-wise digest of everything a call could have modified."""
    comp = {}
    for name, S in W.snaps.items():
        comp[f"snap:{name}.nsnapshots"] = _h(repr((S.nsnapshots, len(S.snapshots))).encode())
        for f, s in enumerate(S.snapshots):
            for fld in dataclasses.fields(s):
                v = getattr(s, fld.name)
                b = _arr_bytes(v) if isinstance(v, np.ndarray) else repr(v).encode()
                comp[f"snap:{name}[{f}].{fld.name}"] = _h(b)
    for k, v in W.args.items():
        comp[f"arg:{k}"] = _h(_arr_bytes(v))
    for p in W.files:
        with open(p, "rb") as fh:
            comp[f"file:{p}"] = _h(fh.read())
    funcs, mods = library_functions()
    for qn, f in funcs:
        for pname, v in _default_items(f):
            if isinstance(v, np.ndarray):
                comp[f"default:{qn}({pname})"] = _h(_arr_bytes(v))
            elif isinstance(v, (dict, list, set)):
                comp[f"default:{qn}({pname})"] = _h(repr(v).encode())
    for mod in mods:
        for n, o in list(vars(mod).items()):
            if isinstance(o, np.ndarray):
                comp[f"global:{mod.__name__}.{n}"] = _h(_arr_bytes(o))
    return comp


def state_digest(comp):
    return _h(repr(sorted(comp.items())).encode())


def coarse(component):
    """Component name without frame index (for the violation signature)."""
    import re

    return re.sub(r"\[\d+\]", "[*]", component)


# ================================================================================== result digests
def _feed(h, o, stats):
    import pandas as pd

    if o is None or isinstance(o, (bool, int)):
        h.update(repr(o).encode())
    elif isinstance(o, str):
        h.update(b"S" + o.encode())
        stats.extend(range(min(len(o) // 8, 3)))
    elif isinstance(o, (float, complex, np.floating, np.complexfloating, np.integer, np.bool_)):
        _feed(h, np.asarray(o), stats)
    elif isinstance(o, np.ndarray):
        h.update(b"A" + _arr_bytes(o))
        if o.dtype.kind in "fciu" and o.size:
            v = np.asarray(o).ravel()
            v = np.concatenate((v.real, v.imag)) if o.dtype.kind == "c" else v.astype(float)
            stats.extend(np.unique(v[np.isfinite(v)])[:4].tolist())
        elif o.dtype == object:
            stats.extend(range(min(o.size, 3)))
    elif isinstance(o, pd.DataFrame):
        h.update(b"DF" + repr([str(c) for c in o.columns]).encode())
        for c in o.columns:
            _feed(h, o[c].to_numpy(), stats)
        _feed(h, np.asarray(o.index), [])
    elif isinstance(o, pd.Series):
        _feed(h, o.to_numpy(), stats)
    elif isinstance(o, (list, tuple)):
        h.update(b"L%d" % len(o))
        for x in o:
            _feed(h, x, stats)
    elif isinstance(o, dict):
        h.update(b"D%d" % len(o))
        for k in sorted(o, key=str):
            h.update(str(k).encode())
            _feed(h, o[k], stats)
    elif isinstance(o, bytes):
        h.update(b"B" + o)
        stats.extend(range(min(len(o) // 8, 3)))
    elif dataclasses.is_dataclass(o):
        h.update(type(o).__name__.encode())
        for fld in dataclasses.fields(o):
            _feed(h, getattr(o, fld.name), stats)
    else:
        h.update(repr(o).encode())


def result_digest(res):
    """(bit-exact digest, non-trivial?) of whatever an event returned / wrote."""
    h = hashlib.sha256()
    stats = []
    _feed(h, res, stats)
    return h.hexdigest()[:24], len(set(stats)) >= 2


def fbytes(*paths):
    out = {}
    for p in paths:
        with open(p, "rb") as f:
            out[p] = f.read()
    return out


# ================================================================================ output-file checks
def _token(tok):
    """(value, half a unit of the last WRITTEN digit) of one number as it stands in a text file."""
    t = tok.strip().lower()
    if t == "":
        return float("nan"), 0.0
    v = float(t)  # a non-numeric token is a malformed output file -> ValueError -> reported
    if not np.isfinite(v):
        return v, 0.0
    mant, _, ex = t.partition("e")
    frac = mant.partition(".")[2]
    return v, 0.5 * 10.0 ** ((int(ex) if ex else 0) - len(frac))


def _table(path, delim, skiprows):
    with open(path, "r", encoding="utf-8") as f:
        lines = [ln.rstrip("\n") for ln in f.readlines()]
    head, rows = lines[:skiprows], [ln for ln in lines[skiprows:] if ln.strip() != ""]
    toks = [(ln.split(delim) if delim else ln.split()) for ln in rows]
    w = max((len(t) for t in toks), default=0)
    if any(len(t) != w for t in toks):
        raise ValueError(f"{path}: ragged table")
    val = np.zeros((len(toks), w))
    hu = np.zeros((len(toks), w))
    for i, t in enumerate(toks):
        for j, x in enumerate(t):
            val[i, j], hu[i, j] = _token(x)
    return head, val, hu


def _cmp(got, ref, hu=None):
    """None if `got` (parsed from the file) equals `ref` (returned) to the written precision `hu`, else a message."""
    got = np.asarray(got)
    ref = np.asarray(ref)
    if got.shape != ref.shape:
        return f"shape {got.shape} in file vs {ref.shape} returned"
    if hu is None or ref.dtype.kind in "iub":
        bad = ~((got == ref) | ((got != got) & (ref != ref)))  # exact (binary file, or integers)
    else:
        bad = ~((np.abs(got - ref) <= hu * (1 + 1e-9) + 8 * np.finfo(float).eps * np.abs(ref)) | (np.isnan(got) & np.isnan(ref)) | (got == ref))
    if np.any(bad):
        k = tuple(np.argwhere(np.atleast_1d(bad))[0])
        return f"entry {list(map(int, k))}: file {np.atleast_1d(got)[k]!r} vs returned {np.atleast_1d(ref)[k]!r}"
    return None


def check_file(spec):
    """spec = dict(path, kind in csv|npy|txt, value, [skiprows]) -> None or message.  Text files are compared at the
    precision that is actually written: |file - returned| <= half a unit of the last digit of each token."""
    p = spec["path"]
    if not os.path.exists(p):
        return f"{p} was not written"
    kind, val = spec["kind"], spec["value"]
    if kind == "npy":
        return _cmp(np.load(p, allow_pickle=False), val)
    if kind == "txt":
        _, got, hu = _table(p, None, spec.get("skiprows", 0))
        ref = np.asarray(val)
        ref = ref.reshape(got.shape) if ref.size == got.size else ref
        return _cmp(got, ref, hu)
    if kind == "csv":
        head, got, hu = _table(p, ",", 1)
        cols = [str(c) for c in val.columns]
        if head[0].split(",") != cols:
            return f"columns {head[0]} in file vs {cols} returned"
        if got.shape != val.shape:
            return f"{got.shape} table in file vs {val.shape} returned"
        for j, c in enumerate(val.columns):
            m = _cmp(got[:, j], val[c].to_numpy(), hu[:, j])
            if m:
                return f"column {c}: {m}"
        return None
    raise ValueError(kind)


# ==================================================================================== the events
EVENTS = {}


def event(name):
    def deco(fn):
        EVENTS[name] = fn
        return fn

    return deco


def F(path, kind, value, fmt=None, **kw):
    """fmt = digits written by the unchanged code (documentation only: the check reads the precision off the file)."""
    return dict(path=path, kind=kind, value=value, fmt=fmt, **kw)


# ---- readers / writers -----------------------------------------------------------------------------
@event("read.dump3")
def _(W):
    from PyMatterSim.reader.dump_reader import DumpReader

    r = DumpReader("in_dump3.atom", ndim=3)
    r.read_onefile()
    return r.snapshots, []


@event("read.dump3tri")
def _(W):
    from PyMatterSim.reader.lammps_reader_helper import read_lammps_wrapper

    return read_lammps_wrapper("in_dump3tri.atom", 3), []


@event("read.dump2")
def _(W):
    from PyMatterSim.reader.lammps_reader_helper import read_lammps_wrapper

    return read_lammps_wrapper("in_dump2v.atom", 2), []


@event("read.center")
def _(W):
    from PyMatterSim.reader.dump_reader import DumpReader
    from PyMatterSim.reader.reader_utils import DumpFileType

    r = DumpReader("in_dumpmol.atom", ndim=3, filetype=DumpFileType.LAMMPSCENTER, moltypes={3: 1, 1: 2})
    r.read_onefile()
    return r.snapshots, []


@event("read.vector")
def _(W):
    from PyMatterSim.reader.lammps_reader_helper import read_lammps_vector_wrapper

    return read_lammps_vector_wrapper("in_dump2v.atom", 2, [5, 6]), []


@event("read.additions")
def _(W):
    from PyMatterSim.reader.lammps_reader_helper import read_additions

    return read_additions("in_dump2v.atom", 4), []


@event("read.log")
def _(W):
    from PyMatterSim.reader.simulation_log import read_lammpslog

    return read_lammpslog("in_log.lammps"), []


@event("read.neighbors")
def _(W):
    from PyMatterSim.neighbors.read_neighbors import read_neighbors

    out = []
    with open("in_nl3.dat") as f:
        for nmax in (200, 4, 3):
            out.append(read_neighbors(f, N3, nmax))
    with open("in_w3.dat") as f:
        out.append(read_neighbors(f, N3, 4))
    return out, []


@event("write.headers")
def _(W):
    from PyMatterSim.writer.lammps_writer import write_data_header, write_dump_header

    return [write_dump_header(7, N3, W.args["boxbounds3"], addson="q6"), write_dump_header(0, N2, W.args["boxbounds2"]),
            write_data_header(N3, 2, W.args["boxbounds3"]), write_data_header(N2, 2, W.args["boxbounds2"])], []


# ---- g(r), S(q) ------------------------------------------------------------------------------------
@event("gr3")
def _(W):
    from PyMatterSim.static.gr import gr

    r = gr(W.snaps["s3"], ppp=W.args["ppp3"], rdelta=0.25, outputfile="o_gr3.csv").getresults()
    return r, [F("o_gr3.csv", "csv", r, 6)]


@event("gr2")
def _(W):
    from PyMatterSim.static.gr import gr

    r = gr(W.snaps["s2"], ppp=W.args["ppp2"], rdelta=0.25, outputfile="o_gr2.csv").getresults()
    return r, [F("o_gr2.csv", "csv", r, 6)]


def _cgr(W, cond, ctype=None):
    from PyMatterSim.static.gr import conditional_gr

    return conditional_gr(W.snaps["s3"].snapshots[1], W.args[cond], conditiontype=ctype, ppp=W.args["ppp3"], rdelta=0.25), []


@event("cgr.bool")
def _(W):
    return _cgr(W, "cond_bool3")


@event("cgr.float")
def _(W):
    return _cgr(W, "cond_float3")


@event("cgr.complex")
def _(W):
    return _cgr(W, "cond_cplx3")


@event("cgr.vector")
def _(W):
    return _cgr(W, "cond_vec3", "vector")


@event("cgr.tensor")
def _(W):
    return _cgr(W, "cond_tens3", "tensor")


@event("sq3")
def _(W):
    from PyMatterSim.static.sq import sq

    r = sq(W.snaps["s3"], qvector=W.args["qvec3"], saveqvectors=True, outputfile="o_sq3.csv").getresults()
    return [r, fbytes("o_sq3_qvectors.csv")], [F("o_sq3.csv", "csv", r, 6)]


@event("sq2.default")
def _(W):
    from PyMatterSim.static.sq import sq

    r = sq(W.snaps["s2"], qrange=3.0, onlypositive=False, outputfile="o_sq2.csv").getresults()
    return r, [F("o_sq2.csv", "csv", r, 6)]


def _mk_k_events(K):
    @event(f"gr3.k{K}")
    def _g(W):
        from PyMatterSim.static.gr import gr

        r = gr(W.snaps[f"s3k{K}"], ppp=W.args["ppp3"], rdelta=0.25, outputfile=f"o_gr3k{K}.csv").getresults()
        return r, [F(f"o_gr3k{K}.csv", "csv", r, 6)]

    @event(f"sq3.k{K}")
    def _s(W):
        from PyMatterSim.static.sq import sq

        r = sq(W.snaps[f"s3k{K}"], qvector=W.args["qvec3"], outputfile=f"o_sq3k{K}.csv").getresults()
        return r, [F(f"o_sq3k{K}.csv", "csv", r, 6)]


for _K in KSPECIES:
    _mk_k_events(_K)


def _csq(W, cond, q="qvec3"):
    from PyMatterSim.static.sq import conditional_sq

    return list(conditional_sq(W.snaps["s3"].snapshots[2], W.args[q], W.args[cond])), []


@event("csq.bool")
def _(W):
    return _csq(W, "cond_bool3")


@event("csq.float")
def _(W):
    return _csq(W, "cond_float3", "qvec3f")


@event("csq.vector")
def _(W):
    return _csq(W, "cond_vec3")


# ---- bond-orientational order ----------------------------------------------------------------------
@event("boo3.init")
def _(W):
    from PyMatterSim.static.boo import boo_3d

    b = boo_3d(W.snaps["s3"], 6, "in_nl3.dat", weightsfile=None, ppp=W.args["ppp3"], Nmax=4)
    return [b.smallqlm, b.largeQlm], []


@event("boo3.qlm")
def _(W):
    return list(W.boo3.qlm_Qlm()), []


@event("boo3.ql")
def _(W):
    r = W.boo3.ql_Ql(coarse_graining=False, outputfile="o_ql.dat")
    return r, [F("o_ql.dat.npy", "npy", r), F("o_ql.dat", "txt", r, 6)]


@event("boo3.Ql")
def _(W):
    r = W.boo3.ql_Ql(coarse_graining=True, outputfile="o_Ql.npy")
    return r, [F("o_Ql.npy", "npy", r)]


@event("boo3.sij")
def _(W):
    c = 0.2
    r = W.boo3.sij_ql_Ql(coarse_graining=False, c=c, outputqlQl="o_sijsum.csv", outputsij="o_sij.txt")
    import pandas as pd

    summ = pd.DataFrame({"id": r[:, 0], "sum_sij": (r[:, 2:].astype(np.float32) > np.float32(c)).sum(axis=1), "num_neighbors": r[:, 1]})
    return r, [F("o_sij.txt", "txt", r, 6, skiprows=1), F("o_sijsum.csv", "csv", summ, None)]


@event("boo3.Sij")
def _(W):
    return W.boo3.sij_ql_Ql(coarse_graining=True, c=0.7), []


@event("boo3.w")
def _(W):
    w, wc = W.boo3.w_W_cap(coarse_graining=False, outputw="o_w.txt", outputwcap="o_wcap.npy")
    return [w, wc], [F("o_w.txt.npy", "npy", w), F("o_w.txt", "txt", w, 6), F("o_wcap.npy", "npy", wc)]


@event("boo3.W")
def _(W):
    w, wc = W.boo3.w_W_cap(coarse_graining=True, outputwcap="o_Wcap.dat")
    return [w, wc], [F("o_Wcap.dat.npy", "npy", wc), F("o_Wcap.dat", "txt", wc, 6)]


@event("boo3.spatial")
def _(W):
    r = W.boo3.spatial_corr(coarse_graining=False, rdelta=0.25, outputfile="o_b3sp.csv")
    return r, [F("o_b3sp.csv", "csv", r, 8)]


@event("boo3.time")
def _(W):
    r = W.boo3.time_corr(coarse_graining=True, dt=DT, outputfile="o_b3t.csv")
    return r, [F("o_b3t.csv", "csv", r, 8)]


@event("boo2.init")
def _(W):
    from PyMatterSim.static.boo import boo_2d

    b = boo_2d(W.snaps["s2"], 4, "in_nl2.dat", weightsfile="in_w2.dat", ppp=W.args["ppp2"], Nmax=6, output_phi="o_phi.npy")
    return b.ParticlePhi, [F("o_phi.npy", "npy", b.ParticlePhi)]


@event("boo2.init_now")
def _(W):
    from PyMatterSim.static.boo import boo_2d

    return boo_2d(W.snaps["s2"], 6, "in_nl2.dat", ppp=W.args["ppp2"], Nmax=3).ParticlePhi, []


@event("boo2.lthorder")
def _(W):
    return W.boo2.lthorder(), []


@event("boo2.tavg")
def _(W):
    q, ids = W.boo2.time_average(time_period=0.4, dt=DT, average_complex=True, outputfile="o_b2ta")
    return [q, ids], [F("o_b2ta.npy", "npy", q), F("o_b2ta.snapshot_id.dat", "txt", ids, None, skiprows=1)]


@event("boo2.tavg_sep")
def _(W):
    q, ids = W.boo2.time_average(time_period=0.2, dt=DT, average_complex=False, outputfile="o_b2ts")
    return [q, ids], [F("o_b2ts.npy", "npy", q), F("o_b2ts.snapshot_id.dat", "txt", ids, None, skiprows=1)]


@event("boo2.spatial")
def _(W):
    r = W.boo2.spatial_corr(rdelta=0.25, outputfile="o_b2sp.csv")
    return r, [F("o_b2sp.csv", "csv", r, 8)]


@event("boo2.time")
def _(W):
    r = W.boo2.time_corr(dt=DT, outputfile="o_b2t.csv")
    return r, [F("o_b2t.csv", "csv", r, 8)]


# ---- local order ------------------------------------------------------------------------------------
@event("tetra")
def _(W):
    from PyMatterSim.static.geometric import q8_tetrahedral

    r = q8_tetrahedral(W.snaps["s3"], ppp=W.args["ppp3"], outputfile="o_tetra.npy")
    return r, [F("o_tetra.npy", "npy", r)]


@event("packing")
def _(W):
    from PyMatterSim.static.geometric import packing_capability_2d

    r = packing_capability_2d(W.snaps["s2"], W.args["sigmas"], "in_nl2.dat", ppp=W.args["ppp2"], outputfile="o_pack.npy")
    return r, [F("o_pack.npy", "npy", r)]


def _hessian(W, key, idx, ppp, model, out):
    import pandas as pd
    from PyMatterSim.static.hessians import HessianMatrix, InteractionParams, ModelName

    a = W.args
    h = HessianMatrix(W.snaps[key].snapshots[idx], {1: 1.0, 2: 2.5}, a["epsilons"], a["hsigmas"], a["rcuts"], a[ppp], shiftpotential=True)
    ret = h.diagonalize_hessian(model(ModelName, InteractionParams), saveevecs=True, savehessian=True, outputfile=out)
    return [ret, np.load(out + ".hessianmatrix.npy"), np.load(out + ".evecs.npy"),
            pd.read_csv(out + ".omega_PR.csv", float_precision="round_trip")], []


@event("hessian3")
def _(W):
    return _hessian(W, "s3", 0, "ppp3", lambda M, P: P(model_name=M.lennard_jones), "o_h3")


@event("hessian2")
def _(W):
    return _hessian(W, "s2", 2, "ppp2", lambda M, P: P(model_name=M.inverse_power_law, ipl_n=10, ipl_A=1.0), "o_h2")


@event("hess.pair")
def _(W):
    from PyMatterSim.static.hessians import InteractionParams, ModelName, PairInteractions

    a = W.args
    out = []
    for m, kw in ((ModelName.lennard_jones, {}), (ModelName.inverse_power_law, dict(ipl_n=12, ipl_A=1.0)), (ModelName.harmonic_hertz, dict(harmonic_hertz_alpha=2.5))):
        for shift in (True, False):
            out.append(PairInteractions(r=1.1, epsilon=a["epsilons"][0, 1], sigma=a["hsigmas"][0, 1], r_c=a["rcuts"][0, 1], shift=shift).caller(InteractionParams(model_name=m, **kw)))
    return out, []


def _nematic(W):
    from PyMatterSim.static.nematic import NematicOrder

    return NematicOrder(W.snaps["so2"], W.snaps["s2"])


@event("nematic.tensor")
def _(W):
    n = _nematic(W)
    r = n.tensor(ndim=2, neighborfile="in_nl2.dat", Nmax=6, outputfile="o_nem")
    return [r, n.QIJ], [F("o_nem.Qtrace.npy", "npy", r), F("o_nem.QIJ_cg.npy", "npy", n.QIJ)]


@event("nematic.eig")
def _(W):
    n = _nematic(W)
    r = n.tensor(ndim=2, eigvals=True, outputfile="o_neme")
    return [r, n.QIJ], [F("o_neme.eigval.npy", "npy", r), F("o_neme.QIJ_raw.npy", "npy", n.QIJ)]


@event("nematic.spatial")
def _(W):
    n = _nematic(W)
    n.tensor(ndim=2, outputfile="o_nems")
    r = n.spatial_corr(rdelta=0.25, ppp=W.args["ppp2"], outputfile="o_nemsp.csv")
    return r, [F("o_nemsp.csv", "csv", r, 8)]


@event("nematic.time")
def _(W):
    n = _nematic(W)
    n.tensor(ndim=2, neighborfile="in_nl2.dat", outputfile="o_nemt")
    r = n.time_corr(dt=DT, outputfile="o_nemt.csv")
    return r, [F("o_nemt.csv", "csv", r, 8)]


def _s2(W):
    from PyMatterSim.static.pairentropy import S2

    return S2(W.snaps["s3"], W.args["s2sigmas"], ppp=W.args["ppp3"], rdelta=0.1, ndelta=30)


@event("s2.particle")
def _(W):
    s, g = _s2(W).particle_s2(savegr=True, outputfile="o_s2.npy")
    return [s, g], [F("o_s2.npy", "npy", s), F("particle_gr.o_s2.npy", "npy", g)]


@event("s2.spatial")
def _(W):
    o = _s2(W)
    o.particle_s2()
    r = o.spatial_corr(mean_norm=True, outputfile="o_s2sp.csv")
    return r, [F("o_s2sp.csv", "csv", r, 8)]


@event("s2.time")
def _(W):
    o = _s2(W)
    o.particle_s2()
    r = o.time_corr(dt=DT, outputfile="o_s2t.csv")
    return r, [F("o_s2t.csv", "csv", r, 6)]


@event("s2.integral")
def _(W):
    from PyMatterSim.static.pairentropy import s2_integral

    return [s2_integral(W.args["s2int_gr"], W.args["s2int_bins"], 3), s2_integral(W.args["s2int_gr"], W.args["s2int_bins"], 2)], []


@event("gyration.group")
def _(W):
    from PyMatterSim.static.shape import gyration_tensor

    return [gyration_tensor(W.args["pos_group3"]), gyration_tensor(W.args["pos_group2"])], []


@event("gyration.snap")
def _(W):
    from PyMatterSim.static.shape import gyration_tensor

    return [gyration_tensor(W.snaps["s3"].snapshots[2].positions), gyration_tensor(W.snaps["s2"].snapshots[0].positions)], []


# ---- vector fields ----------------------------------------------------------------------------------
@event("vec.pr_align_pq")
def _(W):
    from PyMatterSim.static.vector import local_vector_alignment, participation_ratio, phase_quotient

    v = W.args["vec3"]
    return [participation_ratio(v), local_vector_alignment(v, "in_nl3.dat"), phase_quotient(v, "in_nl3.dat")], []


@event("vec.divcurl")
def _(W):
    from PyMatterSim.static.vector import divergence_curl

    d3 = divergence_curl(W.snaps["s3"].snapshots[0], W.args["vec3"], W.args["ppp3"], "in_nl3.dat")
    d2 = divergence_curl(W.snaps["s2"].snapshots[0], W.args["vec2"], W.args["ppp2"], "in_nl2.dat")
    return [list(d3), d2], []


@event("vec.vibrability")
def _(W):
    from PyMatterSim.static.vector import vibrability

    r = vibrability(W.args["eigfreq"], W.args["eigvec"], N2, outputfile="o_vib.npy")
    return r, [F("o_vib.npy", "npy", r)]


@event("vec.decomp")
def _(W):
    from PyMatterSim.static.vector import vector_decomposition_sq

    full, ave = vector_decomposition_sq(W.snaps["s3"].snapshots[0], W.args["qvec3"], W.args["vec3"], outputfile="o_vdec")
    return [full, ave], [F("o_vdec.csv", "csv", ave, 8)]


@event("vec.fftcorr")
def _(W):
    from PyMatterSim.static.vector import vector_fft_corr

    r = vector_fft_corr(W.snaps["s3"], W.args["qvec3"], W.args["vectors3"], dt=DT, outputfile="o_vfc")
    return [r, fbytes("o_vfc.spectra.csv")], [F(f"o_vfc.{k}.npy", "npy", r[k].values) for k in ("FFT", "T_FFT", "L_FFT")]


# ---- neighbours -------------------------------------------------------------------------------------
@event("nn.nearest")
def _(W):
    from PyMatterSim.neighbors.calculate_neighbors import Nnearests

    ret = Nnearests(W.snaps["s3"], N=4, ppp=W.args["ppp3"], fnfile="o_nn.dat")
    return [ret, fbytes("o_nn.dat")], []


@event("nn.cutoff")
def _(W):
    from PyMatterSim.neighbors.calculate_neighbors import cutoffneighbors

    ret = cutoffneighbors(W.snaps["s2"], 2.6, ppp=W.args["ppp2"], fnfile="o_nc.dat")
    return [ret, fbytes("o_nc.dat")], []


@event("nn.cutoff_type")
def _(W):
    from PyMatterSim.neighbors.calculate_neighbors import cutoffneighbors_particletype

    ret = cutoffneighbors_particletype(W.snaps["s3"], W.args["rcutmat"], ppp=W.args["ppp3"], fnfile="o_nt.dat")
    return [ret, fbytes("o_nt.dat")], []


@event("voro3")
def _(W):
    from PyMatterSim.neighbors.freud_neighbors import cal_neighbors

    ret = cal_neighbors(W.snaps["s3"], "o_v3")
    return [ret, fbytes("o_v3.neighbor.dat", "o_v3.facearea.dat", "o_v3.overall.dat")], []


@event("voro2")
def _(W):
    from PyMatterSim.neighbors.freud_neighbors import cal_neighbors

    ret = cal_neighbors(W.snaps["s2"], "o_v2")
    return [ret, fbytes("o_v2.neighbor.dat", "o_v2.edgelength.dat", "o_v2.overall.dat")], []


@event("voro.convert")
def _(W):
    from PyMatterSim.neighbors.freud_neighbors import convert_configuration

    b3, p3 = convert_configuration(W.snaps["s3"])
    b2, p2 = convert_configuration(W.snaps["s2"])
    return [p3, p2, [[x.Lx, x.Ly, x.Lz] for x in b3 + b2]], []


@event("volmat3")
def _(W):
    from PyMatterSim.neighbors.freud_neighbors import VolumeMatrix

    r = VolumeMatrix(W.snaps["s3"], ndim=3, nconfig=1, deltar=0.01, transform_matrix=False, outputfile="o_vm3.npy")
    return r, [F("o_vm3.npy", "npy", r)]


@event("volmat2")
def _(W):
    from PyMatterSim.neighbors.freud_neighbors import VolumeMatrix

    r = VolumeMatrix(W.snaps["s2"], ndim=2, nconfig=0, deltar=0.02, transform_matrix=False, outputfile="o_vm2.npy")
    return r, [F("o_vm2.npy", "npy", r)]


# ---- dynamics ---------------------------------------------------------------------------------------
@event("dyn.relax")
def _(W):
    r = W.dyn.relaxation(qconst=2 * np.pi, condition=W.args["sel_FN"], outputfile="o_dyn.csv")
    return r, [F("o_dyn.csv", "csv", r, None)]


@event("dyn.relax_all")
def _(W):
    return W.dyn.relaxation(qconst=5.0), []


@event("dyn.sq4")
def _(W):
    r = W.dyn.sq4(t=0.2, qrange=2.5, condition=W.args["sel_FN_float"], outputfile="o_sq4.csv")
    return r, [F("o_sq4.csv", "csv", r, None)]


@event("dyn.sq4.bool")
def _(W):
    # a caller may pass the selection as a boolean array (as relaxation() is given above) or as 0/1 floats
    r = W.dyn.sq4(t=0.2, qrange=2.5, condition=W.args["sel_FN"], outputfile="o_sq4b.csv")
    return r, [F("o_sq4b.csv", "csv", r, None)]


@event("dyn.cage_fast")
def _(W):
    from PyMatterSim.dynamic.dynamics import Dynamics

    d = Dynamics(xu_snapshots=W.snaps["s3"], x_snapshots=W.snaps["s3"], dt=DT, ppp=W.args["ppp0"], diameters={1: 1.0, 2: 1.2},
                 a=0.1, cal_type="fast", neighborfile="in_nl3.dat", max_neighbors=8)
    r = d.relaxation(outputfile="o_dync.csv")
    return [r, d.sq4(t=0.4, qrange=2.5)], [F("o_dync.csv", "csv", r, None)]


@event("logdyn")
def _(W):
    from PyMatterSim.dynamic.dynamics import LogDynamics

    d = LogDynamics(x_snapshots=W.snaps["s3"], dt=DT, ppp=W.args["ppp3"], diameters={1: 1.0, 2: 1.2}, a=0.3, neighborfile="in_nl3.dat", max_neighbors=8)
    r = d.relaxation(qconst=2 * np.pi, condition=W.args["cond_bool3"], outputfile="o_log.csv")
    return r, [F("o_log.csv", "csv", r, None)]


@event("dyn.cage_relative")
def _(W):
    from PyMatterSim.dynamic.dynamics import cage_relative

    return cage_relative(W.args["cage_RII"], W.args["cage_cn"]), []


@event("tcorr.scalar")
def _(W):
    from PyMatterSim.dynamic.time_corr import time_correlation

    r = time_correlation(W.snaps["s3"], W.args["tc_scalar"], dt=DT, outputfile="o_tcs.csv")
    return r, [F("o_tcs.csv", "csv", r, 8)]


@event("tcorr.vector")
def _(W):
    from PyMatterSim.dynamic.time_corr import time_correlation

    r = time_correlation(W.snaps["s3"], W.args["tc_vec"], dt=DT, outputfile="o_tcv.csv")
    return r, [F("o_tcv.csv", "csv", r, 8)]


@event("tcorr.tensor")
def _(W):
    from PyMatterSim.dynamic.time_corr import time_correlation

    r = time_correlation(W.snaps["s2"], W.args["tc_tens"], dt=DT, outputfile="o_tct.csv")
    return r, [F("o_tct.csv", "csv", r, 8)]


# ---- utils ------------------------------------------------------------------------------------------
@event("util.remove_pbc")
def _(W):
    from PyMatterSim.utils.pbc import remove_pbc

    s = W.snaps["s3"].snapshots[0]
    return [remove_pbc(W.args["RIJ3"], s.hmatrix, W.args["ppp3"]), remove_pbc(s.positions - s.positions[0], s.hmatrix),
            remove_pbc(W.args["RIJ3"], s.hmatrix, W.args["ppp0"])], []


@event("util.time_average")
def _(W):
    from PyMatterSim.utils.coarse_graining import time_average

    return list(time_average(W.snaps["s3"], W.args["tavg_prop"], time_period=0.4, dt=DT)), []


@event("util.spatial_average")
def _(W):
    from PyMatterSim.utils.coarse_graining import spatial_average

    r = spatial_average(W.args["savg_prop"], "in_nl3.dat", Nmax=8, outputfile="o_savg.npy")
    return r, [F("o_savg.npy", "npy", r)]


@event("util.blur3")
def _(W):
    from PyMatterSim.utils.coarse_graining import gaussian_blurring

    g, v = gaussian_blurring(W.snaps["s3"], W.args["blur_scalar"], W.args["ngrids3"], sigma=1.0, ppp=W.args["ppp3"], gaussian_cut=3.0, outputfile="o_bl3")
    return [g, v], [F("o_bl3_positions.npy", "npy", g), F("o_bl3_properties.npy", "npy", v)]


@event("util.blur2")
def _(W):
    from PyMatterSim.utils.coarse_graining import gaussian_blurring

    g, v = gaussian_blurring(W.snaps["s2"], W.args["blur_vec"], W.args["ngrids2"], sigma=0.8, gaussian_cut=2.5, outputfile="o_bl2")
    return [g, v], [F("o_bl2_positions.npy", "npy", g), F("o_bl2_properties.npy", "npy", v)]


@event("util.filon")
def _(W):
    from PyMatterSim.utils.fft import Filon_COS

    r = Filon_COS(W.args["filon_C"], W.args["filon_t"], a=0, outputfile="o_filon.csv")
    return r, [F("o_filon.csv", "csv", r, 6)]


@event("util.geometry")
def _(W):
    from PyMatterSim.utils.geometry import LineWithinSquare, lines_intersection, triangle_angle, triangle_area

    a = W.args
    s = W.snaps["s2"].snapshots[0]
    return [triangle_area(a["tri2"], s.hmatrix, a["ppp2"]), triangle_area(s.positions[:3], s.hmatrix), triangle_angle(1.0, 1.1, 1.2),
            lines_intersection(a["sqP1"], a["sqP3"], a["sqP2"], a["sqP4"]),
            LineWithinSquare(a["sqP1"], a["sqP2"], a["sqP3"], a["sqP4"], a["sqR0"], a["sqvec"])], []


@event("util.wavevector")
def _(W):
    from PyMatterSim.utils.wavevector import choosewavevector, continuousvector, wavevector2d, wavevector3d

    return [choosewavevector(3, 6, False), choosewavevector(2, 8, True), continuousvector(2, 4), wavevector3d(4), wavevector2d(6)], []


@event("util.funcs")
def _(W):
    from PyMatterSim.utils.funcs import Legendre_polynomials, Wignerindex, grid_gaussian, moment_of_inertia

    p = W.args["pos_group3"]
    return [moment_of_inertia(p), moment_of_inertia(p, m=2, matrix=True), Wignerindex(2), grid_gaussian(W.args["gauss_d"], 0.7),
            Legendre_polynomials(W.args["gauss_d"], 3)], []


@event("util.sph_harm")
def _(W):
    from PyMatterSim.utils.spherical_harmonics import sph_harm_l

    return [sph_harm_l(l, 0.7, -1.3) for l in (1, 2, 6, 10, 12)], []


@event("util.fits")
def _(W):
    from PyMatterSim.utils.fitting import fits

    def model(x, a, tau):
        return a * np.exp(-x / tau)

    return fits(model, W.args["fit_x"], W.args["fit_y"], p0=[1.0, 1.0]), []


# ---- sibling events: the same routines with ONE argument changed ---------------------------------------------------
# A result cached under an incomplete key (cf. seeded c04_a3, c10_a3, c12_a2, c18_a2) is only visible when the SAME routine
# is called with a DIFFERENT argument in between; every sibling below differs from an event above in one parameter.
@event("sq2.default.pos")
def _(W):
    from PyMatterSim.static.sq import sq

    return sq(W.snaps["s2"], qrange=3.0, onlypositive=True).getresults(), []


@event("sq2.default.q4")
def _(W):
    from PyMatterSim.static.sq import sq

    return sq(W.snaps["s2"], qrange=4.0, onlypositive=False).getresults(), []


@event("sq3.default")
def _(W):
    from PyMatterSim.static.sq import sq

    return [sq(W.snaps["s3"], qrange=3.0, onlypositive=False).getresults(), sq(W.snaps["s3"], qrange=3.0, onlypositive="z").getresults()], []


@event("gr3.w")
def _(W):
    from PyMatterSim.static.gr import gr

    return [gr(W.snaps["s3"], ppp=W.args["ppp3"], rdelta=0.4).getresults(), gr(W.snaps["s3"], ppp=np.array([1, 0, 1]), rdelta=0.25).getresults()], []


@event("cgr.float.w")
def _(W):
    from PyMatterSim.static.gr import conditional_gr

    s = W.snaps["s3"].snapshots
    return [conditional_gr(s[1], W.args["cond_float3"], ppp=W.args["ppp3"], rdelta=0.4), conditional_gr(s[0], W.args["cond_float3"], ppp=W.args["ppp3"], rdelta=0.25)], []


@event("csq.float.q")
def _(W):
    from PyMatterSim.static.sq import conditional_sq

    s = W.snaps["s3"].snapshots
    return list(conditional_sq(s[2], W.args["qvec3"][::-1].copy(), W.args["cond_float3"])) + list(conditional_sq(s[0], W.args["qvec3"], W.args["cond_float3"])), []


@event("util.wavevector.alt")
def _(W):
    from PyMatterSim.utils.wavevector import choosewavevector

    return [choosewavevector(3, 6, True), choosewavevector(2, 8, False), choosewavevector(3, 6, "x"), choosewavevector(3, 8, False), choosewavevector(2, 6, True)], []


@event("nn.nearest.alt")
def _(W):
    from PyMatterSim.neighbors.calculate_neighbors import Nnearests

    Nnearests(W.snaps["s3"], N=2, ppp=W.args["ppp3"], fnfile="o_nn2.dat")
    Nnearests(W.snaps["s2"], N=4, ppp=W.args["ppp2"], fnfile="o_nn3.dat")
    Nnearests(W.snaps["s3"], N=4, ppp=W.args["ppp0"], fnfile="o_nn4.dat")
    return [fbytes("o_nn2.dat"), fbytes("o_nn3.dat"), fbytes("o_nn4.dat")], []


@event("nn.cutoff.alt")
def _(W):
    from PyMatterSim.neighbors.calculate_neighbors import cutoffneighbors, cutoffneighbors_particletype

    cutoffneighbors(W.snaps["s2"], 3.3, ppp=W.args["ppp2"], fnfile="o_nc2.dat")
    cutoffneighbors(W.snaps["s3"], 2.6, ppp=W.args["ppp3"], fnfile="o_nc3.dat")
    cutoffneighbors_particletype(W.snaps["s3"], W.args["rcutmat"].T.copy() * 0.9, ppp=W.args["ppp3"], fnfile="o_nt2.dat")
    return [fbytes("o_nc2.dat"), fbytes("o_nc3.dat"), fbytes("o_nt2.dat")], []


@event("read.same_name")
def _(W):
    """two different files written under ONE name, one after the other (a reader caching on the file name returns the first)"""
    from PyMatterSim.reader.dump_reader import DumpReader
    from PyMatterSim.reader.lammps_reader_helper import read_lammps_wrapper

    out = []
    for src in ("in_dump3.atom", "in_dump3tri.atom", "in_dumpmol.atom"):
        with open(src) as f, open("o_same.atom", "w") as g:
            g.write(f.read())
        out.append(read_lammps_wrapper("o_same.atom", 3))
        r = DumpReader("o_same.atom", ndim=3)
        r.read_onefile()
        out.append(r.snapshots)
    return out, []


@event("read.neighbors.alt")
def _(W):
    from PyMatterSim.neighbors.read_neighbors import read_neighbors

    out = []
    with open("in_nl3.dat") as f, open("in_nl2.dat") as g:  # two handles open at once, interleaved reads
        out.append(read_neighbors(f, N3, 3))
        out.append(read_neighbors(g, N2, 200))
        out.append(read_neighbors(f, N3, 200))
        out.append(read_neighbors(g, N2, 2))
    return out, []


@event("boo3.other_l")
def _(W):
    from PyMatterSim.static.boo import boo_3d

    b = boo_3d(W.snaps["s3"], 5, "in_nl3.dat", weightsfile="in_w3.dat", ppp=W.args["ppp3"], Nmax=8)
    return [b.smallqlm, b.ql_Ql(coarse_graining=False), b.w_W_cap(coarse_graining=False)[1], b.sij_ql_Ql(coarse_graining=False, c=-0.3)], []


@event("boo3.sij.c")
def _(W):
    return [W.boo3.sij_ql_Ql(coarse_graining=False, c=0.6), W.boo3.spatial_corr(coarse_graining=False, rdelta=0.4),
            W.boo3.time_corr(coarse_graining=False, dt=DT)], []


@event("boo2.tavg.alt")
def _(W):
    return list(W.boo2.time_average(time_period=0.4, dt=DT, average_complex=False)) + list(W.boo2.time_average(time_period=0.2, dt=DT, average_complex=True)), []


@event("tetra.alt")
def _(W):
    from PyMatterSim.static.geometric import q8_tetrahedral

    return [q8_tetrahedral(W.snaps["s3"], ppp=W.args["ppp0"]), q8_tetrahedral(W.snaps["s3k3"], ppp=np.array([1, 1, 0]))], []


@event("s2.alt")
def _(W):
    from PyMatterSim.static.pairentropy import S2

    o = S2(W.snaps["s3"], W.args["s2sigmas"] * 1.2, ppp=W.args["ppp3"], rdelta=0.1, ndelta=30)
    o2 = S2(W.snaps["s3"], W.args["s2sigmas"], ppp=W.args["ppp3"], rdelta=0.08, ndelta=40)
    return [o.particle_s2(), o2.particle_s2()], []


@event("util.remove_pbc.alt")
def _(W):
    from PyMatterSim.utils.pbc import remove_pbc

    s2 = W.snaps["s2"].snapshots[0]
    s3 = W.snaps["s3"].snapshots[0]
    H = np.array([[6.0, 0.0, 0.0], [1.5, 7.0, 0.0], [-1.0, 0.5, 6.5]])
    return [remove_pbc(s2.positions - s2.positions[1], s2.hmatrix, W.args["ppp2"]), remove_pbc(W.args["RIJ3"], H, W.args["ppp3"]),
            remove_pbc(W.args["RIJ3"], s3.hmatrix, np.array([0, 1, 0])), remove_pbc(W.args["RIJ3"][0], s3.hmatrix, W.args["ppp3"])], []


@event("util.time_average.alt")
def _(W):
    from PyMatterSim.utils.coarse_graining import time_average

    return list(time_average(W.snaps["s3"], W.args["tavg_prop"], time_period=0.2, dt=DT)) + list(time_average(W.snaps["s3"], W.args["tavg_prop"].real.copy(), time_period=0.4, dt=DT)), []


@event("util.blur.alt")
def _(W):
    from PyMatterSim.utils.coarse_graining import gaussian_blurring

    g1, v1 = gaussian_blurring(W.snaps["s3"], W.args["blur_scalar"], np.array([3, 2, 2]), sigma=1.0, ppp=W.args["ppp3"], gaussian_cut=3.0)
    g2, v2 = gaussian_blurring(W.snaps["s3"], W.args["blur_scalar"], W.args["ngrids3"], sigma=0.7, ppp=W.args["ppp0"], gaussian_cut=3.0)
    g3, v3 = gaussian_blurring(W.snaps["s2"], W.args["blur_vec"], np.array([2, 3]), sigma=0.8, gaussian_cut=2.5)
    return [g1, v1, g2, v2, g3, v3], []


@event("util.spatial_average.alt")
def _(W):
    from PyMatterSim.utils.coarse_graining import spatial_average

    return [spatial_average(W.args["savg_prop"][:, :, 0].copy(), "in_nl3.dat", Nmax=8), spatial_average(W.args["savg_prop"], "in_nl3.dat", Nmax=3)], []


@event("util.funcs.alt")
def _(W):
    from PyMatterSim.utils.funcs import Legendre_polynomials, Wignerindex, grid_gaussian

    return [Wignerindex(3), Wignerindex(4), Wignerindex(2), grid_gaussian(W.args["gauss_d"], 0.4), Legendre_polynomials(W.args["gauss_d"], 4)], []


@event("util.sph_harm.alt")
def _(W):
    from PyMatterSim.utils.spherical_harmonics import sph_harm_l

    return [sph_harm_l(l, 2.1, 0.4) for l in (2, 6, 10, 12)] + [sph_harm_l(6, 0.7, 2.9)], []


@event("tcorr.alt")
def _(W):
    from PyMatterSim.dynamic.time_corr import time_correlation

    return [time_correlation(W.snaps["s3"], W.args["tc_scalar"], dt=2 * DT), time_correlation(W.snaps["s3"], W.args["tc_scalar"].real.copy(), dt=DT),
            time_correlation(W.snaps["s3"], W.args["tc_vec"][:, :, :2].copy(), dt=DT)], []


@event("dyn.alt")
def _(W):
    r1 = W.dyn.relaxation(qconst=3.0, condition=W.args["sel_FN"])
    r2 = W.dyn.relaxation(qconst=2 * np.pi)
    r3 = W.dyn.sq4(t=0.4, qrange=2.5, condition=W.args["sel_FN_float"])
    r4 = W.dyn.sq4(t=0.2, qrange=3.5)
    return [r1, r2, r3, r4], []


@event("unwrapped.voro")
def _(W):
    from PyMatterSim.neighbors.freud_neighbors import VolumeMatrix, cal_neighbors, convert_configuration

    ret = cal_neighbors(W.snaps["s3u"], "o_v3u")
    b3, p3 = convert_configuration(W.snaps["s3u"])
    vm = VolumeMatrix(W.snaps["s3u"], ndim=3, nconfig=2, deltar=0.01, transform_matrix=False)
    return [ret, fbytes("o_v3u.neighbor.dat", "o_v3u.facearea.dat", "o_v3u.overall.dat"), p3, vm], []


@event("unwrapped.static")
def _(W):
    from PyMatterSim.neighbors.calculate_neighbors import Nnearests, cutoffneighbors
    from PyMatterSim.static.gr import gr
    from PyMatterSim.static.sq import sq

    r1 = gr(W.snaps["s3u"], ppp=W.args["ppp3"], rdelta=0.25).getresults()
    r2 = sq(W.snaps["s3u"], qvector=W.args["qvec3"]).getresults()
    Nnearests(W.snaps["s3u"], N=3, ppp=W.args["ppp3"], fnfile="o_nnu.dat")
    cutoffneighbors(W.snaps["s3u"], r_cut=3.2, ppp=W.args["ppp3"], fnfile="o_ncu.dat")
    return [r1, r2, fbytes("o_nnu.dat", "o_ncu.dat")], []


@event("unwrapped.dyn")
def _(W):
    from PyMatterSim.dynamic.dynamics import Dynamics, LogDynamics

    d = Dynamics(xu_snapshots=W.snaps["s3u"], x_snapshots=W.snaps["s3"], dt=DT, ppp=W.args["ppp3"], diameters={1: 1.0, 2: 1.2}, a=0.3,
                 neighborfile="in_nl3.dat", max_neighbors=8)
    r1 = d.relaxation(qconst=2 * np.pi)
    g = LogDynamics(xu_snapshots=W.snaps["s3u"], dt=DT, diameters={1: 1.0, 2: 1.2}, a=0.3)
    return [r1, g.relaxation()], []


@event("volmat.alt")
def _(W):
    from PyMatterSim.neighbors.freud_neighbors import VolumeMatrix

    return [VolumeMatrix(W.snaps["s3"], ndim=3, nconfig=0, deltar=0.01, transform_matrix=False),
            VolumeMatrix(W.snaps["s2"], ndim=2, nconfig=2, deltar=0.02, transform_matrix=False)], []


@event("hess.pair.alt")
def _(W):
    """same geometry as hess.pair, other exponents / prefactors / energy scales (memoisation keyed without them)"""
    from PyMatterSim.static.hessians import InteractionParams, ModelName, PairInteractions

    a = W.args
    out = []
    for m, kw in ((ModelName.inverse_power_law, dict(ipl_n=10, ipl_A=2.5)), (ModelName.harmonic_hertz, dict(harmonic_hertz_alpha=2.0)),
                  (ModelName.inverse_power_law, dict(ipl_n=12, ipl_A=1.0)), (ModelName.lennard_jones, {})):
        for shift in (True, False):
            for eps in (a["epsilons"][0, 1], a["epsilons"][1, 1]):
                out.append(PairInteractions(r=1.1, epsilon=eps, sigma=a["hsigmas"][0, 1], r_c=a["rcuts"][0, 1], shift=shift).caller(InteractionParams(model_name=m, **kw)))
    return out, []


@event("hessian.alt")
def _(W):
    r1 = _hessian(W, "s2", 2, "ppp2", lambda M, P: P(model_name=M.inverse_power_law, ipl_n=12, ipl_A=2.0), "o_h2b")[0]
    r2 = _hessian(W, "s3", 1, "ppp0", lambda M, P: P(model_name=M.harmonic_hertz, harmonic_hertz_alpha=2.5), "o_h3b")[0]
    return [r1, r2], []


@event("vec.alt")
def _(W):
    from PyMatterSim.static.vector import participation_ratio

    return [participation_ratio(W.args["vec3"]), participation_ratio(W.args["vec2"]), participation_ratio(W.args["vec3"] * 2.0)], []


EVENT_NAMES = list(EVENTS)

# events that touch the aliasing / shared-object paths; used for the depth-3 core and the quick-tier pair matrix
CORE = ["voro3", "volmat3", "gyration.snap", "boo3.w", "boo3.sij", "boo2.init", "boo2.tavg", "dyn.relax", "dyn.sq4", "gr3",
        "cgr.complex", "nn.nearest", "dyn.sq4.bool"]


# ================================================================================== fork isolation
def _where(e):
    from mc.harness import REPO

    tb = traceback.extract_tb(e.__traceback__)
    for fr in reversed(tb):
        if fr.filename.startswith(REPO):
            return f"{os.path.relpath(fr.filename, REPO)}:{fr.name}"
    return f"{os.path.basename(tb[-1].filename)}:{tb[-1].lineno}" if tb else ""


def in_child(fn, *args):
    """Run fn(*args) in a forked child (own scratch sub-directory); the parent never executes library code."""
    scratch = tempfile.mkdtemp(prefix="c18_", dir=os.getcwd())
    r, w = os.pipe()
    pid = os.fork()
    if pid == 0:
        code = 0
        try:
            os.close(r)
            os.chdir(scratch)
            try:
                out = ("ok", fn(*args))
            except BaseException as e:  # reported by the parent as a violation (never hidden)
                out = ("exc", type(e).__name__, str(e)[:300], _where(e))
            with os.fdopen(w, "wb") as f:
                f.write(pickle.dumps(out))
        except BaseException:
            code = 1
        finally:
            os._exit(code)
    os.close(w)
    with os.fdopen(r, "rb") as f:
        data = f.read()
    os.waitpid(pid, 0)
    shutil.rmtree(scratch, ignore_errors=True)
    if not data:
        return ("exc", "ChildDied", "the child process died without a result", "")
    return pickle.loads(data)


def show(seq):
    """Compact rendering of a call-sequence prefix for messages."""
    seq = list(seq)
    return " -> ".join(seq) if len(seq) <= 4 else f"({len(seq) - 3} earlier calls) -> " + " -> ".join(seq[-3:])


def reference_child(seed, name):
    """Result of one event from the initial state."""
    W = World(seed)
    res, _files = EVENTS[name](W)
    return result_digest(res)


def sequence_child(seed, seq):
    """Execute a call sequence on fresh fixtures; invariants (1) and (3) are checked here after every call, the result
    digests for invariant (2) are returned (call 1 of any sequence IS the event from the initial state)."""
    W = World(seed)
    h0 = observe(W)
    viol = []
    state_hashes = {state_digest(h0)}
    elem = 0
    calls = []
    for k, name in enumerate(seq):
        prefix = show(seq[: k + 1])
        try:
            res, files = EVENTS[name](W)
        except Exception as e:
            viol.append(dict(sub="C18.repeatable", msg=f"[{prefix}] exception {type(e).__name__}: {e} @ {_where(e)}",
                             sig={"clause": "exception", "event": name, "exception": type(e).__name__, "where": _where(e)}))
            break
        # (1) observed state unchanged
        h = observe(W)
        elem += len(h)
        if h != h0:
            changed = sorted(c for c in set(h) | set(h0) if h.get(c) != h0.get(c))
            for comp in sorted(set(coarse(c) for c in changed))[:4]:
                viol.append(dict(sub="C18.inputs_unchanged", msg=f"[{prefix}] call {k + 1} ({name}) changed {comp} ({len(changed)} component(s): {changed[:4]})",
                                 sig={"clause": "inputs_unchanged", "event": name, "kind": comp.split(":", 1)[0], "what": comp}))
            h0 = h  # report every change once, at the call that made it
            state_hashes.add(state_digest(h))
        # (2) digest for the comparison with the same event from the initial state (done by the caller)
        d, nt = result_digest(res)
        calls.append((name, d, nt))
        # (3) requested output files hold the returned values
        for spec in files:
            elem += int(spec["value"].size) if hasattr(spec["value"], "columns") else int(np.size(spec["value"]))
            m = check_file(spec)
            if m:
                viol.append(dict(sub="C18.file_equals_return", msg=f"[{prefix}] {name}: {spec['path']}: {m}",
                                 sig={"clause": "file_equals_return", "event": name, "file": spec["path"]}))
            if os.path.exists(spec["path"]):
                os.remove(spec["path"])  # the next call must write it again
    return dict(viol=viol, state_hashes=len(state_hashes), elem=elem, calls=calls)
