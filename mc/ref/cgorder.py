"""Reference models for C16 (coarse graining) and C17 (local order parameters).

Deliberately naive: python loops, literal transcriptions of the documented formulas, rational
arithmetic for the window length.  Nothing here imports the functions under test."""
from __future__ import annotations

import itertools
import math
from fractions import Fraction

import numpy as np

from mc.ref.base import minimg


# ------------------------------------------------------------------------------------------ C16
def all_topologies(n, allow_empty=True):
    """Every way to give each of n particles a (possibly empty) set of OTHER particles."""
    per = []
    for i in range(n):
        others = [j for j in range(n) if j != i]
        subs = []
        for r in range(0 if allow_empty else 1, len(others) + 1):
            for s in itertools.combinations(others, r):
                subs.append(list(s))
        per.append(subs)
    for combo in itertools.product(*per):
        yield [list(c) for c in combo]


def ref_spatial_average(x, topo_frames):
    """x[f, i, ...]; topo_frames[f][i] = list of neighbour ids  ->  (x_i + sum_j x_j) / (1 + cn_i)."""
    x = np.asarray(x)
    out = np.zeros(x.shape, dtype=x.dtype)
    for f in range(x.shape[0]):
        for i in range(x.shape[1]):
            acc = np.array(x[f, i], dtype=x.dtype)
            for j in topo_frames[f][i]:
                acc = acc + x[f, j]
            out[f, i] = acc / (1 + len(topo_frames[f][i]))
    return out


def ref_axis(lo, hi, n):
    """n equally spaced points spanning [lo, hi] (n = 1 -> the lower bound, as numpy.linspace)."""
    if n == 1:
        return [float(lo)]
    return [float(lo) + k * (float(hi) - float(lo)) / (n - 1) for k in range(n)]


def ref_grid(bounds, ngrids):
    """Full Cartesian grid, x slowest: list of points (python lists)."""
    axes = [ref_axis(b[0], b[1], n) for b, n in zip(bounds, ngrids)]
    return [list(p) for p in itertools.product(*axes)]


def ref_blur_at(point, positions, H, ppp, cond, sigma, cut):
    """sum_{j: r_j < cut} exp(-r_j^2 / 2 s^2) / sqrt(2 pi s^2) * cond_j  and the margin min |r_j - cut|."""
    point = np.asarray(point, float)
    positions = np.asarray(positions, float)
    cond = np.asarray(cond)
    acc = np.zeros(cond.shape[1:], dtype=float)
    margin = math.inf
    ncontrib = 0
    for j in range(len(positions)):
        rv = minimg((point - positions[j])[None, :], H, ppp)[0]
        r = math.sqrt(float((rv * rv).sum()))
        margin = min(margin, abs(r - cut))
        if r < cut:
            w = math.exp(-r * r / (2.0 * sigma * sigma)) / math.sqrt(2.0 * math.pi * sigma * sigma)
            acc = acc + w * cond[j]
            ncontrib += 1
    return acc, margin, ncontrib


def ref_window(period: str, dt: str, dstep: int) -> int:
    """floor(period / (dstep * dt)) in exact rational arithmetic (arguments are decimal strings)."""
    q = Fraction(period) / (Fraction(dt) * dstep)
    return q.numerator // q.denominator


def ref_window_means(x, w):
    """means over frames n..n+w-1 for every start n that fits (0..T-w)."""
    x = np.asarray(x)
    T = x.shape[0]
    out = []
    for n in range(0, T - w + 1):
        acc = np.zeros(x.shape[1:], dtype=complex)
        for t in range(n, n + w):
            acc = acc + x[t]
        out.append(acc / w)
    return out


# ------------------------------------------------------------------------------------------ C17
def ref_s2(positions, H, types, sigmas, ppp, rdelta, ndelta):
    """Literal transcription of docs/orderings.md section 3.

    returns (s2[i], info) with info = dict(margin = min | r_ij - r_m |, gmin = smallest smeared g,
    nneigh = per-particle number of pairs inside r_m)."""
    positions = np.asarray(positions, float)
    N, d = positions.shape
    H = np.asarray(H, float)
    sigmas = np.asarray(sigmas, float)
    rho = N / float(np.prod(np.diag(H)))
    r = [k * rdelta + rdelta / 2 for k in range(ndelta)]
    rm = max(r)
    out = []
    margin = math.inf
    gmin = math.inf
    nneigh = []
    for i in range(N):
        g = [0.0] * ndelta
        cnt = 0
        for j in range(N):
            if j == i:
                continue
            rv = minimg((positions[j] - positions[i])[None, :], H, ppp)[0]
            rij = math.sqrt(float((rv * rv).sum()))
            margin = min(margin, abs(rij - rm))
            if rij < rm:
                cnt += 1
                s = float(sigmas[int(types[i]) - 1, int(types[j]) - 1])
                for k in range(ndelta):
                    g[k] += math.exp(-((r[k] - rij) ** 2) / (2 * s * s)) / math.sqrt(2 * math.pi * s * s)
        nneigh.append(cnt)
        y = []
        for k in range(ndelta):
            shell = 4 * math.pi * rho * r[k] ** 2 if d == 3 else 2 * math.pi * rho * r[k]
            gk = g[k] / shell
            gmin = min(gmin, gk)
            if gk > 0:
                y.append((gk * math.log(gk) - gk + 1) * r[k] ** (d - 1))
            else:
                y.append(float("nan"))
        integ = 0.0
        for k in range(ndelta - 1):
            integ += 0.5 * (y[k] + y[k + 1]) * (r[k + 1] - r[k])
        out.append(-(d - 1) * math.pi * rho * integ)
    return np.array(out), {"margin": margin, "gmin": gmin, "nneigh": nneigh}


TETRA = [[1.0, 1.0, 1.0], [1.0, -1.0, -1.0], [-1.0, 1.0, -1.0], [-1.0, -1.0, 1.0]]


def rotation(name):
    """A few fixed proper rotations (orthogonal to machine precision)."""
    if name == "id":
        return np.eye(3)
    if name == "z30":
        a = math.pi / 6
        return np.array([[math.cos(a), -math.sin(a), 0], [math.sin(a), math.cos(a), 0], [0, 0, 1.0]])
    if name == "gen":
        # rotation by 1.1 rad about the (1, 2, 3) axis (Rodrigues)
        k = np.array([1.0, 2.0, 3.0]) / math.sqrt(14.0)
        K = np.array([[0, -k[2], k[1]], [k[2], 0, -k[0]], [-k[1], k[0], 0]])
        a = 1.1
        return np.eye(3) + math.sin(a) * K + (1 - math.cos(a)) * (K @ K)
    raise ValueError(name)


def tetrahedron(scale, rot, order):
    """The four vertices (distance `scale` from the origin) rotated, listed in the given order."""
    v = np.array(TETRA) / math.sqrt(3.0) * scale
    v = v @ rotation(rot).T
    return [v[k].tolist() for k in order]


def ref_tetra(positions, H, ppp):
    """q_i = 1 - 3/32 sum_{j<k in four nearest} (cos psi_jk + 1/3)^2 ; also the 4 nearest sets and the
    smallest gap between the 4th and 5th nearest distance (decision margin)."""
    positions = np.asarray(positions, float)
    N = len(positions)
    q = []
    near = []
    margin = math.inf
    for i in range(N):
        cand = []
        for j in range(N):
            if j == i:
                continue
            rv = minimg((positions[j] - positions[i])[None, :], H, ppp)[0]
            cand.append((math.sqrt(float((rv * rv).sum())), j, rv))
        cand.sort(key=lambda t: t[0])
        if len(cand) > 4:
            margin = min(margin, cand[4][0] - cand[3][0])
        four = cand[:4]
        s = 0.0
        for a in range(4):
            for b in range(a + 1, 4):
                c = float(four[a][2] @ four[b][2]) / (four[a][0] * four[b][0])
                s += (c + 1.0 / 3.0) ** 2
        q.append(1.0 - 3.0 / 32.0 * s)
        near.append(sorted(t[1] for t in four))
    return np.array(q), near, margin


def ref_nematic(u, topo=None):
    """Q_i = (2 u u^T - I)/2, neighbour-averaged over self + listed neighbours; S = sqrt(2 tr Q^2);
    lam = largest eigenvalue (closed form for a symmetric 2x2 matrix)."""
    u = np.asarray(u, float)
    N = len(u)
    Q = np.zeros((N, 2, 2))
    for i in range(N):
        for a in range(2):
            for b in range(2):
                Q[i, a, b] = (2 * u[i, a] * u[i, b] - (1.0 if a == b else 0.0)) / 2
    if topo is not None:
        Q0 = Q.copy()
        for i in range(N):
            acc = Q0[i].copy()
            for j in topo[i]:
                acc = acc + Q0[j]
            Q[i] = acc / (1 + len(topo[i]))
    S = np.zeros(N)
    lam = np.zeros(N)
    for i in range(N):
        tr2 = 0.0
        for a in range(2):
            for b in range(2):
                tr2 += Q[i, a, b] * Q[i, b, a]
        S[i] = math.sqrt(2 * tr2)
        m = (Q[i, 0, 0] + Q[i, 1, 1]) / 2
        h = (Q[i, 0, 0] - Q[i, 1, 1]) / 2
        lam[i] = m + math.sqrt(h * h + Q[i, 0, 1] * Q[i, 1, 0])
    return Q, S, lam


def ref_gyration(points):
    """Centred second-moment tensor S = (1/N) sum c c^T, ascending eigenvalues l, and the documented
    descriptors.  Also eigen-free forms: Rg^2 = tr S, kappa^2 = 3/2 tr S^2 / (tr S)^2 - 1/2."""
    p = np.asarray(points, float)
    N, d = p.shape
    com = [sum(p[i, a] for i in range(N)) / N for a in range(d)]
    S = np.zeros((d, d))
    for a in range(d):
        for b in range(d):
            S[a, b] = sum((p[i, a] - com[a]) * (p[i, b] - com[b]) for i in range(N)) / N
    lam = np.sort(np.linalg.eigvalsh(S))
    trS = float(np.trace(S))
    rg = math.sqrt(trS)
    out = {"S": S, "lam": lam, "rg": rg, "N": N, "d": d}
    lg = math.log10(rg) if rg > 0 else float("nan")
    out["fractal"] = math.log10(N) / lg if lg != 0 else float("inf")
    out["log10rg"] = lg
    if d == 3:
        b = 1.5 * lam[2] - 0.5 * (lam[0] + lam[1] + lam[2])
        c = lam[1] - lam[0]
        out["asphericity"] = float(b)
        out["acylindricity"] = float(c)
        out["anisotropy"] = float((b * b + 0.75 * c * c) / rg**4)
        out["anisotropy_invariant"] = float(1.5 * np.trace(S @ S) / trS**2 - 0.5)
        out["list"] = [rg, out["asphericity"], out["acylindricity"], out["anisotropy"], out["fractal"]]
    else:
        c = lam[1] - lam[0]
        out["acylindricity"] = float(c)
        # 2D: (l2 - l1)^2 = (tr S)^2 - 4 det S
        out["acyl_invariant"] = math.sqrt(max(0.0, trS * trS - 4 * float(np.linalg.det(S))))
        out["list"] = [rg, out["acylindricity"], out["fractal"]]
    return out


def s2_admissible(positions, H, ppp, rm, eps=1e-6):
    """Cheap predicate used to define the S2 alphabet: every particle has at least one pair distance below r_m,
    and no pair distance lies within eps of r_m (the implementation's `distance < r_m` decision)."""
    positions = np.asarray(positions, float)
    N = len(positions)
    for i in range(N):
        rv = minimg(positions - positions[i], H, ppp)
        dist = np.sqrt((rv * rv).sum(axis=1))
        dist = np.delete(dist, i)
        if np.min(np.abs(dist - rm)) < eps:
            return False
        if not (dist < rm).any():
            return False
        if dist.min() < 0.05:
            return False
    return True


def ref_s2_gr(positions, H, types, sigmas, ppp, rdelta, ndelta):
    """The smeared per-particle g_i(r_k) alone (same transcription as in ref_s2), shape [N, ndelta]."""
    positions = np.asarray(positions, float)
    N, d = positions.shape
    sigmas = np.asarray(sigmas, float)
    rho = N / float(np.prod(np.diag(np.asarray(H, float))))
    out = np.zeros((N, ndelta))
    r = [k * rdelta + rdelta / 2 for k in range(ndelta)]
    rm = max(r)
    for i in range(N):
        for j in range(N):
            if j == i:
                continue
            rv = minimg((positions[j] - positions[i])[None, :], H, ppp)[0]
            rij = math.sqrt(float((rv * rv).sum()))
            if rij < rm:
                s = float(sigmas[int(types[i]) - 1, int(types[j]) - 1])
                for k in range(ndelta):
                    out[i, k] += math.exp(-((r[k] - rij) ** 2) / (2 * s * s)) / math.sqrt(2 * math.pi * s * s)
        for k in range(ndelta):
            out[i, k] /= 4 * math.pi * rho * r[k] ** 2 if d == 3 else 2 * math.pi * rho * r[k]
    return out
