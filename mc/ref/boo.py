"""Reference models for bond-orientational order, 3D (C09) and 2D (C10).

Deliberately naive and independent of the library:
  * Y_lm from exact rational Legendre coefficients (fractions.Fraction), evaluated exactly in rational
    arithmetic at the float cos(theta) and only then converted to float; the azimuthal factor comes straight from
    the Cartesian bond components ((x+iy)/rho)^m - no table, no scipy, no arccos/atan2;
  * Wigner 3j symbols from the Racah formula with exact rationals (sign * sqrt(rational));
  * q_lm / Q_lm / q_l / s_ij / w_l / w-hat_l / psi_l by literal double loops;
  * normalised time autocorrelation (linear = all origins, log = origin 0 only), frame mean of the conditional g(r)
    (mc.ref.grsq.ref_cond_gr), sliding-window time average.
"""
from __future__ import annotations

import functools
import math
from fractions import Fraction

import numpy as np

from .base import minimg
from .grsq import ref_cond_gr


# ------------------------------------------------------------------------------------------ Legendre
@functools.lru_cache(maxsize=None)
def legendre_coeffs(l):
    """Exact coefficients c[k] of P_l(x) = sum_k c[k] x^k (explicit sum formula)."""
    c = [Fraction(0)] * (l + 1)
    for k in range(l // 2 + 1):
        num = (-1) ** k * math.comb(l, k) * math.comb(2 * l - 2 * k, l)
        c[l - 2 * k] = Fraction(num, 2**l)
    return tuple(c)


@functools.lru_cache(maxsize=None)
def legendre_deriv_coeffs(l, m):
    """Exact coefficients of d^m P_l / dx^m."""
    c = list(legendre_coeffs(l))
    for _ in range(m):
        c = [k * c[k] for k in range(1, len(c))]
    return tuple(c) if c else (Fraction(0),)


@functools.lru_cache(maxsize=None)
def ylm_norm(l, m):
    """sqrt((2l+1)/(4 pi) (l-m)!/(l+m)!) for m >= 0."""
    fr = Fraction((2 * l + 1) * math.factorial(l - m), math.factorial(l + m))
    return math.sqrt(float(fr) / (4.0 * math.pi))


def _poly_exact(coeffs, x):
    """Exact rational Horner evaluation at the float x (floats are dyadic rationals), rounded once at the end."""
    X = Fraction(x)
    acc = Fraction(0)
    for c in reversed(coeffs):
        acc = acc * X + c
    return float(acc)


@functools.lru_cache(maxsize=200000)
def _ylm_cached(l, x, y, z):
    r = math.sqrt(x * x + y * y + z * z)
    rho = math.hypot(x, y)
    c = z / r
    s = rho / r
    ph = complex(x / rho, y / rho) if rho > 0.0 else complex(1.0, 0.0)
    out = np.zeros(2 * l + 1, dtype=np.complex128)
    for m in range(0, l + 1):
        plm = (-1) ** m * (s**m) * _poly_exact(legendre_deriv_coeffs(l, m), c)  # Condon-Shortley phase
        v = ylm_norm(l, m) * plm * ph**m
        out[l + m] = v
        if m:
            out[l - m] = (-1) ** m * v.conjugate()
    out.setflags(write=False)
    return out


def ylm_vec(l, v):
    """All Y_lm(m = -l..l) of the direction of the Cartesian vector v (length 3)."""
    return _ylm_cached(int(l), float(v[0]), float(v[1]), float(v[2]))


# ------------------------------------------------------------------------------------------ Wigner 3j
@functools.lru_cache(maxsize=None)
def wigner3j_lll(l, m1, m2, m3):
    """(l l l; m1 m2 m3) by the Racah formula; exact rationals until the final square root."""
    if m1 + m2 + m3 != 0 or max(abs(m1), abs(m2), abs(m3)) > l:
        return 0.0
    f = math.factorial
    j1 = j2 = j3 = l
    delta = Fraction(f(j1 + j2 - j3) * f(j1 - j2 + j3) * f(-j1 + j2 + j3), f(j1 + j2 + j3 + 1))
    pref = delta * f(j1 + m1) * f(j1 - m1) * f(j2 + m2) * f(j2 - m2) * f(j3 + m3) * f(j3 - m3)
    tmin = max(0, j2 - j3 - m1, j1 - j3 + m2)
    tmax = min(j1 + j2 - j3, j1 - m1, j2 + m2)
    S = Fraction(0)
    for t in range(tmin, tmax + 1):
        den = f(t) * f(j3 - j2 + t + m1) * f(j3 - j1 + t - m2) * f(j1 + j2 - j3 - t) * f(j1 - t - m1) * f(j2 - t + m2)
        S += Fraction((-1) ** t, den)
    sq = pref * S * S  # exact rational square of the symbol
    sign = (-1) ** ((j1 - j2 - m3) % 2) * (1 if S > 0 else (-1 if S < 0 else 0))
    return sign * math.sqrt(sq.numerator / sq.denominator) if sq else 0.0


def w_of(q, l):
    """w_l = sum_{m1+m2+m3=0} (l l l; m1 m2 m3) q_m1 q_m2 q_m3 (real part), literal triple loop."""
    tot = 0.0
    for m1 in range(-l, l + 1):
        for m2 in range(-l, l + 1):
            m3 = -m1 - m2
            if abs(m3) > l:
                continue
            tot += wigner3j_lll(l, m1, m2, m3) * (q[m1 + l] * q[m2 + l] * q[m3 + l]).real
    return tot


# ------------------------------------------------------------------------------------------ 3D BOO
def bonds(pos, H, ppp, nl):
    """Minimum-image bond vectors r_j - r_i for every listed neighbour (C02 contract)."""
    pos = np.asarray(pos, float)
    out = []
    for i, lst in enumerate(nl):
        if len(lst):
            out.append(minimg(pos[list(lst)] - pos[i], H, ppp))
        else:
            out.append(np.zeros((0, pos.shape[1])))
    return out


def ref_qlm(pos, H, ppp, nl, l, weights=None):
    """q_lm(i) = sum_j w_ij Y_lm(r_ij), w_ij = 1/N_i or A_ij / sum_j A_ij;  Q_lm(i) = (q(i)+sum_j q(j))/(1+N_i)."""
    n = len(pos)
    b = bonds(pos, H, ppp, nl)
    q = np.zeros((n, 2 * l + 1), dtype=np.complex128)
    for i in range(n):
        ni = len(nl[i])
        for k in range(ni):
            wgt = 1.0 / ni if weights is None else weights[i][k] / math.fsum(weights[i])
            q[i] += wgt * ylm_vec(l, b[i][k])
    Q = np.zeros_like(q)
    for i in range(n):
        acc = q[i].copy()
        for j in nl[i]:
            acc = acc + q[j]
        Q[i] = acc / (1 + len(nl[i]))
    return q, Q


def ref_ql(q, l):
    return np.sqrt(4.0 * math.pi / (2 * l + 1) * (np.abs(q) ** 2).sum(axis=-1))


def ref_sij(q, nl):
    """list over particles of arrays s_ij = Re(q_i . conj q_j)/(|q_i||q_j|), and the norms."""
    nrm = np.sqrt((np.abs(q) ** 2).sum(axis=1))
    out = []
    for i, lst in enumerate(nl):
        row = []
        for j in lst:
            up = 0.0
            for m in range(q.shape[1]):
                up += (q[i, m] * q[j, m].conjugate()).real
            row.append(up / (nrm[i] * nrm[j]) if nrm[i] * nrm[j] > 0 else float("nan"))
        out.append(np.array(row))
    return out, nrm


def ref_w(q, l):
    w = np.array([w_of(q[i], l) for i in range(q.shape[0])])
    n2 = (np.abs(q) ** 2).sum(axis=1)
    with np.errstate(all="ignore"):
        what = w / n2**1.5
    return w, what


# ------------------------------------------------------------------------------------------ 2D BOO
def ref_psi(pos, H, ppp, nl, l, weights=None):
    """psi_l(i) = mean_j exp(i l theta_ij)  or  sum_j A_ij exp(i l theta_ij) / sum_j |A_ij| (de Moivre, no atan2)."""
    b = bonds(pos, H, ppp, nl)
    out = np.zeros(len(pos), dtype=np.complex128)
    for i in range(len(pos)):
        ni = len(nl[i])
        den = float(ni) if weights is None else math.fsum(abs(x) for x in weights[i])
        acc = 0j
        for k in range(ni):
            x, y = float(b[i][k][0]), float(b[i][k][1])
            u = complex(x, y) / math.hypot(x, y)
            acc += (1.0 if weights is None else weights[i][k]) * u**l
        out[i] = acc / den
    return out


# ------------------------------------------------------------------------------------------ correlations
def ref_time_corr(series, steps, dt):
    """series: array (F, N, ...) complex.  Returns (t, C, style).  Linear spacing (exactly one distinct step
    difference): C(k) = mean over origins of Re sum x(t0+k) conj x(t0); otherwise origin 0 only; C /= C(0)."""
    series = np.asarray(series)
    F = series.shape[0]
    steps = [int(s) for s in steps]
    diffs = {steps[k + 1] - steps[k] for k in range(F - 1)}
    style = "linear" if len(diffs) == 1 else "log"
    C = np.zeros(F)
    if style == "linear":
        for k in range(F):
            vals = []
            for t0 in range(F - k):
                vals.append(float(np.sum(series[t0 + k] * np.conj(series[t0])).real))
            C[k] = math.fsum(vals) / len(vals)
    else:
        for k in range(F):
            C[k] = float(np.sum(series[k] * np.conj(series[0])).real)
    t = np.array([(s - steps[0]) * dt for s in steps])
    with np.errstate(all="ignore"):
        return t, C / C[0], style


def ref_spatial(frames, H, ppp, w, conds, kind):
    """Frame mean of the conditional g(r) reference.  Returns r, gr_lo, gr_hi, gA, amb(bool per bin)."""
    acc = None
    Hf = list(H) if np.ndim(H) == 3 else [H] * len(frames)  # one cell, or one per frame (same edge lengths, tilts may change)
    for pos, c, Hc in zip(frames, conds, Hf):
        o = ref_cond_gr(np.asarray(pos, float), Hc, ppp, w, np.asarray(c), kind)
        if acc is None:
            acc = {k: (v.copy() if k != "r" else v) for k, v in o.items() if k in ("r", "gr_lo", "gr_hi", "gA", "amb")}
        else:
            for k in ("gr_lo", "gr_hi", "gA"):
                acc[k] = acc[k] + o[k]
            acc["amb"] = acc["amb"] | o["amb"]
    F = len(frames)
    for k in ("gr_lo", "gr_hi", "gA"):
        acc[k] = acc[k] / F
    return acc


def ref_window_len(period, interval_steps, dt):
    """floor(period / (interval_steps*dt)) in rational arithmetic on the decimal literals."""
    p = Fraction(str(period))
    iv = Fraction(int(interval_steps)) * Fraction(str(dt))
    return int(p / iv // 1)


# ------------------------------------------------------------------------------------------ crystals
def shell_fcc():
    v = []
    for a in (-1, 0, 1):
        for b in (-1, 0, 1):
            for c in (-1, 0, 1):
                if abs(a) + abs(b) + abs(c) == 2:
                    v.append([a / 2.0, b / 2.0, c / 2.0])
    return v


def shell_bcc8():
    return [[a / 2.0, b / 2.0, c / 2.0] for a in (-1, 1) for b in (-1, 1) for c in (-1, 1)]


def shell_sc():
    out = []
    for ax in range(3):
        for s in (-1.0, 1.0):
            e = [0.0, 0.0, 0.0]
            e[ax] = s
            out.append(e)
    return out


def shell_bcc14():
    return shell_bcc8() + shell_sc()


def shell_hcp():
    """ideal hcp (c/a = sqrt(8/3)), nearest-neighbour distance 1: six in plane, three above, three below."""
    out = []
    for k in range(6):
        a = k * math.pi / 3.0
        out.append([math.cos(a), math.sin(a), 0.0])
    h = math.sqrt(2.0 / 3.0)
    rr = 1.0 / math.sqrt(3.0)
    for sgn in (1.0, -1.0):
        for k in range(3):
            a = math.pi / 6.0 + k * 2.0 * math.pi / 3.0
            out.append([rr * math.cos(a), rr * math.sin(a), sgn * h])
    return out


def shell_ico():
    g = (1.0 + math.sqrt(5.0)) / 2.0
    out = []
    for s1 in (-1.0, 1.0):
        for s2 in (-1.0, 1.0):
            out.append([0.0, s1, s2 * g])
            out.append([s1, s2 * g, 0.0])
            out.append([s2 * g, 0.0, s1])
    return out


# Steinhardt, Nelson, Ronchetti PRB 28, 784 (1983); Mickel et al. JCP 138, 044501 (2013), table I.
TABLE = {
    "fcc": {"q4": 0.190941, "q6": 0.574524, "w4": -0.159317, "w6": -0.013161},
    "hcp": {"q4": 0.097222, "q6": 0.484762, "w4": 0.134097, "w6": -0.012442},
    "bcc8": {"q4": 0.509175, "q6": 0.628539, "w4": -0.159317, "w6": 0.013161},
    "bcc14": {"q4": 0.036370, "q6": 0.510688, "w4": 0.159317, "w6": 0.013161},
    "sc": {"q4": 0.763763, "q6": 0.353553, "w4": 0.159317, "w6": 0.013161},
    "ico": {"q4": 0.0, "q6": 0.663325, "w4": None, "w6": -0.169754},
}
SHELLS = {"fcc": shell_fcc, "hcp": shell_hcp, "bcc8": shell_bcc8, "bcc14": shell_bcc14, "sc": shell_sc, "ico": shell_ico}
