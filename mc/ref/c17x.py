"""Vectorised references for the *scale* slice of C17 (pair entropy S2, tetrahedral order, nematic tensor).  Same formulas as the literal
loop transcriptions in mc/ref/cgorder.py, evaluated with numpy on full pair tables so that inputs of a few hundred particles stay cheap.
Nothing here calls the library."""
from __future__ import annotations

import math

import numpy as np

from mc.ref.c09x import cells_for, frames_for, minimg_rows, ragged_lists, tie_margin_allpairs  # noqa: F401


def pair_table(pos, H, ppp):
    """minimum-image vectors v[i, j] = r_j - r_i (C02 contract) and distances, all ordered pairs"""
    pos = np.asarray(pos, float)
    n, d = pos.shape
    v = minimg_rows((pos[None, :, :] - pos[:, None, :]).reshape(n * n, d), H, ppp).reshape(n, n, d)
    return v, np.sqrt((v * v).sum(axis=2))


def ref_s2(pos, H, types, sigmas, ppp, rdelta, ndelta):
    """docs/orderings.md section 3: s2_i = -(d-1) pi rho trapz[(g ln g - g + 1) r^(d-1)], g_i(r_k) = sum_{j: r_ij < r_m} Gauss(r_k - r_ij; sigma_{t_i t_j})
    / (4 pi rho r_k^2 | 2 pi rho r_k), r_k = (k + 1/2) rdelta, r_m = r_{ndelta-1}.  Returns (s2[N], g[N, ndelta], info)."""
    pos = np.asarray(pos, float)
    N, d = pos.shape
    H = np.asarray(H, float)
    sigmas = np.asarray(sigmas, float)
    t = np.asarray(types, int) - 1
    rho = N / float(np.prod(np.diag(H)))
    r = np.arange(ndelta) * rdelta + rdelta / 2
    rm = r[-1]
    _, dist = pair_table(pos, H, ppp)
    off = ~np.eye(N, dtype=bool)
    inside = (dist < rm) & off
    margin = float(np.abs(dist[off] - rm).min())
    shell = 4 * math.pi * rho * r**2 if d == 3 else 2 * math.pi * rho * r
    g = np.zeros((N, ndelta))
    for i in range(N):
        dj = dist[i, inside[i]]
        s = sigmas[t[i], t[inside[i]]]
        g[i] = (np.exp(-((r[None, :] - dj[:, None]) ** 2) / (2 * s[:, None] ** 2)) / np.sqrt(2 * math.pi * s[:, None] ** 2)).sum(axis=0) / shell
    with np.errstate(all="ignore"):
        y = (g * np.log(g) - g + 1) * r ** (d - 1)
    integ = (0.5 * (y[:, 1:] + y[:, :-1]) * (r[1:] - r[:-1])).sum(axis=1)
    return -(d - 1) * math.pi * rho * integ, g, {"margin": margin, "gmin": float(g.min()), "nneigh": inside.sum(axis=1)}


def ref_tetra(pos, H, ppp):
    """q_i = 1 - 3/32 sum_{j<k among the four nearest} (cos psi_jk + 1/3)^2; also the gap between the 4th and 5th nearest distance"""
    v, dist = pair_table(pos, H, ppp)
    N = len(dist)
    dd = dist.copy()
    dd[np.arange(N), np.arange(N)] = np.inf
    order = np.argsort(dd, axis=1)
    four = order[:, :4]
    ds = np.take_along_axis(dd, order[:, :5], axis=1)
    margin = float((ds[:, 4] - ds[:, 3]).min())
    vec = v[np.arange(N)[:, None], four]  # (N, 4, 3)
    u = vec / np.linalg.norm(vec, axis=2, keepdims=True)
    cosm = np.einsum("nad,nbd->nab", u, u)
    s = np.zeros(N)
    for a in range(4):
        for b in range(a + 1, 4):
            s += (cosm[:, a, b] + 1.0 / 3.0) ** 2
    return 1.0 - 3.0 / 32.0 * s, four, margin


def ref_nematic(u, topo=None):
    """Q_i = (2 u u^T - I)/2, averaged over self + listed neighbours when a list is given; S = sqrt(2 tr Q^2); lam = largest eigenvalue
    (closed form for a symmetric 2x2 matrix)"""
    u = np.asarray(u, float)
    N = len(u)
    Q = (2 * u[:, :, None] * u[:, None, :] - np.eye(2)[None]) / 2
    if topo is not None:
        cn = np.array([len(x) for x in topo], dtype=int)
        I = np.repeat(np.arange(N), cn)
        J = np.array([j for x in topo for j in x], dtype=int)
        acc = Q.copy()
        if len(J):
            np.add.at(acc, I, Q[J])
        Q = acc / (1.0 + cn)[:, None, None]
    tr2 = np.einsum("nab,nba->n", Q, Q)
    S = np.sqrt(2 * tr2)
    m = (Q[:, 0, 0] + Q[:, 1, 1]) / 2
    h = (Q[:, 0, 0] - Q[:, 1, 1]) / 2
    lam = m + np.sqrt(h * h + Q[:, 0, 1] * Q[:, 1, 0])
    return Q, S, lam


def species(N, K, f):
    """species by id for frame f: same composition in every frame, different assignment (the labels are rotated along the ids);
    K = 3: species 3 has exactly one member"""
    if K == 1:
        return [1] * N
    base = [1 + ((i * i + i // 3) % 2) for i in range(N)]
    if K == 3:
        base[N - 1] = 3
    sh = (17 * f) % N
    return base[sh:] + base[:sh]
