"""setup_cmd: imports, tool availability, schema validation of MANIFEST and of a dry-run evidence file."""
import json
import os
import shutil
import subprocess
import sys
import tempfile

from mc import harness


def _validate(instance_path, schema_path):
    vt = shutil.which("python3-vt")
    if not vt:
        return None
    code = (
        "import json,sys,jsonschema;"
        "jsonschema.validate(json.load(open(sys.argv[1])), json.load(open(sys.argv[2])));print('valid')"
    )
    pr = subprocess.run([vt, "-c", code, instance_path, schema_path], capture_output=True, text=True)
    return pr.returncode == 0, (pr.stdout + pr.stderr)[-800:]


def detection_selftest():
    """A harness that has never failed has not been shown to work: run the cheapest check against a scratch COPY of the library with a
    known property-breaking change (mask ignored in remove_pbc) and demand exit 1, a VIOLATION line and a replay file that fails on the
    copy and passes on the unchanged tree.  /repo itself is never touched."""
    tmp = tempfile.mkdtemp(prefix="vf_detect_")
    ok = True
    try:
        shutil.copytree(os.path.join(harness.REPO, "PyMatterSim"), os.path.join(tmp, "repo", "PyMatterSim"))
        f = os.path.join(tmp, "repo", "PyMatterSim", "utils", "pbc.py")
        src = open(f).read()
        needle = "np.rint(matrixij) * ppp"
        if needle not in src:
            print("selftest: detection self-test skipped (pbc.py no longer contains the expression the built-in mutant rewrites)")
            return True
        open(f, "w").write(src.replace(needle, "np.rint(matrixij)", 1))
        out = os.path.join(tmp, "out")
        env = dict(os.environ, VERIF_OUT=out, VERIF_REPO=os.path.join(tmp, "repo"))
        pr = subprocess.run([os.path.join(harness.VERIF, "check"), "C02", "--tier", "quick", "--workers", "4"], env=env, capture_output=True, text=True)
        vl = [ln for ln in pr.stdout.splitlines() if ln.startswith("VIOLATION property=C02 replay=")]
        if pr.returncode != 1 or not vl:
            print("SELFTEST FAIL: the built-in mutant (periodicity mask ignored) was not reported: rc=", pr.returncode, pr.stdout[-400:])
            return False
        rp = vl[0].split("replay=", 1)[1].strip()
        p1 = subprocess.run([os.path.join(harness.VERIF, "check"), "--replay", rp], env=env, capture_output=True, text=True)
        env2 = dict(os.environ, VERIF_OUT=out)
        env2.pop("VERIF_REPO", None)
        p2 = subprocess.run([os.path.join(harness.VERIF, "check"), "--replay", rp], env=env2, capture_output=True, text=True)
        if p1.returncode != 1 or p2.returncode != 0:
            print(f"SELFTEST FAIL: replay {rp}: rc on the mutated copy {p1.returncode} (want 1), on the unchanged tree {p2.returncode} (want 0)")
            ok = False
        else:
            print(f"selftest: built-in mutant reported ({len(vl)} VIOLATION lines), its replay fails on the copy and passes on the unchanged tree")
    finally:
        shutil.rmtree(tmp, ignore_errors=True)
    return ok


def main():
    harness.bind()
    ok = True
    man = json.load(open(os.path.join(harness.VERIF, "MANIFEST.json")))
    for c in man["checks"]:
        pid = c["property_id"]
        try:
            mod = __import__(f"checks.{pid.lower()}", fromlist=["subs"])
            for tier in ("quick", "thorough"):
                ss = mod.subs(tier, 0)
                assert ss, "no sub-checks"
        except Exception as e:  # pragma: no cover
            print(f"SELFTEST FAIL: checks/{pid.lower()}.py: {type(e).__name__}: {e}")
            ok = False
    ms = "/root/.vp/MANIFEST.schema.json"
    if os.path.exists(ms):
        r = _validate(os.path.join(harness.VERIF, "MANIFEST.json"), ms)
        if r is not None and not r[0]:
            print("SELFTEST FAIL: MANIFEST.json invalid:", r[1])
            ok = False
    # dry-run: the cheapest check, evidence into a scratch dir, validated against the schema
    tmp = tempfile.mkdtemp(prefix="vf_selftest_")
    try:
        env = dict(os.environ, VERIF_OUT=tmp)
        pr = subprocess.run([os.path.join(harness.VERIF, "check"), "C02", "--tier", "quick", "--workers", "4"], env=env, capture_output=True, text=True)
        if pr.returncode != 0:
            print("SELFTEST FAIL: dry run of C02 rc=", pr.returncode, pr.stdout[-500:], pr.stderr[-500:])
            ok = False
        es = "/root/.vp/EVIDENCE.schema.json"
        ev = os.path.join(tmp, "evidence", "C02.json")
        if os.path.exists(es) and os.path.exists(ev):
            r = _validate(ev, es)
            if r is not None and not r[0]:
                print("SELFTEST FAIL: evidence invalid:", r[1])
                ok = False
    finally:
        shutil.rmtree(tmp, ignore_errors=True)
    ok = detection_selftest() and ok
    print("selftest", "ok" if ok else "FAILED")
    return 0 if ok else 3
