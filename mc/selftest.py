"""setup_cmd: imports, tool availability, schema validation of MANIFEST and of a dry-run evidence file."""
import json
import os
import shutil
import subprocess
import sys
import tempfile

from mc import harness


def _validate(instance_path, schema_path):
    vt = shutil.which("python3-vt")
    if not vt:
        return None
    code = (
        "import json,sys,jsonschema;"
        "jsonschema.validate(json.load(open(sys.argv[1])), json.load(open(sys.argv[2])));print('valid')"
    )
    pr = subprocess.run([vt, "-c", code, instance_path, schema_path], capture_output=True, text=True)
    return pr.returncode == 0, (pr.stdout + pr.stderr)[-800:]


def main():
    harness.bind()
    ok = True
    man = json.load(open(os.path.join(harness.VERIF, "MANIFEST.json")))
    for c in man["checks"]:
        pid = c["property_id"]
        try:
            mod = __import__(f"checks.{pid.lower()}", fromlist=["subs"])
            for tier in ("quick", "thorough"):
                ss = mod.subs(tier, 0)
                assert ss, "no sub-checks"
        except Exception as e:  # pragma: no cover
            print(f"SELFTEST FAIL: checks/{pid.lower()}.py: {type(e).__name__}: {e}")
            ok = False
    ms = "/root/.vp/MANIFEST.schema.json"
    if os.path.exists(ms):
        r = _validate(os.path.join(harness.VERIF, "MANIFEST.json"), ms)
        if r is not None and not r[0]:
            print("SELFTEST FAIL: MANIFEST.json invalid:", r[1])
            ok = False
    # dry-run: the cheapest check, evidence into a scratch dir, validated against the schema
    tmp = tempfile.mkdtemp(prefix="vf_selftest_")
    try:
        env = dict(os.environ, VERIF_OUT=tmp)
        pr = subprocess.run([os.path.join(harness.VERIF, "check"), "C02", "--tier", "quick", "--workers", "4"], env=env, capture_output=True, text=True)
        if pr.returncode != 0:
            print("SELFTEST FAIL: dry run of C02 rc=", pr.returncode, pr.stdout[-500:], pr.stderr[-500:])
            ok = False
        es = "/root/.vp/EVIDENCE.schema.json"
        ev = os.path.join(tmp, "evidence", "C02.json")
        if os.path.exists(es) and os.path.exists(ev):
            r = _validate(ev, es)
            if r is not None and not r[0]:
                print("SELFTEST FAIL: evidence invalid:", r[1])
                ok = False
    finally:
        shutil.rmtree(tmp, ignore_errors=True)
    print("selftest", "ok" if ok else "FAILED")
    return 0 if ok else 3
