"""Finite alphabets shared by the checks (DESIGN.md section 2/3).  Everything is deterministic;
VERIF_SEED only selects which jitter table is used (which finite alphabet is exhausted)."""
from __future__ import annotations

import hashlib
import itertools

import numpy as np


def masks(d):
    return [list(m) for m in itertools.product([1, 0], repeat=d)]


def jitter(seed, site, axis, amp=0.13):
    """Deterministic offset in [-amp, amp] (multiples of 2^-20 so sums stay well conditioned)."""
    h = hashlib.sha256(f"{seed}|{site}|{axis}".encode()).digest()
    u = int.from_bytes(h[:4], "big") / 2**32  # [0,1)
    return round((2 * u - 1) * amp * 2**20) / 2**20


def jl_points(seed, m, d, box, amp=0.13, tag=""):
    """Jittered m^d lattice inside an orthogonal box of edge lengths `box` (origin 0): list of points."""
    pts = []
    for idx in itertools.product(range(m), repeat=d):
        p = []
        for a in range(d):
            sp = box[a] / m
            p.append((idx[a] + 0.5 + jitter(seed, f"{tag}{idx}", a, amp)) * sp)
        pts.append(p)
    return pts


def generic_points(seed, n, d, tag="g"):
    """n generic fractional points in (0,1)^d from the hash table (low discrepancy is not needed)."""
    out = []
    for i in range(n):
        out.append([0.5 + jitter(seed, f"{tag}{i}", a, 0.49) for a in range(d)])
    return out


def cells2d():
    c = [[[4.0, 0.0], [0.0, 8.0]], [[4.0, 0.0], [0.0, 4.0]], [[3.0, 0.0], [0.0, 5.0]]]
    for t in (1.0, -1.0, 2.0, -2.0):
        c.append([[4.0, 0.0], [t, 8.0]])
    c.append([[3.0, 1.0], [-1.0, 4.0]])  # general (rotated-like) invertible cells
    c.append([[4.0, 2.0], [1.0, 5.0]])
    return c


def cells3d(full=True):
    c = [np.diag([4.0, 8.0, 6.0]).tolist(), np.diag([4.0, 4.0, 4.0]).tolist(), np.diag([3.0, 5.0, 7.0]).tolist()]
    tri = []
    for xy, xz, yz in itertools.product([-1.0, 0.0, 1.0], repeat=3):
        if xy == xz == yz == 0:
            continue
        tri.append([[4.0, 0, 0], [xy, 8.0, 0], [xz, yz, 6.0]])
    big = []
    for xy, xz, yz in itertools.product([-2.0, 2.0], repeat=3):
        big.append([[4.0, 0, 0], [xy, 8.0, 0], [xz, yz, 6.0]])
    gen = [[[4.0, 1.0, 0.5], [-1.0, 5.0, 1.0], [0.5, -1.0, 6.0]], [[3.0, 0.0, 1.0], [1.0, 4.0, 0.0], [0.0, 1.0, 5.0]]]
    if full:
        return c + tri + big + gen
    # quick: diagonal + 8 triclinic with mixed signs + 1 general
    pick = [tri[i] for i in (0, 3, 8, 12, 13, 17, 21, 25)]
    return c + pick + gen[:1]


def surjections(n, k):
    """All maps from n labelled particles onto species 1..k (every species used)."""
    for t in itertools.product(range(1, k + 1), repeat=n):
        if len(set(t)) == k:
            yield list(t)


def topologies(n, max_each=None):
    """All ways to give each of n particles a non-empty set of OTHER particles (as sorted lists)."""
    per = []
    for i in range(n):
        others = [j for j in range(n) if j != i]
        subs = []
        for r in range(1, len(others) + 1):
            for s in itertools.combinations(others, r):
                subs.append(list(s))
        per.append(subs)
    for combo in itertools.product(*per):
        yield [list(c) for c in combo]


def hmat_tri(L, tilts):
    """LAMMPS lower-triangular h-matrix rows a,b,c from edge lengths and tilts (xy,xz,yz) / (xy,)"""
    d = len(L)
    H = np.diag(np.array(L, float))
    if d == 2:
        H[1, 0] = tilts[0]
    else:
        H[1, 0] = tilts[0]
        H[2, 0] = tilts[1]
        H[2, 1] = tilts[2]
    return H
