"""./check CLI (see DESIGN.md Appendix A)."""
import argparse
import json
import os
import sys

sys.path.insert(0, os.path.dirname(os.path.dirname(os.path.abspath(__file__))))
from mc import harness  # noqa: E402


def main():
    ap = argparse.ArgumentParser()
    ap.add_argument("pid", nargs="?")
    ap.add_argument("--tier", default=os.environ.get("VERIF_TIER", "quick"), choices=["quick", "thorough"])
    ap.add_argument("--seed", type=int, default=int(os.environ.get("VERIF_SEED", "0") or 0))
    ap.add_argument("--workers", type=int, default=int(os.environ.get("VERIF_WORKERS", "16")))
    ap.add_argument("--sub", default=None, help="only sub-checks whose id starts with this (no evidence written)")
    ap.add_argument("--replay", default=None)
    ap.add_argument("--json", action="store_true")
    ap.add_argument("--selftest", action="store_true")
    a = ap.parse_args()
    if a.selftest:
        from mc import selftest

        sys.exit(selftest.main())
    if a.replay:
        msgs = harness.replay_once(a.replay)
        if a.json:
            print(json.dumps(msgs))
            sys.exit(1 if msgs else 0)
        body = json.load(open(a.replay))
        if msgs:
            print(f"VIOLATION property={body['property']} replay={a.replay}")
            for m in msgs:
                print("  " + m)
            sys.exit(1)
        print(f"replay {a.replay}: no violation on {harness.REPO}")
        sys.exit(0)
    if not a.pid:
        ap.error("property id required")
    sys.exit(harness.run_property(a.pid.upper(), a.tier, a.seed, a.workers, only=a.sub))


if __name__ == "__main__":
    main()
