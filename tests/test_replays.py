"""Plain pytest (no explorer): replays every stored counterexample.

* /verif/seeded/<id>/replay.json : the counterexample the property's check found when the seeded change
  <id>/patch.diff was applied.  On the unchanged tree it must replay WITHOUT a violation; with the patch applied
  (VERIF_REPO pointing at a patched worktree, see tools/with_patch.sh) it must replay WITH one.
* /verif/replays/*.json : violations found on the current tree (none are expected on the unchanged tree).

run:  cd /verif && /venv/bin/python -m pytest -q -p no:cacheprovider tests/test_replays.py
"""
import glob
import json
import os
import subprocess
import sys

import pytest

HERE = os.path.dirname(os.path.dirname(os.path.abspath(__file__)))
SEEDED = sorted(glob.glob(os.path.join(HERE, "seeded", "*", "replay.json")))


def _replay(path):
    env = dict(os.environ, PYTHONHASHSEED="0", OMP_NUM_THREADS="1")
    pr = subprocess.run([sys.executable, "-B", os.path.join(HERE, "mc", "cli.py"), "--replay", path, "--json"],
                        capture_output=True, text=True, cwd=HERE, env=env)
    line = pr.stdout.strip().splitlines()[-1] if pr.stdout.strip() else "null"
    return json.loads(line)


@pytest.mark.parametrize("path", SEEDED, ids=[os.path.basename(os.path.dirname(p)) for p in SEEDED])
def test_seeded_counterexample_is_silent_on_current_tree(path):
    msgs = _replay(path)
    patched = os.environ.get("VERIF_EXPECT_VIOLATION") == "1"
    if patched:
        assert msgs, "the stored counterexample no longer fails on the patched tree"
    else:
        assert msgs == [], f"stored counterexample of a seeded change fails on the current tree: {msgs}"


@pytest.mark.parametrize("path", sorted(glob.glob(os.path.join(HERE, "replays", "*.json"))))
def test_no_open_violation(path):
    assert _replay(path) == [], "a violation recorded on the current tree still reproduces"
